/-
  C08 — Messages and browsers are only sent to endpoints registered in metadata.
  Property theorems only (plus non-vacuity examples).  All statements quantify over
  arbitrary endpoint lists, binding lists, URLs and indexes (any length, any strings).
-/
import PysamlModel.Model.Routing
import PysamlModel.Spec.C08

namespace C08
open Routing

variable {α : Type} [DecidableEq α]

theorem mem_forBinding {eps : List (Endpoint α)} {b : α} {e : Endpoint α} :
    e ∈ forBinding eps b ↔ e ∈ eps ∧ e.binding = b := by
  simp [forBinding]

/-- What one loop iteration can return. -/
theorem pickOne_sound (truthy : α → Bool) (eps : List (Endpoint α)) (url index : Option α) (b : α)
    (p : Pick α) (h : pickOne truthy eps url index b = some p) :
    ∃ d, p = .ok b d ∧ ∃ e ∈ eps, e.binding = b ∧ (d = e.location ∨ e.responseLocation = some d) ∧
      (∀ u, url.filter truthy = some u → d = u ∧ e.location = u) ∧
      (url.filter truthy = none → ∀ i, index.filter truthy = some i → e.index = some i ∧ d = e.location) := by
  unfold pickOne at h
  simp only at h
  split at h
  · cases h
  · split at h
    next u hu =>
      split at h
      next hany =>
        cases h
        obtain ⟨e, he, hloc⟩ := List.any_eq_true.mp hany
        have hloc' : e.location = u := by simpa using hloc
        obtain ⟨hin, hb⟩ := mem_forBinding.mp he
        refine ⟨u, rfl, e, hin, hb, Or.inl hloc'.symm, ?_, ?_⟩
        · intro u' hu'; rw [hu] at hu'; cases hu'; exact ⟨rfl, hloc'⟩
        · intro hn; rw [hu] at hn; cases hn
      next => cases h
    next hu =>
      split at h
      next i hi =>
        split at h
        next s hs =>
          cases h
          have hmem := List.mem_of_find?_eq_some hs
          have hidx : s.index = some i := by simpa using List.find?_some hs
          obtain ⟨hin, hb⟩ := mem_forBinding.mp hmem
          refine ⟨s.location, rfl, s, hin, hb, Or.inl rfl, ?_, ?_⟩
          · intro u' hu'; rw [hu] at hu'; cases hu'
          · intro _ i' hi'; rw [hi] at hi'; cases hi'; exact ⟨hidx, rfl⟩
        next => cases h
      next hi =>
        split at h
        next d rest hall =>
          cases h
          have hd : d ∈ allLocations (forBinding eps b) := by rw [hall]; simp
          unfold allLocations at hd
          rcases List.mem_append.mp hd with h1 | h1
          · obtain ⟨e, he, hr⟩ := List.mem_filterMap.mp h1
            obtain ⟨hin, hb⟩ := mem_forBinding.mp he
            refine ⟨d, rfl, e, hin, hb, Or.inr hr, ?_, ?_⟩
            · intro u' hu'; rw [hu] at hu'; cases hu'
            · intro _ i' hi'; rw [hi] at hi'; cases hi'
          · obtain ⟨e, he, hr⟩ := List.mem_map.mp h1
            obtain ⟨hin, hb⟩ := mem_forBinding.mp he
            refine ⟨d, rfl, e, hin, hb, Or.inl hr.symm, ?_, ?_⟩
            · intro u' hu'; rw [hu] at hu'; cases hu'
            · intro _ i' hi'; rw [hi] at hi'; cases hi'
        next => cases h

/-- Every (binding, destination) the identity provider selects is a pair published in the
    requester's metadata, and the binding is one of the candidate bindings. -/
theorem C08_pick_registered (truthy : α → Bool) (eps : Option (List (Endpoint α))) (bindings : List α)
    (url index : Option α) (b d : α)
    (h : pickBinding truthy eps bindings url index = .ok b d) :
    b ∈ bindings ∧ ∃ l, eps = some l ∧ ∃ e ∈ l, e.binding = b ∧ (d = e.location ∨ e.responseLocation = some d) := by
  unfold pickBinding at h
  cases eps with
  | none => cases h
  | some l =>
    simp only at h
    split at h
    next p hp =>
      subst h
      obtain ⟨b', hb', hone⟩ := List.exists_of_findSome?_eq_some hp
      obtain ⟨d', hpd, e, he, heb, hd, _⟩ := pickOne_sound truthy l url index b' _ hone
      cases hpd
      exact ⟨hb', l, rfl, e, he, heb, hd⟩
    next => cases h

/-- A consumer-service URL in the request is honoured: the destination is that URL and it is
    registered for the chosen binding. -/
theorem C08_url_honoured (truthy : α → Bool) (l : List (Endpoint α)) (bindings : List α)
    (url index : Option α) (u b d : α) (hu : url.filter truthy = some u)
    (h : pickBinding truthy (some l) bindings url index = .ok b d) :
    d = u ∧ b ∈ bindings ∧ ∃ e ∈ l, e.binding = b ∧ e.location = u := by
  unfold pickBinding at h
  simp only at h
  split at h
  next p hp =>
    subst h
    obtain ⟨b', hb', hone⟩ := List.exists_of_findSome?_eq_some hp
    obtain ⟨d', hpd, e, he, heb, _, hurl, _⟩ := pickOne_sound truthy l url index b' _ hone
    cases hpd
    obtain ⟨h1, h2⟩ := hurl u hu
    exact ⟨h1, hb', e, he, heb, h2⟩
  next => cases h

/-- A consumer-service index in the request (and no URL) is honoured. -/
theorem C08_index_honoured (truthy : α → Bool) (l : List (Endpoint α)) (bindings : List α)
    (url index : Option α) (i b d : α) (hu : url.filter truthy = none) (hi : index.filter truthy = some i)
    (h : pickBinding truthy (some l) bindings url index = .ok b d) :
    b ∈ bindings ∧ ∃ e ∈ l, e.binding = b ∧ e.index = some i ∧ d = e.location := by
  unfold pickBinding at h
  simp only at h
  split at h
  next p hp =>
    subst h
    obtain ⟨b', hb', hone⟩ := List.exists_of_findSome?_eq_some hp
    obtain ⟨d', hpd, e, he, heb, _, _, hidx⟩ := pickOne_sound truthy l url index b' _ hone
    cases hpd
    obtain ⟨h1, h2⟩ := hidx hu i hi
    exact ⟨hb', e, he, heb, h1, h2⟩
  next => cases h

/-- An unregistered URL is refused, never used as a destination. -/
theorem C08_unregistered_url_refused (truthy : α → Bool) (eps : Option (List (Endpoint α))) (bindings : List α)
    (url index : Option α) (u : α) (hu : url.filter truthy = some u)
    (hun : ∀ l, eps = some l → ∀ e ∈ l, e.binding ∈ bindings → e.location ≠ u) :
    pickBinding truthy eps bindings url index = .refused := by
  cases hres : pickBinding truthy eps bindings url index with
  | refused => rfl
  | ok b d =>
    obtain ⟨_, l, hl, _⟩ := C08_pick_registered truthy eps bindings url index b d hres
    subst hl
    obtain ⟨_, hb, e, he, heb, hloc⟩ := C08_url_honoured truthy l bindings url index u b d hu hres
    exact absurd hloc (hun l rfl e he (heb ▸ hb))

/-- An unregistered index is refused. -/
theorem C08_unregistered_index_refused (truthy : α → Bool) (eps : Option (List (Endpoint α))) (bindings : List α)
    (url index : Option α) (i : α) (hu : url.filter truthy = none) (hi : index.filter truthy = some i)
    (hun : ∀ l, eps = some l → ∀ e ∈ l, e.binding ∈ bindings → e.index ≠ some i) :
    pickBinding truthy eps bindings url index = .refused := by
  cases hres : pickBinding truthy eps bindings url index with
  | refused => rfl
  | ok b d =>
    obtain ⟨_, l, hl, _⟩ := C08_pick_registered truthy eps bindings url index b d hres
    subst hl
    obtain ⟨hb, e, he, heb, hidx, _⟩ := C08_index_honoured truthy l bindings url index i b d hu hi hres
    exact absurd hidx (hun l rfl e he (heb ▸ hb))

/-- An entity without metadata is refused. -/
theorem C08_unknown_entity_refused (truthy : α → Bool) (bindings : List α) (url index : Option α) :
    pickBinding truthy (none : Option (List (Endpoint α))) bindings url index = .refused := rfl

/-- Completeness: a URL registered for one of the candidate bindings is selected. -/
theorem C08_registered_url_selected (truthy : α → Bool) (l : List (Endpoint α)) (bindings : List α)
    (url index : Option α) (u : α) (hu : url.filter truthy = some u)
    (e : Endpoint α) (he : e ∈ l) (hb : e.binding ∈ bindings) (hloc : e.location = u) :
    ∃ b, pickBinding truthy (some l) bindings url index = .ok b u := by
  unfold pickBinding
  simp only
  have hone : (pickOne truthy l url index e.binding).isSome := by
    unfold pickOne
    simp only
    have hne : (forBinding l e.binding).isEmpty = false := by
      have : e ∈ forBinding l e.binding := mem_forBinding.mpr ⟨he, rfl⟩
      cases hfb : forBinding l e.binding with
      | nil => rw [hfb] at this; cases this
      | cons _ _ => rfl
    rw [hne, hu]
    have hany : (forBinding l e.binding).any (fun s => decide (s.location = u)) = true :=
      List.any_eq_true.mpr ⟨e, mem_forBinding.mpr ⟨he, rfl⟩, by simpa using hloc⟩
    simp [hany]
  cases hfs : bindings.findSome? (pickOne truthy l url index) with
  | none =>
    have := List.findSome?_eq_none_iff.mp hfs e.binding hb
    rw [this] at hone; cases hone
  | some p =>
    obtain ⟨b', _, hone'⟩ := List.exists_of_findSome?_eq_some hfs
    obtain ⟨d', hpd, _, _, _, _, hurl, _⟩ := pickOne_sound truthy l url index b' _ hone'
    obtain ⟨h1, _⟩ := hurl u hu
    exact ⟨b', by rw [hpd, h1]⟩

/-- SP side: the single-sign-on location comes from the target's metadata for that binding. -/
theorem C08_sso_location (eps : Option (List (Endpoint α))) (b d : α) (h : ssoLocation eps b = some d) :
    ∃ l, eps = some l ∧ ∃ e ∈ l, e.binding = b ∧ e.location = d := by
  unfold ssoLocation at h
  cases eps with
  | none => cases h
  | some l =>
    simp only [Option.map_eq_some_iff] at h
    obtain ⟨e, he, hd⟩ := h
    have hmem : e ∈ forBinding l b := List.mem_of_head? he
    obtain ⟨hin, hb⟩ := mem_forBinding.mp hmem
    exact ⟨l, rfl, e, hin, hb, hd⟩

/-- SP side: logout requests go to a single-logout location of the target's metadata. -/
theorem C08_slo_location (truthy : α → Bool) (eps : List (Endpoint α)) (preferred : List α) (expected : Option α)
    (b d : α) (h : sloChoice truthy eps preferred expected = some (.ok b d)) :
    ∃ e ∈ eps, e.binding = b ∧ e.location = d := by
  unfold sloChoice at h
  split at h
  · cases h
  simp only at h
  split at h
  · cases h
  next b' _ =>
    split at h
    · cases h
    next s hs =>
      cases h
      have hmem : s ∈ forBinding eps b := List.mem_of_head? hs
      obtain ⟨hin, hb⟩ := mem_forBinding.mp hmem
      exact ⟨s, hin, hb, rfl⟩

omit [DecidableEq α] in
/-- Discovery: a return URL is approved exactly when it starts with a registered
    discovery-response location. -/
theorem C08_verify_return (pre : α → α → Bool) (disco : List α) (url : α) :
    verifyReturn pre disco url = true ↔ ∃ loc ∈ disco, pre loc url = true := by
  simp [verifyReturn]

/-- One loop iteration falls through only when no endpoint of that binding is eligible. -/
theorem pickOne_none (truthy : α → Bool) (l : List (Endpoint α)) (url index : Option α) (b : α)
    (h : pickOne truthy l url index b = none) (e : Endpoint α) (he : e ∈ l) (hb : e.binding = b) :
    (match url.filter truthy with
     | some u => decide (e.location = u)
     | none => match index.filter truthy with
       | some i => decide (e.index = some i)
       | none => true) = false := by
  have hmem : e ∈ forBinding l b := mem_forBinding.mpr ⟨he, hb⟩
  unfold pickOne at h
  simp only at h
  split at h
  next hemp =>
    cases hfb : forBinding l b with
    | nil => rw [hfb] at hmem; cases hmem
    | cons _ _ => rw [hfb] at hemp; cases hemp
  next =>
    split at h
    next u hu =>
      split at h
      · cases h
      next hany =>
        rw [hu]
        have : ¬ e.location = u := by
          intro hloc
          exact hany (List.any_eq_true.mpr ⟨e, hmem, by simpa using hloc⟩)
        simpa using this
    next hu =>
      split at h
      next i hi =>
        split at h
        · cases h
        next hfind =>
          rw [hu, hi]
          have := List.find?_eq_none.mp hfind e hmem
          simpa using this
      next hi =>
        split at h
        · cases h
        next hall =>
          have : e.location ∈ allLocations (forBinding l b) := by
            unfold allLocations
            exact List.mem_append.mpr (Or.inr (List.mem_map.mpr ⟨e, hmem, rfl⟩))
          rw [hall] at this; cases this

/-- The model's answer always meets the declarative specification `specPick`
    (soundness and completeness of the choice, for every metadata shape and request). -/
theorem C08_model_meets_spec (truthy : α → Bool) (eps : Option (List (Endpoint α))) (bindings : List α)
    (url index : Option α) :
    specPick truthy eps bindings url index (pickBinding truthy eps bindings url index) = true := by
  cases hres : pickBinding truthy eps bindings url index with
  | ok b d =>
    unfold pickBinding at hres
    cases eps with
    | none => cases hres
    | some l =>
      simp only at hres
      split at hres
      next p hp =>
        subst hres
        obtain ⟨b', hb', hone⟩ := List.exists_of_findSome?_eq_some hp
        obtain ⟨d', hpd, e, he, heb, hd, hurl, hidx⟩ := pickOne_sound truthy l url index b' _ hone
        cases hpd
        unfold specPick
        simp only
        apply List.any_eq_true.mpr
        refine ⟨e, he, ?_⟩
        unfold eligible
        cases hu : url.filter truthy with
        | some u =>
          obtain ⟨h1, h2⟩ := hurl u hu
          simp [heb, hb', h1, h2]
        | none =>
          cases hi : index.filter truthy with
          | some i =>
            obtain ⟨h1, h2⟩ := hidx hu i hi
            simp [heb, hb', h1, h2]
          | none =>
            rcases hd with hd | hd <;> simp [heb, hb', hd]
      next => cases hres
  | refused =>
    unfold specPick
    cases eps with
    | none => rfl
    | some l =>
      simp only
      unfold pickBinding at hres
      simp only at hres
      split at hres
      next p hp =>
        subst hres
        obtain ⟨b', _, hone⟩ := List.exists_of_findSome?_eq_some hp
        obtain ⟨d', hpd, _⟩ := pickOne_sound truthy l url index b' _ hone
        cases hpd
      next hnone =>
        have hall := List.findSome?_eq_none_iff.mp hnone
        simp only [Bool.not_eq_true', List.any_eq_false]
        intro e he
        unfold eligible
        by_cases hb : e.binding ∈ bindings
        · have := pickOne_none truthy l url index e.binding (hall e.binding hb) e he rfl
          simp only [hb, decide_true, Bool.true_and]
          revert this
          cases url.filter truthy <;> cases index.filter truthy <;> simp
        · simp [hb]

theorem C08_response_args_meets_spec (truthy : α → Bool) (soap empty : α) (eps : Option (List (Endpoint α)))
    (arg : List α) (reqBinding : Option α) (preferred : List α) (url index : Option α) :
    specArgs truthy soap empty eps arg reqBinding preferred url index
      (responseArgs truthy soap empty eps arg reqBinding preferred url index) = true := by
  unfold specArgs responseArgs
  split
  · simp
  · exact C08_model_meets_spec truthy eps _ url index

/-- Unless the caller allowed only the SOAP back channel, a destination returned by
    `response_args` is registered in the requester's metadata for the returned binding. -/
theorem C08_response_args_registered (truthy : α → Bool) (soap empty : α) (eps : Option (List (Endpoint α)))
    (arg : List α) (reqBinding : Option α) (preferred : List α) (url index : Option α) (b d : α)
    (hsoap : arg ≠ [soap])
    (h : responseArgs truthy soap empty eps arg reqBinding preferred url index = .ok b d) :
    ∃ l, eps = some l ∧ ∃ e ∈ l, e.binding = b ∧ (d = e.location ∨ e.responseLocation = some d) := by
  unfold responseArgs at h
  rw [if_neg hsoap] at h
  exact (C08_pick_registered truthy eps _ url index b d h).2

theorem C08_sso_meets_spec (eps : Option (List (Endpoint α))) (b : α) :
    specLoc eps b (ssoLocation eps b) = true := by
  cases h : ssoLocation eps b with
  | none => rfl
  | some d =>
    obtain ⟨l, hl, e, he, hb, hd⟩ := C08_sso_location eps b d h
    subst hl
    unfold specLoc
    simp only
    exact List.any_eq_true.mpr ⟨e, he, by simp [hb, hd]⟩

/-- SP side, negotiated binding: the binding reported and the location used belong together in the target's
    metadata, and the binding is one the caller allowed. -/
theorem C08_negotiate_registered (eps : Option (List (Endpoint α))) :
    ∀ (toTry : List α) (b d : α), negotiate eps toTry = some (b, d) → b ∈ toTry ∧ ssoLocation eps b = some d
  | [], b, d, h => by simp [negotiate] at h
  | b0 :: rest, b, d, h => by
    unfold negotiate at h
    cases hs : ssoLocation eps b0 with
    | some d0 =>
      rw [hs] at h
      simp only [Option.some.injEq, Prod.mk.injEq] at h
      obtain ⟨hb, hd⟩ := h
      subst hb; subst hd
      exact ⟨List.mem_cons_self, hs⟩
    | none =>
      rw [hs] at h
      obtain ⟨hm, hl⟩ := C08_negotiate_registered eps rest b d h
      exact ⟨List.mem_cons_of_mem _ hm, hl⟩

theorem C08_negotiate_meets_spec (eps : Option (List (Endpoint α))) (toTry : List α) :
    specNeg eps toTry (negotiate eps toTry) = true := by
  cases h : negotiate eps toTry with
  | none => rfl
  | some p =>
    obtain ⟨b, d⟩ := p
    obtain ⟨hm, hl⟩ := C08_negotiate_registered eps toTry b d h
    unfold specNeg
    simp only [Bool.and_eq_true]
    refine ⟨List.contains_iff_mem.mpr hm, ?_⟩
    have := C08_sso_meets_spec eps b
    rw [hl] at this
    exact this

theorem C08_slo_meets_spec (truthy : α → Bool) (eps : List (Endpoint α)) (preferred : List α) (expected : Option α) :
    specSlo eps (sloChoice truthy eps preferred expected) = true := by
  cases h : sloChoice truthy eps preferred expected with
  | none => rfl
  | some p =>
    cases p with
    | refused => rfl
    | ok b d =>
      obtain ⟨e, he, hb, hd⟩ := C08_slo_location truthy eps preferred expected b d h
      unfold specSlo
      simp only
      exact List.any_eq_true.mpr ⟨e, he, by simp [hb, hd]⟩

/-- Logout across several identity providers: every request goes to an endpoint published by the
    provider it is meant for (no endpoint table is carried over from one provider to the next). -/
theorem C08_slo_all_meets_spec (truthy : α → Bool) (preferred : List α) (expected : Option α) :
    ∀ (targets : List (List (Endpoint α))) (outs : List (Option (Pick α))),
      sloAll truthy preferred expected targets = some outs → specSloAll targets outs = true
  | [], outs, h => by
    unfold sloAll at h; cases h; rfl
  | eps :: rest, outs, h => by
    unfold sloAll at h
    split at h
    · cases h
    next c hc =>
      split at h
      · cases h
      next cs hcs =>
        cases h
        unfold specSloAll
        simp only [Bool.and_eq_true]
        refine ⟨?_, C08_slo_all_meets_spec truthy preferred expected rest cs hcs⟩
        exact C08_slo_meets_spec truthy eps preferred expected


/-! ## Round 5 -/

/-- `response_args` for EVERY request class on either kind of entity meets the specification. -/
theorem C08_response_args_kind_meets_spec (truthy : α → Bool) (soap empty : α) (selfIsSp : Bool) (kind : ReqKind)
    (lookup : Bool → Svc → Option (List (Endpoint α))) (arg : List α) (reqBinding : Option α)
    (preferred : Svc → List α) (url index : Option α) :
    specArgsK truthy soap empty selfIsSp kind lookup arg reqBinding preferred url index
      (responseArgsK truthy soap empty selfIsSp kind lookup arg reqBinding preferred url index) = true := by
  have key : ∀ s, specArgs truthy soap empty (lookup (kindDescrIdp selfIsSp kind) s) arg reqBinding (preferred s) url index
      (if arg = [soap] then Pick.ok soap empty
       else pickBinding truthy (lookup (kindDescrIdp selfIsSp kind) s) (effBindings truthy arg reqBinding (preferred s)) url index) = true := by
    intro s
    have := C08_response_args_meets_spec truthy soap empty (lookup (kindDescrIdp selfIsSp kind) s) arg reqBinding (preferred s) url index
    unfold responseArgs at this
    exact this
  cases kind <;> unfold specArgsK responseArgsK <;> simp only [kindService] <;>
    first
    | (have := key Svc.acs; by_cases h : arg = [soap] <;> simp_all)
    | (have := key Svc.slo; by_cases h : arg = [soap] <;> simp_all)
    | (have := key Svc.attrCs; by_cases h : arg = [soap] <;> simp_all)
    | (have := key Svc.mni; by_cases h : arg = [soap] <;> simp_all)
    | (by_cases h : arg = [soap] <;> simp_all)

/-- Whatever the request class and the entity's own role: a destination other than the SOAP back-channel answer is
    published in the requester's metadata for the return service of that request class, under the peer descriptor. -/
theorem C08_response_args_kind_registered (truthy : α → Bool) (soap empty : α) (selfIsSp : Bool) (kind : ReqKind)
    (lookup : Bool → Svc → Option (List (Endpoint α))) (arg : List α) (reqBinding : Option α)
    (preferred : Svc → List α) (url index : Option α) (b d : α) (hsoap : arg ≠ [soap])
    (h : responseArgsK truthy soap empty selfIsSp kind lookup arg reqBinding preferred url index = some (.ok b d)) :
    ∃ s, kindService kind = some s ∧ ∃ l, lookup (kindDescrIdp selfIsSp kind) s = some l ∧
      ∃ e ∈ l, e.binding = b ∧ (d = e.location ∨ e.responseLocation = some d) := by
  unfold responseArgsK at h
  cases kind <;> simp only [if_neg hsoap, kindService] at h <;>
    first
    | (cases h; done)
    | (simp only [Option.some.injEq] at h
       exact ⟨_, rfl, (C08_pick_registered truthy _ _ url index b d h).2⟩)

/-- A request class without return service is never answered with a destination (other than the back channel). -/
theorem C08_no_service_no_destination (truthy : α → Bool) (soap empty : α) (selfIsSp : Bool) (kind : ReqKind)
    (lookup : Bool → Svc → Option (List (Endpoint α))) (arg : List α) (reqBinding : Option α)
    (preferred : Svc → List α) (url index : Option α) (b d : α) (hk : kindService kind = none)
    (h : responseArgsK truthy soap empty selfIsSp kind lookup arg reqBinding preferred url index = some (.ok b d)) :
    arg = [soap] ∧ b = soap ∧ d = empty := by
  unfold responseArgsK at h
  cases kind <;> simp only [kindService] at hk h <;> (try cases hk) <;>
    (by_cases hs : arg = [soap] <;> simp_all)

/-- `pick_binding` without descriptor type: the pair chosen is published by the peer under the descriptor opposite to
    the entity's own role. -/
theorem C08_pick_direct_registered (truthy : α → Bool) (selfIsSp : Bool) (s : Svc)
    (lookup : Bool → Svc → Option (List (Endpoint α))) (arg : List α) (preferred : Svc → List α) (b d : α)
    (h : pickDirect truthy selfIsSp s lookup arg preferred = .ok b d) :
    ∃ l, lookup selfIsSp s = some l ∧ ∃ e ∈ l, e.binding = b ∧ (d = e.location ∨ e.responseLocation = some d) :=
  (C08_pick_registered truthy _ _ none none b d h).2

/-- `_sso_location` without entity id: a location is returned only when the metadata holds exactly one identity
    provider, and it is a single-sign-on location of that provider for the binding. -/
theorem C08_sso_any_registered (truthy : α → Bool) (entity : Option α) (named : Option (List (Endpoint α)))
    (idps : List (List (Endpoint α))) (b d : α) (hn : entity.filter truthy = none)
    (h : ssoLocationAny truthy entity named idps b = some d) :
    ∃ l, idps = [l] ∧ ∃ e ∈ l, e.binding = b ∧ e.location = d := by
  unfold ssoLocationAny at h
  rw [hn] at h
  simp only at h
  split at h
  next l =>
    obtain ⟨l', hl', e, he, hb, hd⟩ := C08_sso_location (some l) b d h
    cases hl'
    exact ⟨l, rfl, e, he, hb, hd⟩
  next => cases h

theorem C08_sso_any_meets_spec (truthy : α → Bool) (entity : Option α) (named : Option (List (Endpoint α)))
    (idps : List (List (Endpoint α))) (b : α) :
    specLocAny truthy entity named idps b (ssoLocationAny truthy entity named idps b) = true := by
  unfold specLocAny
  cases hn : entity.filter truthy with
  | some u =>
    simp only
    unfold ssoLocationAny
    rw [hn]
    exact C08_sso_meets_spec named b
  | none =>
    simp only
    cases h : ssoLocationAny truthy entity named idps b with
    | none => rfl
    | some d =>
      obtain ⟨l, hl, e, he, hb, hd⟩ := C08_sso_any_registered truthy entity named idps b d hn h
      subst hl
      simp only
      unfold specLoc
      simp only
      exact List.any_eq_true.mpr ⟨e, he, by simp [hb, hd]⟩

/-- Histories on one long-lived entity (changes of the metadata source, reloads that succeed or fail, look-ups, in any
    order and number): if single answers meet `spec`, every answer of the history meets it for the metadata installed
    by the last successful reload. -/
theorem C08_history_meets_spec {μ ρ ο : Type} (answer : μ → ρ → ο) (spec : μ → ρ → ο → Bool)
    (hs : ∀ m q, spec m q (answer m q) = true) :
    ∀ (steps : List (HStep μ ρ)) (disk : Option μ) (loaded : μ),
      specHist spec disk loaded steps (runHist answer disk loaded steps) = true
  | [], d, l => by cases d <;> simp [runHist, specHist]
  | .write m :: r, d, l => by
    have ih := C08_history_meets_spec answer spec hs r m l
    cases d <;> simpa [runHist, specHist] using ih
  | .reload :: r, none, l => by
    have ih := C08_history_meets_spec answer spec hs r none l
    simpa [runHist, specHist] using ih
  | .reload :: r, some m, l => by
    have ih := C08_history_meets_spec answer spec hs r (some m) m
    simpa [runHist, specHist] using ih
  | .ask q :: r, d, l => by
    have ih := C08_history_meets_spec answer spec hs r d l
    cases d <;> simp [runHist, specHist, hs, ih]

/-- No memory of older metadata: whatever happened before (look-ups included), once the source holds `m` and is
    reloaded, look-ups are answered from `m` alone. -/
theorem C08_history_reload_current {μ ρ ο : Type} (answer : μ → ρ → ο) (m : μ) (rest : List (HStep μ ρ)) :
    ∀ (pre : List (HStep μ ρ)) (disk : Option μ) (loaded : μ),
      (runHist answer disk loaded (pre ++ .write (some m) :: .reload :: rest)).drop (runHist answer disk loaded pre).length
        = .reloaded true :: runHist answer (some m) m rest
  | [], d, l => by cases d <;> simp [runHist]
  | .write m' :: r, d, l => by
    have ih := C08_history_reload_current answer m rest r m' l
    cases d <;> simpa [runHist] using ih
  | .reload :: r, none, l => by
    have ih := C08_history_reload_current answer m rest r none l
    simpa [runHist] using ih
  | .reload :: r, some m', l => by
    have ih := C08_history_reload_current answer m rest r (some m') m'
    simpa [runHist] using ih
  | .ask q :: r, d, l => by
    have ih := C08_history_reload_current answer m rest r d l
    cases d <;> simpa [runHist] using ih

/-- Histories of `response_args` look-ups: a destination returned at any point of any history is published in the
    metadata version installed by the last successful reload. -/
theorem C08_history_response_args (truthy : α → Bool) (soap empty : α) {μ : Type}
    (eps : μ → Option (List (Endpoint α)))
    (steps : List (HStep μ (List α × Option α × List α × Option α × Option α))) (disk : Option μ) (loaded : μ) :
    specHist (fun m q o => specArgs truthy soap empty (eps m) q.1 q.2.1 q.2.2.1 q.2.2.2.1 q.2.2.2.2 o) disk loaded steps
      (runHist (fun m q => responseArgs truthy soap empty (eps m) q.1 q.2.1 q.2.2.1 q.2.2.2.1 q.2.2.2.2) disk loaded steps) = true :=
  C08_history_meets_spec _ _ (fun m q => C08_response_args_meets_spec truthy soap empty (eps m) q.1 q.2.1 q.2.2.1 q.2.2.2.1 q.2.2.2.2)
    steps disk loaded

/-! Non-vacuity: concrete instances meeting the hypotheses. -/

private def ep (b l : String) (i : String) : Endpoint String := { binding := b, location := l, index := some i }
private def t (s : String) : Bool := s ≠ ""

example : pickBinding t (some [ep "post" "https://sp/acs" "0", ep "redirect" "https://sp/acs2" "1"])
    ["redirect", "post"] (some "https://sp/acs") none = .ok "post" "https://sp/acs" := by decide
example : pickBinding t (some [ep "post" "https://sp/acs" "0"]) ["post"] (some "https://evil/acs") none
    = .refused := by decide
example : pickBinding t (some [ep "post" "https://sp/acs" "0", ep "post" "https://sp/b" "7"]) ["post"] none (some "7")
    = .ok "post" "https://sp/b" := by decide
example : pickBinding t (some [ep "post" "https://sp/acs" "0"]) ["post"] (some "") (some "")
    = .ok "post" "https://sp/acs" := by decide
example : verifyReturn (fun l u => l.isPrefixOf u) [[1, 2, 3]] [1, 2, 3, 4, 5] = true := by decide
example : verifyReturn (fun l u => l.isPrefixOf u) [[1, 2, 3]] [9, 1, 2, 3] = false := by decide

-- round 5
private def lk : Bool → Svc → Option (List (Endpoint String))
  | false, .mni => some [ep "post" "https://sp/mni" "0"]
  | true, .slo => some [ep "redirect" "https://idp/slo" "0"]
  | _, _ => none
example : responseArgsK t "soap" "" false .manageNameId lk ["post"] none (fun _ => []) none none
    = some (.ok "post" "https://sp/mni") := by decide
example : responseArgsK t "soap" "" true .logout lk ["redirect"] none (fun _ => []) none none
    = some (.ok "redirect" "https://idp/slo") := by decide
example : responseArgsK t "soap" "" false .soapOnly lk ["post"] none (fun _ => []) none none = none := by decide
example : ssoLocationAny t none none [[ep "post" "https://idp/sso" "0"]] "post" = some "https://idp/sso" := by decide
example : ssoLocationAny t none none [[ep "post" "https://idp/sso" "0"], [ep "post" "https://idp2/sso" "0"]] "post" = none := by
  decide
example : runHist (fun (m : Nat) (q : Nat) => m + q) (some 1) 1 [.ask 0, .write (some 5), .ask 0, .reload, .ask 0, .write none, .reload, .ask 0]
    = [.ans 1, .ans 1, .reloaded true, .ans 5, .reloaded false, .ans 5] := by decide

end C08
