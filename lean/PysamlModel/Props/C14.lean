/-
  C14 — Bindings deliver messages and relay state intact and inert.
  Property theorems only (plus non-vacuity examples).  Every statement quantifies over ALL byte
  strings (`List Nat` with every element `< 256`, any length): messages, relay states, destinations,
  entity ids, handles.  zlib and SHA-1 are parameters with their laws as hypotheses.

  Helper lemmas: `Proofs/C14Codec.lean`, `C14Url.lean`, `C14Html.lean`, `C14Form.lean`, `C14Misc.lean`, `C14Open.lean`.
-/
import PysamlModel.Proofs.C14Open

namespace C14
open Codec HtmlScan Bindings C14Spec

/-! ## 1. Codecs -/

/-- base64: decoding an encoded byte string gives it back (any length: induction on chunks of 3). -/
theorem C14_b64_roundtrip (bs : Bytes) (h : IsBytes bs) : b64decode (b64encode bs) = some bs :=
  b64_roundtrip bs h

example : b64decode (b64encode [0, 255, 16, 77]) = some [0, 255, 16, 77] := by decide

/-- The same through the `str` entry point `Entity.unravel` uses (the encoding is pure ASCII). -/
theorem C14_b64_str_roundtrip (bs : Bytes) (h : IsBytes bs) : b64decodeStr (b64encode bs) = some bs :=
  b64decodeStr_encode bs h

/-- `html.escape(s, quote=True)` output is inert: none of `< > " '`, and `&` only as the start of
    one of the five entities it produces. -/
theorem C14_htmlEscape_inert (s : Bytes) : inertEscaped (htmlEscape s) = true := htmlEscape_inert s

example : htmlEscape [34, 62, 60, 38, 39, 97] ≠ [34, 62, 60, 38, 39, 97] ∧ inertEscaped [34, 62] = false := by decide

/-- Entity decoding gives the original string back. -/
theorem C14_htmlUnescape_escape (s : Bytes) : htmlUnescape (htmlEscape s) = s := htmlUnescape_escape s

example : htmlUnescape (htmlEscape [38, 97, 109, 112, 59, 34]) = [38, 97, 109, 112, 59, 34] := by decide

/-- `unquote_plus(quote_plus(s)) == s`. -/
theorem C14_quote_roundtrip (s : Bytes) (h : IsBytes s) : unquotePlus (quotePlus s) = s := quote_roundtrip s h

example : unquotePlus (quotePlus [43, 32, 37, 38, 61, 195, 169]) = [43, 32, 37, 38, 61, 195, 169] := by decide

/-- Law 1 used by C15: `quote_plus` is injective on byte strings. -/
theorem C14_quotePlus_injective (a b : Bytes) (ha : IsBytes a) (hb : IsBytes b) (h : quotePlus a = quotePlus b) : a = b :=
  quotePlus_injective a b ha hb h

/-- Law 2 used by C15: `quote_plus` output contains no `&`, `=`, `#`, `?` or space. -/
theorem C14_quotePlus_no_amp_eq (s : Bytes) : ∀ c ∈ quotePlus s, c ≠ 38 ∧ c ≠ 61 ∧ c ≠ 35 ∧ c ≠ 63 ∧ c ≠ 32 :=
  quotePlus_no_amp_eq s

/-- `parse_qsl(urlencode(params)) == params` for any parameter list whose values are non-empty
    (blank values are dropped by `parse_qsl`'s default). -/
theorem C14_urlencode_roundtrip (ps : List (Bytes × Bytes))
    (h : ∀ kv ∈ ps, IsBytes kv.1 ∧ IsBytes kv.2 ∧ kv.2 ≠ []) : parseQsl (urlencode ps) = ps :=
  urlencode_roundtrip ps h

example : parseQsl (urlencode [([97, 38], [61, 32, 43]), ([98], [35, 63])]) = [([97, 38], [61, 32, 43]), ([98], [35, 63])] := by
  decide

/-- The dictionary view (`parse_qs`): parameters with pairwise different names come back as one
    single-valued entry each, in order. -/
theorem C14_parseQs_urlencode (ps : List (Bytes × Bytes))
    (h : ∀ kv ∈ ps, IsBytes kv.1 ∧ IsBytes kv.2 ∧ kv.2 ≠ []) (hnd : (ps.map (·.1)).Nodup) :
    parseQs (urlencode ps) = ps.map (fun kv => (kv.1, [kv.2])) := by
  unfold parseQs
  rw [urlencode_roundtrip ps h, foldl_qsInsert ps [] hnd (by simp)]
  simp

example : parseQs (urlencode [([97], [49]), ([98], [50, 38])]) = [([97], [[49]]), ([98], [[50, 38]])] := by decide

/-- The codec models satisfy the specifications the driver evaluates on the implementation. -/
theorem C14_model_meets_spec_codecs (s : Bytes) (h : IsBytes s) :
    specB64 s (b64encode s) = true ∧ specEscape s (htmlEscape s) = true ∧ specQuote s (quotePlus s) = true := by
  refine ⟨by simp [specB64, b64_roundtrip s h], by simp [specEscape, htmlEscape_inert, htmlUnescape_escape], ?_⟩
  unfold specQuote
  rw [quote_roundtrip s h, Bool.and_eq_true, List.all_eq_true]
  refine ⟨by simp, ?_⟩
  intro c hc
  have := quotePlus_no_amp_eq s c hc
  simp [this.1, this.2.1, this.2.2.1, this.2.2.2.1, this.2.2.2.2]

theorem C14_model_meets_spec_urlencode (ps : List (Bytes × Bytes))
    (h : ∀ kv ∈ ps, IsBytes kv.1 ∧ IsBytes kv.2 ∧ kv.2 ≠ []) : specUrlencode ps (urlencode ps) = true := by
  unfold specUrlencode
  rw [urlencode_roundtrip ps h]
  have : ps.filter (fun kv => !kv.2.isEmpty) = ps := by
    apply List.filter_eq_self.mpr
    intro kv hkv
    have := (h kv hkv).2.2
    cases hk : kv.2 with
    | nil => exact absurd hk this
    | cons a t => rfl
  simp [this]

/-! ## 2. HTTP-POST form -/

/-- **Inertness of the form.**  Whatever the message, destination, relay state and parameter name
    are: the scanner's event stream over the generated page is the template's own event stream in
    which every hole is filled with the (escaped) caller string as attribute-VALUE characters and
    nothing else; the page is well formed; and its tags and attribute names are those of the
    template rendered with empty values.  Caller strings add no markup and no attributes. -/
theorem C14_form_inert (typ msg loc rs html : Bytes) (h : formPost typ msg loc rs = some html) :
    ∃ p, postPayload typ msg = some p ∧
      scan .data html = (scanT .data (formTemplate (!rs.isEmpty))).flatMap (instEv (formVals typ p loc rs)) ∧
      wellFormed html = true ∧
      (tags html).map shape = (tags (render (fun _ => []) (formTemplate (!rs.isEmpty)))).map shape := by
  obtain ⟨p, hp, rfl⟩ := formPost_some typ msg loc rs html h
  have hv := formVals_no_quote typ p loc rs
  have hok := formTemplate_holesOk (!rs.isEmpty)
  refine ⟨p, hp, (scan_render _ hv .data _ hok).1, ?_, ?_⟩
  · have := scanDoc_render _ hv _ hok
    have hw : wellFormed (render (formVals typ p loc rs) (formTemplate (!rs.isEmpty))) =
        (scanDoc (render (formVals typ p loc rs) (formTemplate (!rs.isEmpty)))).1 := rfl
    rw [hw, this]
    exact formTemplate_wf _
  · rw [tags_render _ hv _ hok, tags_render (fun _ => []) (by simp) _ hok]
    simp only [List.map_map]
    apply List.map_congr_left
    intro t _
    simp [shape_inst]

/-- The page exists whenever the payload does (the template has no unknown replacement field). -/
theorem C14_form_defined (typ msg loc rs : Bytes) (h : typ = sSAMLRequest ∨ typ = sSAMLResponse) :
    (formPost typ msg loc rs).isSome = true := by
  have : postPayload typ msg = some (b64encode msg) := by simp [postPayload, h]
  rw [formPost_eq typ msg loc rs _ this]; rfl

/-- **Round trip through the form.**  The receiver's HTML parser finds exactly the SAML control and
    (iff a relay state was given) the RelayState control, with the exact relay state; the action is
    the destination; `Entity.unravel` gives the message back byte for byte.  `hinf`: the message
    is not itself a valid raw-DEFLATE stream that inflates to something else (see
    `C14_post_unravel_full` / `_counterexample`). -/
theorem C14_post_roundtrip (inflate : Bytes → Option Bytes) (typ msg loc rs html : Bytes)
    (ht : typ = sSAMLRequest ∨ typ = sSAMLResponse) (hmsg : IsBytes msg)
    (hinf : inflate msg = none ∨ inflate msg = some msg)
    (h : formPost typ msg loc rs = some html) :
    submitted html = withRelay (typ, b64encode msg) rs ∧ formActions html = [loc] ∧
      unravelPost inflate (b64encode msg) = some msg := by
  have hp : postPayload typ msg = some (b64encode msg) := by simp [postPayload, ht]
  rw [formPost_eq typ msg loc rs _ hp] at h
  cases Option.some.inj h
  obtain ⟨h1, h2⟩ := fields_of_form typ (b64encode msg) loc rs
  refine ⟨h1, h2, ?_⟩
  unfold unravelPost
  rw [b64decodeStr_encode msg hmsg]
  rcases hinf with e | e <;> simp [e]

/-- A sender that deflates before base64 (some do, for POST too) is understood as well. -/
theorem C14_post_unravel_deflated (D : Deflate) (msg : Bytes) (hmsg : IsBytes msg) :
    unravelPost D.inflate (b64encode (D.deflate msg)) = some msg := by
  unfold unravelPost
  rw [b64decodeStr_encode _ (D.isBytes msg hmsg)]
  simp [D.law msg hmsg]

/-- Full statement for the non-deflating sender: false of the code as it is, because
    `Entity.unravel` guesses by trial inflation. -/
def C14_post_unravel_full : Prop :=
  ∀ (D : Deflate) (msg : Bytes), IsBytes msg → unravelPost D.inflate (b64encode msg) = some msg

theorem C14_post_unravel_partial (D : Deflate) (msg : Bytes) (hmsg : IsBytes msg)
    (hinf : D.inflate msg = none ∨ D.inflate msg = some msg) :
    unravelPost D.inflate (b64encode msg) = some msg := by
  unfold unravelPost
  rw [b64decodeStr_encode msg hmsg]
  rcases hinf with e | e <;> simp [e]

/-- A toy lawful `Deflate` (a one-byte header): the byte string `[0, 60]` "inflates" to `[60]`. -/
def toyDeflate : Deflate where
  deflate b := 0 :: b
  inflate b := match b with | 0 :: r => some r | _ => none
  law := by intro b _; rfl
  isBytes := by
    intro b hb c hc
    rcases List.mem_cons.mp hc with e | e
    · subst e; decide
    · exact hb c e
  nonempty := by intro b; simp

theorem C14_post_unravel_counterexample : ¬ C14_post_unravel_full := by
  intro h
  have := h toyDeflate [0, 60] (by decide)
  revert this
  decide

/-- The model's page satisfies the specification the driver evaluates on the implementation. -/
theorem C14_model_meets_spec_form (inflate : Bytes → Option Bytes) (typ msg loc rs html : Bytes)
    (hmsg : IsBytes msg) (hinf : inflate msg = none ∨ inflate msg = some msg)
    (h : formPost typ msg loc rs = some html) :
    specForm inflate (render (fun _ => []) (formTemplate (!rs.isEmpty))) typ msg loc rs html = true := by
  obtain ⟨p, hp, rfl⟩ := formPost_some typ msg loc rs html h
  have hv := formVals_no_quote typ p loc rs
  have hok := formTemplate_holesOk (!rs.isEmpty)
  unfold specForm
  simp only [scanDoc_render _ hv _ hok, formTemplate_wf, Bool.true_and]
  rw [tags_render (fun _ => []) (by simp) _ hok, rawFields_inst, rawActions_inst, formTemplate_actions]
  have hshape : List.map shape (List.map (Tag.inst (formVals typ p loc rs)) (collect {} (scanT .data (formTemplate (!rs.isEmpty))))) =
      List.map shape (List.map (Tag.inst fun _ => []) (collect {} (scanT .data (formTemplate (!rs.isEmpty))))) := by
    simp only [List.map_map]
    apply List.map_congr_left
    intro t _
    simp [shape_inst]
  rw [hshape]
  have hdel : delivers inflate typ p msg = true := by
    unfold delivers postPayload at *
    by_cases ht : typ = sSAMLRequest ∨ typ = sSAMLResponse
    · simp only [ht, if_true] at hp ⊢
      cases Option.some.inj hp
      unfold specPostDelivery unravelPost
      rw [b64decodeStr_encode msg hmsg]
      rcases hinf with e | e <;> simp [e]
    · simp only [ht, if_false] at hp ⊢
      split at hp
      · cases Option.some.inj hp; simp
      · cases hp
  have hesc := escapedIs_escape
  have hpe : escapedIs (htmlEscape p) p = true := hesc p
  unfold escapedIs at hpe
  simp only [Bool.and_eq_true, Bool.not_eq_true', beq_iff_eq] at hpe
  have h60 : 60 ∉ htmlEscape p := by simpa using hpe.1.1
  have hrelay : escapedIs sRelayState sRelayState = true := by decide
  simp only [beq_self_eq_true, Bool.true_and, List.map_cons, List.map_nil, instVal_hole]
  by_cases he : rs.isEmpty = true
  · simp [he, formTemplate_fields_norelay, instVal_hole, fieldsOk, formVals, hesc, h60, hpe.1.2, hpe.2, hdel]
  · have he' : rs.isEmpty = false := by simpa using he
    simp [he', formTemplate_fields_relay, instVal_hole, instVal_lit, fieldsOk, formVals, hesc, h60, hpe.1.2, hpe.2, hdel, hrelay]

/-! ## 3. HTTP-Redirect and the artifact URL (`pack.add_query`) -/

/-- **Inertness of the URL**, full strength: for EVERY destination — with or without `#fragment`,
    with no query, an empty query, a query ending in `?` or `&`, or any other existing query —
    ANY relay state and message, the receiver's query parameters are the destination's own followed
    by exactly the intended ones: no caller string adds, removes or changes a query parameter.
    (`queryOf` is what the receiver reads: the text between the first `?` and the first `#`.) -/
theorem C14_url_inert (D : Deflate) (typ msg loc rs url : Bytes)
    (ht : typ = sSAMLRequest ∨ typ = sSAMLResponse) (hmsg : IsBytes msg) (hrs : IsBytes rs)
    (h : redirectUrl D.deflate typ msg loc rs = some url) :
    parseQsl (queryOf url) = parseQsl (queryOf loc) ++ withRelay (typ, b64encode (D.deflate msg)) rs := by
  have htb : IsBytes typ := by rcases ht with e | e <;> subst e <;> decide
  have hargs : redirectArgs D.deflate typ msg rs = some (withRelay (typ, b64encode (D.deflate msg)) rs) := by
    simp [redirectArgs, ht]
  simp only [redirectUrl, hargs] at h
  cases Option.some.inj h
  have hround := withRelay_roundtrip typ (b64encode (D.deflate msg)) rs htb
    (b64encode_isBytes _ (D.isBytes msg hmsg)) (b64encode_ne_nil _ (D.nonempty msg)) hrs
  have := addQuery_spec loc _ _ (urlencode_no_hash _) hround
  simpa [specUrl] using this

/-- The destinations that used to fail (fixed in 1ca38117 / d815dc9a), evaluated: a fragment, a
    destination ending in `?`, a query ending in `?`, `??`. -/
example :
    parseQsl (queryOf ((redirectUrl toyDeflate.deflate sSAMLRequest [60] [104, 47, 35, 102] [114]).getD [])) =
      withRelay (sSAMLRequest, b64encode (toyDeflate.deflate [60])) [114] ∧
    parseQsl (queryOf ((redirectUrl toyDeflate.deflate sSAMLRequest [60] [104, 47, 63] []).getD [])) =
      withRelay (sSAMLRequest, b64encode (toyDeflate.deflate [60])) [] ∧
    parseQsl (queryOf ((redirectUrl toyDeflate.deflate sSAMLRequest [60] [47, 63, 97, 61, 98, 63] []).getD [])) =
      ([97], [98, 63]) :: withRelay (sSAMLRequest, b64encode (toyDeflate.deflate [60])) [] ∧
    parseQsl (queryOf ((redirectUrl toyDeflate.deflate sSAMLRequest [60] [47, 63, 63] []).getD [])) =
      withRelay (sSAMLRequest, b64encode (toyDeflate.deflate [60])) [] := by decide

/-- **Round trip through the redirect URL** (under the `Deflate` law), every destination: the
    receiver finds the destination's own parameters, then the SAML parameter whose value
    `Entity.unravel` turns back into the message byte for byte, then RelayState iff one was given,
    unchanged. -/
theorem C14_redirect_roundtrip (D : Deflate) (typ msg loc rs url : Bytes)
    (ht : typ = sSAMLRequest ∨ typ = sSAMLResponse) (hmsg : IsBytes msg) (hrs : IsBytes rs)
    (h : redirectUrl D.deflate typ msg loc rs = some url) :
    specRedirect D.inflate typ msg loc rs url = true := by
  apply specRedirect_of_params D.inflate typ msg loc rs url (b64encode (D.deflate msg))
    (C14_url_inert D typ msg loc rs url ht hmsg hrs h)
  have hne : typ ≠ sSAMLart := by rcases ht with e | e <;> subst e <;> decide
  simp only [hne, if_false]
  unfold specRedirectDelivery
  rw [unravelRedirect_deflated D msg hmsg]
  simp

/-- The model's URL satisfies the specification the driver evaluates on the implementation. -/
theorem C14_model_meets_spec_redirect (D : Deflate) (typ msg loc rs url : Bytes)
    (ht : typ = sSAMLRequest ∨ typ = sSAMLResponse) (hmsg : IsBytes msg) (hrs : IsBytes rs)
    (h : redirectUrl D.deflate typ msg loc rs = some url) :
    specRedirect D.inflate typ msg loc rs url = true :=
  C14_redirect_roundtrip D typ msg loc rs url ht hmsg hrs h

/-- The artifact URL (`use_http_artifact` calls the same `add_query`), full strength: same
    statement for the `SAMLart` parameter, every destination. -/
theorem C14_artifact_url (art loc rs : Bytes) (hart : IsBytes art) (hne : art ≠ []) (hrs : IsBytes rs) :
    specUrl loc (withRelay (sSAMLart, art) rs) (artifactUrl art loc rs) = true ∧
      specArtifactUrl art loc rs (artifactUrl art loc rs) = true := by
  have := addQuery_spec loc _ _ (urlencode_no_hash _) (withRelay_roundtrip sSAMLart art rs isBytes_SAMLart hart hne hrs)
  exact ⟨this, by simp [specArtifactUrl, artifactUrl, this]⟩

example : specUrl [47, 63, 120, 61, 49, 35, 102] (withRelay (sSAMLart, [65]) [114])
    (artifactUrl [65] [47, 63, 120, 61, 49, 35, 102] [114]) = true := by decide

/-- `http_redirect_message(typ="SAMLart")`: the artifact travels verbatim. -/
theorem C14_redirect_art_roundtrip (deflate : Bytes → Bytes) (inflate : Bytes → Option Bytes) (art loc rs url : Bytes)
    (hart : IsBytes art) (hne : art ≠ []) (hrs : IsBytes rs)
    (h : redirectUrl deflate sSAMLart art loc rs = some url) :
    specRedirect inflate sSAMLart art loc rs url = true := by
  have hargs : redirectArgs deflate sSAMLart art rs = some (withRelay (sSAMLart, art) rs) := by
    have h1 : ¬ (sSAMLart = sSAMLRequest ∨ sSAMLart = sSAMLResponse) := by decide
    simp [redirectArgs, h1]
  simp only [redirectUrl, hargs] at h
  cases Option.some.inj h
  have := addQuery_spec loc _ _ (urlencode_no_hash _) (withRelay_roundtrip sSAMLart art rs isBytes_SAMLart hart hne hrs)
  apply specRedirect_of_params inflate sSAMLart art loc rs _ art (by simpa [specUrl] using this)
  simp

/-! ## 4. SOAP -/

/-- **Tree level.**  Wrapping an element (with or without header blocks) and unwrapping gives the
    element back, whole, iff its tag is expected; otherwise the envelope is refused. -/
theorem C14_soap_tree_roundtrip {ε τ : Type} [DecidableEq τ] (tagOf : ε → τ) (expected : List τ) (hdrs : List ε) (e : ε) :
    soapUnwrapTree tagOf expected (soapWrapTree hdrs e) = if tagOf e ∈ expected then .elem e else .refused :=
  soapUnwrap_wrap tagOf expected hdrs e

example : soapUnwrapTree (fun (e : Nat) => e % 10) [3] (soapWrapTree [7, 8] 13) = .elem 13 ∧
    soapUnwrapTree (fun (e : Nat) => e % 10) [4] (soapWrapTree [] 13) = .refused := by decide

theorem C14_model_meets_spec_soap {ε τ : Type} [DecidableEq ε] [DecidableEq τ] (tagOf : ε → τ) (expected : List τ)
    (hdrs : List ε) (e : ε) :
    specSoapTree tagOf expected e (soapWrapTree hdrs e) (soapUnwrapTree tagOf expected (soapWrapTree hdrs e)) = true := by
  rw [soapUnwrap_wrap]
  unfold specSoapTree soapWrapTree
  by_cases hh : hdrs.isEmpty = true <;> by_cases ht : tagOf e ∈ expected <;> simp [hh, ht]

/-- **String level, no XML declaration**, full strength: the message text — whatever it contains —
    is spliced verbatim between the envelope's opening and closing text. -/
theorem C14_soap_string_nodecl (e : List Nat) (hd : (e.take 5).map asciiLower ≠ sXmlDeclStart) :
    soapWrapStr e = envPre ++ e ++ envPost := by
  unfold soapWrapStr stripDecl
  simp only [hd, if_false]

/-- **String level, with an XML declaration**, full strength: `<?xml` (any case) + declaration body
    without `>` + `?>` + any white space (with or without line break) + message `e` that does not
    start with white space.  Exactly the declaration and that white space are dropped; `e` is
    spliced verbatim whatever it contains (also the text of `pack.PREFIX` in a CDATA section). -/
theorem C14_soap_string_decl (x m l : Nat) (body ws e : List Nat)
    (hx : [asciiLower x, asciiLower m, asciiLower l] = [120, 109, 108]) (hb : 62 ∉ body)
    (hws : ∀ c ∈ ws, pyIsSpace c = true) (he : ∀ c, e.head? = some c → pyIsSpace c = false) :
    soapWrapStr (60 :: 63 :: x :: m :: l :: body ++ 63 :: 62 :: ws ++ e) = envPre ++ e ++ envPost := by
  unfold soapWrapStr stripDecl
  have htake : List.map asciiLower (List.take 5 (60 :: 63 :: x :: m :: l :: body ++ 63 :: 62 :: ws ++ e)) = sXmlDeclStart := by
    simp only [List.cons_append, List.take_succ_cons, List.take_zero, List.map_cons, List.map_nil, sXmlDeclStart]
    simp only [List.cons.injEq] at hx
    obtain ⟨h1, h2, h3, _⟩ := hx
    rw [h1, h2, h3]
    decide
  have hx' : x ≠ 62 ∧ m ≠ 62 ∧ l ≠ 62 := by
    simp only [List.cons.injEq] at hx
    obtain ⟨h1, h2, h3, _⟩ := hx
    unfold asciiLower at h1 h2 h3
    refine ⟨?_, ?_, ?_⟩ <;> (intro e; subst e; simp at h1 h2 h3)
  have hfound : afterDeclEnd (60 :: 63 :: x :: m :: l :: body ++ 63 :: 62 :: ws ++ e) = some (ws ++ e) := by
    have := afterDeclEnd_found (60 :: 63 :: x :: m :: l :: body) (ws ++ e) (by
      simp only [List.mem_cons, not_or]
      exact ⟨by decide, by decide, fun h => hx'.1 h.symm, fun h => hx'.2.1 h.symm, fun h => hx'.2.2 h.symm, hb⟩)
    simpa using this
  simp only [htake, if_true, hfound]
  rw [lstrip_ws ws e hws he]

/-- The old failing input (fixed in d02e146f), evaluated: `<?xml?>` followed by a message that
    contains the text of `pack.PREFIX` — it arrives whole. -/
example : soapWrapStr ([60, 63, 120, 109, 108, 63, 62] ++ (60 :: 97 :: 62 :: Gen.FormSpec.xmlPrefix ++ [60, 47, 97, 62])) =
    envPre ++ (60 :: 97 :: 62 :: Gen.FormSpec.xmlPrefix ++ [60, 47, 97, 62]) ++ envPost := by decide

example : soapWrapStr [60, 97, 47, 62] = envPre ++ [60, 97, 47, 62] ++ envPost := by decide

/-! ## 4b. SOAP with header blocks (ECP / PAOS): `class_instances_from_soap_enveloped_saml_thingies` -/

/-- **Header-carrying round trip.**  Any message element and ANY list of header blocks whose classes
    the receiver's schema modules list: wrapping and opening gives back exactly the header blocks, in
    order, and the message, each whole. -/
theorem C14_soap_open_roundtrip {ε : Type} (known : ε → Bool) (hdrs : List ε) (e : ε)
    (he : known e = true) (hh : ∀ h ∈ hdrs, known h = true) :
    soapOpenTree known (soapWrapTree hdrs e) = .ok hdrs (some e) := by
  rw [soapOpen_wrap]
  have : hdrs.all known = true := List.all_eq_true.mpr hh
  simp [he, this]

/-- An element of a class no module lists, as message or as header block, is refused (never
    delivered as something else, never silently dropped). -/
theorem C14_soap_open_unknown_refused {ε : Type} (known : ε → Bool) (hdrs : List ε) (e : ε)
    (h : known e = false ∨ ∃ x ∈ hdrs, known x = false) :
    soapOpenTree known (soapWrapTree hdrs e) = .refused := by
  rw [soapOpen_wrap]
  rcases h with h | ⟨x, hx, hk⟩
  · simp [h]
  · have : hdrs.all known = false := by
      rw [Bool.eq_false_iff]
      intro ha
      have := (List.all_eq_true.mp ha) x hx
      simp [hk] at this
    simp [this]

/-- **Any envelope** (also one made elsewhere: several Header and Body parts, foreign parts): when the
    receiver accepts it, the root was the SOAP Envelope, the header list is ALL children of ALL Header
    parts in document order, the body is the first child of the last Body part (`None` iff there is no
    Body part), and every returned element is of a listed class. -/
theorem C14_soap_open_sound {ε : Type} (known : ε → Bool) (env : Envelope ε) (hs : List ε) (b : Option ε)
    (h : soapOpenTree known env = .ok hs b) :
    env.tagOk = true ∧ hs = headerItems env.parts ∧ lastBodyHead env.parts none = b.map some ∧
      (∀ x ∈ hs, known x = true) ∧ (∀ x, b = some x → known x = true) := by
  unfold soapOpenTree at h
  by_cases ht : env.tagOk = true
  · by_cases hp : env.parts.isEmpty = true
    · simp [ht, hp] at h
    · simp only [ht, hp, Bool.not_true, Bool.false_eq_true, if_false] at h
      obtain ⟨h1, h2, h3, h4⟩ := openParts_ok known env.parts [] none hs b h
      refine ⟨ht, by simpa using h1, by simpa using h2, ?_, ?_⟩
      · intro x hx
        rw [h1] at hx
        exact h3 x (by simpa using hx)
      · intro x hx
        rcases h4 x hx with h5 | h5
        · cases h5
        · exact h5
  · simp [ht] at h

example : soapOpenTree (fun (e : Nat) => e < 100) (soapWrapTree [7, 8] 13) = .ok [7, 8] (some 13) ∧
    soapOpenTree (fun (e : Nat) => e < 100) (soapWrapTree [7, 800] 13) = .refused ∧
    soapOpenTree (fun (e : Nat) => e < 100) (soapWrapTree [] 130) = .refused ∧
    soapOpenTree (fun (e : Nat) => e < 100) { tagOk := true, parts := [.header [1], .body [2, 3], .other, .header [4, 5], .body [6]] } =
      .ok [1, 4, 5] (some 6) ∧
    soapOpenTree (fun (e : Nat) => e < 100) { tagOk := true, parts := [.header [1], .body []] } = .refused ∧
    soapOpenTree (fun (e : Nat) => e < 100) { tagOk := true, parts := [.other] } = .ok [] none ∧
    soapOpenTree (fun (e : Nat) => e < 100) { tagOk := false, parts := [.body [1]] } = .refused := by decide

theorem C14_model_meets_spec_soap_open_foreign {ε : Type} [DecidableEq ε] (known : ε → Bool) (env : Envelope ε) :
    specSoapOpenForeign env (soapOpenTree known env) = true := by
  unfold specSoapOpenForeign
  cases hout : soapOpenTree known env with
  | refused => rfl
  | ok hs b =>
    obtain ⟨h1, h2, h3, _, _⟩ := C14_soap_open_sound known env hs b hout
    simp only [h1, h2, beq_self_eq_true, Bool.true_and]
    have hl := lastBodyHead_bodyParts env.parts none
    split
    · next e he =>
      have := hl.2 [e] he
      rw [h3] at this
      cases b with
      | none => simp at this
      | some x => simp at this; simp [this]
    · next he =>
      have := hl.1 he
      rw [h3] at this
      cases b with
      | none => rfl
      | some x => simp at this
    · rfl

theorem C14_model_meets_spec_soap_open {ε : Type} [DecidableEq ε] (known : ε → Bool) (hdrs : List ε) (e : ε) :
    specSoapOpen known hdrs e (soapWrapTree hdrs e) (soapOpenTree known (soapWrapTree hdrs e)) = true := by
  unfold specSoapOpen
  rw [headerItems_wrap, soapOpen_wrap]
  have hparts : (soapWrapTree hdrs e).parts = (if hdrs.isEmpty then [] else [.header hdrs]) ++ [.body [e]] := rfl
  have ht : (soapWrapTree hdrs e).tagOk = true := rfl
  rw [hparts, ht]
  by_cases hh : hdrs.isEmpty = true <;> by_cases hk : (known e && hdrs.all known) = true
  · simp [hh, hk]
  · have : (known e && hdrs.all known) = false := by simpa using hk
    simp [hh, this]
  · simp [hh, hk]
  · have : (known e && hdrs.all known) = false := by simpa using hk
    simp [hh, this]

/-! ## 4c. The URI binding (`HTTPBase.use_http_uri`) and `Entity.unravel` outside the three codecs -/

/-- **URI binding, request form**, full strength (as for the redirect and artifact URLs): for EVERY
    destination — with or without `#fragment`, with no query, an empty query, a query ending in `?` or
    `&`, or any other existing query — any non-empty message (identifier) and any relay state, the
    receiver's query parameters are the destination's own followed by exactly `ID` = the message and
    RelayState iff one was given: no caller string adds, removes or changes a parameter, and the
    destination's parameters are preserved. -/
theorem C14_uri_request_roundtrip (msg dest rs : Bytes)
    (hmsg : IsBytes msg) (hne : msg ≠ []) (hrs : IsBytes rs) :
    specUrl dest (withRelay (sID, msg) rs) (uriUrl msg dest rs) = true ∧
      parseQsl (queryOf (uriUrl msg dest rs)) = parseQsl (queryOf dest) ++ withRelay (sID, msg) rs := by
  have h := addQuery_spec dest _ _ (urlencode_no_hash _) (withRelay_roundtrip sID msg rs isBytes_ID hmsg hne hrs)
  exact ⟨h, eq_of_beq h⟩

/-- Without a query of its own the destination contributes nothing: exactly `ID` and RelayState. -/
theorem C14_uri_request_plain_dest (msg dest rs : Bytes) (hq : 63 ∉ dest)
    (hmsg : IsBytes msg) (hne : msg ≠ []) (hrs : IsBytes rs) :
    parseQsl (queryOf (uriUrl msg dest rs)) = withRelay (sID, msg) rs := by
  have h2 : parseQsl (queryOf dest) = [] := by rw [queryOf_no_q dest hq]; exact parseQsl_nil
  simpa [h2] using (C14_uri_request_roundtrip msg dest rs hmsg hne hrs).2

/-- The old failing input (fixed in f3123de0: `?` was glued on whatever the destination carried, so
    `/?a=b` + `ID=x` read back as `a = b?ID=x`), evaluated, with the other destination shapes: existing
    query, fragment, empty query, trailing `&`, and hostile message / relay state. -/
example : parseQsl (queryOf (uriUrl [120] [47, 63, 97, 61, 98] [])) = [([97], [98]), (sID, [120])] ∧
    parseQsl (queryOf (uriUrl [120] [47, 63, 97, 61, 98, 35, 102] [114])) = [([97], [98]), (sID, [120]), (sRelayState, [114])] ∧
    parseQsl (queryOf (uriUrl [120] [47, 63] [])) = [(sID, [120])] ∧
    parseQsl (queryOf (uriUrl [120] [47, 63, 97, 61, 98, 38] [])) = [([97], [98]), (sID, [120])] ∧
    parseQsl (queryOf (uriUrl [120, 38, 61] [47] [114, 35])) = [(sID, [120, 38, 61]), (sRelayState, [114, 35])] := by decide

/-- **URI binding, response form**: a message of one line without surrounding white space is the
    body, code point for code point; a message with a line break is cut to its second line. -/
theorem C14_uri_response_intact (msg : List Nat) (hn : 10 ∉ msg)
    (h1 : ∀ c, msg.head? = some c → pyIsSpace c = false) (h2 : ∀ c, msg.getLast? = some c → pyIsSpace c = false) :
    useHttpUri sSAMLResponse msg [] [] [] = some (.response msg) := by
  have hc : msg.contains 10 = false := by simpa using hn
  unfold useHttpUri uriData
  simp only [if_true, hc, Bool.false_eq_true, if_false, pyStrip_id msg h1 h2]

/-- `<?xml …?>` + line break + a one-line body (the layout `to_string()` produces): the body. -/
theorem C14_uri_response_second_line (decl body rest : List Nat) (hd : 10 ∉ decl) (hb : 10 ∉ body) :
    uriData (decl ++ 10 :: body) = body ∧ uriData (decl ++ 10 :: body ++ 10 :: rest) = body := by
  have hdw : ∀ t, (decl ++ 10 :: t).dropWhile (· != 10) = 10 :: t := by
    intro t
    induction decl with
    | nil => simp [List.dropWhile]
    | cons a d ih =>
      have ha : a ≠ 10 := by intro e; subst e; simp at hd
      have hd' : 10 ∉ d := fun hm => hd (by simp [hm])
      simp [List.dropWhile, ha, ih hd']
  have htw : ∀ t, (body ++ 10 :: t).takeWhile (· != 10) = body := by
    intro t
    induction body with
    | nil => simp [List.takeWhile]
    | cons a d ih =>
      have ha : a ≠ 10 := by intro e; subst e; simp at hb
      have hb' : 10 ∉ d := fun hm => hb (by simp [hm])
      simp [List.takeWhile, ha, ih hb']
  constructor
  · have hc : (decl ++ 10 :: body).contains 10 = true := by simp
    simp only [uriData, hc, if_true, hdw, List.drop_succ_cons, List.drop_zero]
    exact takeWhile_all' body (ne_of_not_mem hb)
  · have hc : (decl ++ 10 :: (body ++ 10 :: rest)).contains 10 = true := by simp
    have : decl ++ 10 :: body ++ 10 :: rest = decl ++ 10 :: (body ++ 10 :: rest) := by simp
    rw [this, uriData]
    simp only [hc, if_true, hdw, List.drop_succ_cons, List.drop_zero, htw]

example : uriData [60, 63, 62, 10, 60, 97, 47, 62] = [60, 97, 47, 62] ∧ uriData [32, 60, 97, 47, 62, 160] = [60, 97, 47, 62] ∧
    useHttpUri sSAMLart [] [] [] [] = none := by decide

theorem C14_model_meets_spec_uri (typ : Bytes) (pts : List Nat) (msg dest rs : Bytes)
    (hmsg : IsBytes msg) (hrs : IsBytes rs) :
    match useHttpUri typ pts msg dest rs with
    | some (.request url) => specUriRequest msg dest rs url = true
    | some (.response data) => specUriResponse pts data = true
    | none => typ ≠ sSAMLRequest ∧ typ ≠ sSAMLResponse := by
  unfold useHttpUri
  by_cases h1 : typ = sSAMLResponse
  · simp only [h1, if_true]
    unfold specUriResponse
    by_cases hc : pts.contains 10 = true
    · simp only [hc, Bool.true_or]
    · by_cases ha : pts.head?.any pyIsSpace = true
      · simp only [ha, Bool.true_or, Bool.or_true]
      · by_cases hb : pts.getLast?.any pyIsSpace = true
        · simp only [hb, Bool.true_or, Bool.or_true]
        · have hc' : pts.contains 10 = false := by simpa using hc
          have e : uriData pts = pts := by
            unfold uriData
            simp only [hc', Bool.false_eq_true, if_false]
            apply pyStrip_id
            · intro c hcc; simpa [hcc] using ha
            · intro c hcc; simpa [hcc] using hb
          simp [e]
  · by_cases h2 : typ = sSAMLRequest
    · have h3 : ¬ sSAMLRequest = sSAMLResponse := by decide
      subst h2
      simp only [h3, if_false, if_true]
      unfold specUriRequest
      by_cases hne : msg = []
      · simp [hne]
      · simp [(C14_uri_request_roundtrip msg dest rs hmsg hne hrs).1]
    · simp [h1, h2]

/-- `Entity.unravel` for `BINDING_URI` / `None` hands the text on untouched; for a binding it does not
    know it refuses, whatever the text. -/
theorem C14_unravel_plain_unknown (inflate : Bytes → Option Bytes) (txt : Bytes) :
    unravel inflate .plain txt = some txt ∧ unravel inflate .unknown txt = none := ⟨rfl, rfl⟩

/-! ## 5. Artifacts -/

/-- SHA-1 as a parameter: 20 bytes, injective (collision freedom is an assumption). -/
structure Sha1 where
  digest : Bytes → Bytes
  len : ∀ b, (digest b).length = 20
  isBytes : ∀ b, IsBytes (digest b)
  inj : ∀ a b, digest a = digest b → a = b

/-- **Artifact round trip**: for every endpoint index 0..255, entity id and message handle, what
    `artifact2destination` decodes from `create_artifact`'s output is the index it was created with
    and the SHA-1 of the issuer's entity id. -/
theorem C14_artifact_roundtrip (H : Sha1) (eid handle : Bytes) (idx : Int) (h0 : 0 ≤ idx) (h1 : idx ≤ 255)
    (hh : IsBytes handle) :
    ∃ art, createArtifact H.digest eid handle idx = some art ∧
      decodeArtifact art = some { index := idx, sourceId := H.digest eid } :=
  decode_create H.digest eid handle idx h0 h1 (H.len eid) (H.isBytes eid) hh

/-- An index that does not fit the two-digit field is refused — never encoded as another one. -/
theorem C14_artifact_out_of_range_refused (sha1 : Bytes → Bytes) (eid handle : Bytes) (idx : Int) (h : idx < 0 ∨ 255 < idx) :
    createArtifact sha1 eid handle idx = none := by
  unfold createArtifact
  have : ¬ (0 ≤ idx ∧ idx ≤ 255) := by omega
  simp [this]

/-- **Resolution**: in a store of entities with pairwise different ids, the artifact resolves to
    the entity that issued it, and to that entity's first endpoint carrying the index (`none` =
    no such endpoint registered). -/
theorem C14_artifact_resolves_issuer {α : Type} [DecidableEq α] (H : Sha1) (showInt : Int → α)
    (ents : List (Bytes × List (Option (List (α × α))))) (hnd : (ents.map (·.1)).Nodup)
    (eid handle : Bytes) (eps : List (α × α)) (hmem : (eid, [some eps]) ∈ ents)
    (idx : Int) (h0 : 0 ≤ idx) (h1 : idx ≤ 255) (hh : IsBytes handle) :
    ∃ art, createArtifact H.digest eid handle idx = some art ∧
      artifact2destination showInt (mkStore H.digest ents) art =
        (match eps.find? (fun ep => ep.1 = showInt idx) with
         | some ep => .dest ep.2
         | none => .noEndpoint) := by
  obtain ⟨art, hc, hd⟩ := C14_artifact_roundtrip H eid handle idx h0 h1 hh
  refine ⟨art, hc, ?_⟩
  unfold artifact2destination
  simp only [hd, find_issuer H.digest H.inj ents hnd eid [some eps] hmem, scanDescriptors]
  cases eps.find? (fun ep => ep.1 = showInt idx) <;> rfl

theorem C14_model_meets_spec_artifact (H : Sha1) (eid handle : Bytes) (idx : Int) (hh : IsBytes handle) :
    specArtifact (H.digest eid) idx (createArtifact H.digest eid handle idx) = true := by
  by_cases h : 0 ≤ idx ∧ idx ≤ 255
  · obtain ⟨art, hc, hd⟩ := C14_artifact_roundtrip H eid handle idx h.1 h.2 hh
    simp [specArtifact, hc, hd]
  · have : createArtifact H.digest eid handle idx = none := by
      apply C14_artifact_out_of_range_refused; omega
    simp only [specArtifact, this]
    simp only [Bool.not_eq_true', Bool.and_eq_false_iff, decide_eq_false_iff_not]
    omega

/-- **Histories.**  After any history, resolving an artifact answers from the table loaded LAST:
    a reload followed by a resolution gives exactly what `artifact2destination` gives on the new
    table (nothing of an earlier table survives), and issuing or resolving never changes the table. -/
theorem C14_artifact_history_in_force {α : Type} [DecidableEq α] (showInt : Int → α) (st : ArtState α)
    (store : List (ArtEntity α)) (i : Nat) (art : Bytes) (h : st.seen[i]? = some art) :
    runArt showInt st [.reload store, .resolve i] =
      [.reloaded, .resolved (some (artifact2destination showInt store art))] ∧
    (∀ s, (∀ s', s ≠ ArtStep.reload s') → (stepArt showInt st s).1.store = st.store) := by
  constructor
  · simp [runArt, stepArt, h]
  · intro s hs
    cases s with
    | issue eid sid handle idx =>
      simp only [stepArt]
      split <;> rfl
    | reload s' => exact absurd rfl (hs s')
    | resolve j =>
      simp only [stepArt]
      split <;> rfl

example : runArt (fun i => toString i) { store := [{ sourceId := List.replicate 20 7, descriptors := [some [("1", "old")]] }] }
    [.issue [101] (List.replicate 20 7) [1, 2] 1,
     .reload [{ sourceId := List.replicate 20 7, descriptors := [some [("1", "new")]] }], .resolve 0] =
    [.issued (createArtifact (fun _ => List.replicate 20 7) [101] [1, 2] 1) (some (.dest "old")), .reloaded,
     .resolved (some (.dest "new"))] := by decide

example : decodeArtifact ((createArtifact (fun _ => List.replicate 20 7) [101] [1, 2, 3] 171).getD []) =
    some { index := 171, sourceId := List.replicate 20 7 } := by decide

end C14
