import PysamlModel.Proofs.C14Codec
import PysamlModel.Spec.C14
namespace C14
end C14
