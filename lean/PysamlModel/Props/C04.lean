/-
  C04 — Assertions addressed to someone else are never accepted.
  Every statement is about the full `Sp.process` (any configuration, clock, message content,
  audience structure of any size, any number of assertions / confirmations).
-/
import PysamlModel.Proofs.Sp
import PysamlModel.Proofs.SpFactory

namespace C04
open Sp

/-! ### what one successful `verify()` establishes (shared by both entry points) -/

/-- Every assertion the SP can see was accepted by `_assertion` when `verify()` returns a result. -/
theorem verify_visible_accepted {cfg : Cfg} {env : Env} {rs : Bool} {st : St} {r : Response} {p : Parsed}
    (hv : verify cfg env rs st r = .ok (some p)) :
    ∀ a ∈ visible r, ∃ v s s', checkAssertion cfg env rs v s a = .ok s' := by
  obtain ⟨_, hp⟩ := verify_some_inv hv
  obtain ⟨⟨st1, h1, h2⟩, _⟩ := parseAssertion_inv hp
  intro a ha
  unfold visible at ha
  rcases List.mem_append.mp ha with hd | hpl
  · obtain ⟨s, s', hs⟩ := checkAll_inv h2 a hd
    exact ⟨true, s, s', hs⟩
  · obtain ⟨s, s', hs⟩ := checkAll_inv h1 a hpl
    exact ⟨false, s, s', hs⟩

/-- Every assertion the SP can see was accepted by `_assertion` when identity is produced. -/
theorem visible_accepted {cfg : Cfg} {env : Env} {r : Response} {o : Reported}
    (h : process cfg env r = .identity o) :
    ∃ rs, ∀ a ∈ visible r, ∃ v s s', checkAssertion cfg env rs v s a = .ok s' := by
  obtain ⟨_, cf, _, rs, p, _, _, _, hv, _, _, _, _⟩ := process_identity_inv h
  exact ⟨rs, verify_visible_accepted hv⟩

/-- The same for the factory entry point (`require_signature` is `want_assertions_signed` there). -/
theorem visible_accepted_factory {cfg : Cfg} {env : Env} {r : Response} {o : Reported}
    (h : processFactory cfg env r = .identity o) :
    ∃ rs, ∀ a ∈ visible r, ∃ v s s', checkAssertion cfg env rs v s a = .ok s' := by
  obtain ⟨cf, p, _, hv, _⟩ := processFactory_identity_inv h
  exact ⟨cfg.wantAssert, verify_visible_accepted hv⟩

/-- Audience, from the per-assertion acceptance. -/
theorem audience_of_accepted {cfg : Cfg} {env : Env} {r : Response} {rs : Bool}
    (hacc : ∀ a ∈ visible r, ∃ v s s', checkAssertion cfg env rs v s a = .ok s') :
    ∀ a ∈ visible r, ∀ c, a.conditions = some c → ∀ rs ∈ c.audiences, rs ≠ [] → ∃ x ∈ rs, pyStrip x = cfg.entityId := by
  intro a ha c hc restr hr hne
  obtain ⟨v, s, s', hs⟩ := hacc a ha
  obtain ⟨_, st1, st2, _, e2, _, _⟩ := checkAssertion_inv hs
  have haud := (conditionOk_facts e2).1
  unfold audienceOk at haud
  rw [hc] at haud
  have := List.all_eq_true.mp haud restr hr
  simp only [Bool.or_eq_true, List.isEmpty_iff] at this
  rcases this with h1 | h1
  · exact absurd h1 hne
  · obtain ⟨x, hx, hm⟩ := List.any_eq_true.mp h1
    exact ⟨x, hx, by simpa using hm⟩

/-- Audience: identity is produced only if every (non-empty) AudienceRestriction of every visible
    assertion names the provider's own entityID — for restriction lists of any length. -/
theorem C04_audience {cfg : Cfg} {env : Env} {r : Response} {o : Reported}
    (h : process cfg env r = .identity o) :
    ∀ a ∈ visible r, ∀ c, a.conditions = some c → ∀ rs ∈ c.audiences, rs ≠ [] → ∃ x ∈ rs, pyStrip x = cfg.entityId := by
  obtain ⟨rs, hacc⟩ := visible_accepted h
  exact audience_of_accepted hacc

/-- Audience, for the factory entry point (`authn_response(...)` + `loads()` + `verify()`). -/
theorem C04_audience_factory {cfg : Cfg} {env : Env} {r : Response} {o : Reported}
    (h : processFactory cfg env r = .identity o) :
    ∀ a ∈ visible r, ∀ c, a.conditions = some c → ∀ rs ∈ c.audiences, rs ≠ [] → ∃ x ∈ rs, pyStrip x = cfg.entityId := by
  obtain ⟨rs, hacc⟩ := visible_accepted_factory h
  exact audience_of_accepted hacc

/-- Destination, from one successful `verify()`. -/
theorem verify_destination {cfg : Cfg} {env : Env} {rs : Bool} {st : St} {r : Response} {p : Parsed}
    (hv : verify cfg env rs st r = .ok (some p)) (hasync : env.asynchop = true)
    (d : String) (hd : r.destination = some d) (hne : d ≠ "") : d ∈ cfg.returnAddrs := by
  obtain ⟨henv, _⟩ := verify_some_inv hv
  obtain ⟨_, hdest, _, _⟩ := verifyEnvelope_true_inv henv
  unfold destinationOk at hdest
  have ht : truthy (some d) = true := by simp [truthy, hne]
  simp only [hasync, Bool.not_true, Bool.false_or, hd, Option.getD_some, ht] at hdest
  exact List.contains_iff_mem.mp hdest

/-- Destination: over a browser binding a present Destination must be one of the provider's own
    endpoints for the binding used. -/
theorem C04_destination {cfg : Cfg} {env : Env} {r : Response} {o : Reported}
    (h : process cfg env r = .identity o) (hasync : env.asynchop = true)
    (d : String) (hd : r.destination = some d) (hne : d ≠ "") : d ∈ cfg.returnAddrs := by
  obtain ⟨_, cf, _, rs, p, _, _, _, hv, _, _, _, _⟩ := process_identity_inv h
  exact verify_destination hv hasync d hd hne

/-- Destination, for the factory entry point. -/
theorem C04_destination_factory {cfg : Cfg} {env : Env} {r : Response} {o : Reported}
    (h : processFactory cfg env r = .identity o) (hasync : env.asynchop = true)
    (d : String) (hd : r.destination = some d) (hne : d ≠ "") : d ∈ cfg.returnAddrs := by
  obtain ⟨cf, p, _, hv, _⟩ := processFactory_identity_inv h
  exact verify_destination hv hasync d hd hne

/-- Recipient, from the per-assertion acceptance. -/
theorem recipient_of_accepted {cfg : Cfg} {env : Env} {r : Response} {rs : Bool}
    (hacc : ∀ a ∈ visible r, ∃ v s s', checkAssertion cfg env rs v s a = .ok s') (hconv : env.convInfo = true) :
    ∀ a ∈ visible r, ∀ s, a.subject = some s → ∀ sc ∈ s.confs, bearerUsable sc = true →
      ∃ d rcp, sc.data = some d ∧ d.recipient = some rcp ∧ (env.convEntityId = some rcp ∨ rcp ∈ cfg.returnAddrs) := by
  intro a ha s hs sc hsc hus
  obtain ⟨v, st, st', hchk⟩ := hacc a ha
  obtain ⟨_, st1, st2, _, _, e3, _⟩ := checkAssertion_inv hchk
  obtain ⟨s', hs', hfacts, _⟩ := getSubject_facts e3
  rw [hs] at hs'; cases hs'
  obtain ⟨d, hd, _, _, rcp, hrcp, hok⟩ := hfacts sc hsc hus
  refine ⟨d, rcp, hd, hrcp, ?_⟩
  unfold recipientOk at hok
  simp only [hconv, Bool.not_true, Bool.false_eq_true, if_false, Bool.or_eq_true, beq_iff_eq] at hok
  rcases hok with h1 | h1
  · exact Or.inl h1
  · exact Or.inr (List.contains_iff_mem.mp h1)

/-- Recipient: with conversation info, every bearer confirmation that is used names the provider
    (the entityID the caller gave) or one of its consumer URLs. -/
theorem C04_recipient {cfg : Cfg} {env : Env} {r : Response} {o : Reported}
    (h : process cfg env r = .identity o) (hconv : env.convInfo = true) :
    ∀ a ∈ visible r, ∀ s, a.subject = some s → ∀ sc ∈ s.confs, bearerUsable sc = true →
      ∃ d rcp, sc.data = some d ∧ d.recipient = some rcp ∧ (env.convEntityId = some rcp ∨ rcp ∈ cfg.returnAddrs) := by
  obtain ⟨rs, hacc⟩ := visible_accepted h
  exact recipient_of_accepted hacc hconv

/-- Recipient, for the factory entry point. -/
theorem C04_recipient_factory {cfg : Cfg} {env : Env} {r : Response} {o : Reported}
    (h : processFactory cfg env r = .identity o) (hconv : env.convInfo = true) :
    ∀ a ∈ visible r, ∀ s, a.subject = some s → ∀ sc ∈ s.confs, bearerUsable sc = true →
      ∃ d rcp, sc.data = some d ∧ d.recipient = some rcp ∧ (env.convEntityId = some rcp ∨ rcp ∈ cfg.returnAddrs) := by
  obtain ⟨rs, hacc⟩ := visible_accepted_factory h
  exact recipient_of_accepted hacc hconv

/-! ### the third entry point, `response_factory(...)` + `verify()` (Model/SpFactory.lean `processRespFactory`) -/

theorem visible_accepted_respfactory {cfg : Cfg} {env : Env} {r : Response} {o : Reported}
    (h : processRespFactory cfg env r = .identity o) :
    ∃ rs, ∀ a ∈ visible r, ∃ v s s', checkAssertion cfg env rs v s a = .ok s' := by
  obtain ⟨cf, p, _, hv, _⟩ := processRespFactory_identity_inv h
  exact ⟨cfg.wantAssert, verify_visible_accepted hv⟩

/-- Audience, for `response_factory`. -/
theorem C04_audience_respfactory {cfg : Cfg} {env : Env} {r : Response} {o : Reported}
    (h : processRespFactory cfg env r = .identity o) :
    ∀ a ∈ visible r, ∀ c, a.conditions = some c → ∀ rs ∈ c.audiences, rs ≠ [] → ∃ x ∈ rs, pyStrip x = cfg.entityId := by
  obtain ⟨rs, hacc⟩ := visible_accepted_respfactory h
  exact audience_of_accepted hacc

/-- Destination, for `response_factory`. -/
theorem C04_destination_respfactory {cfg : Cfg} {env : Env} {r : Response} {o : Reported}
    (h : processRespFactory cfg env r = .identity o) (hasync : env.asynchop = true)
    (d : String) (hd : r.destination = some d) (hne : d ≠ "") : d ∈ cfg.returnAddrs := by
  obtain ⟨cf, p, _, hv, _⟩ := processRespFactory_identity_inv h
  exact verify_destination hv hasync d hd hne

/-- Recipient, for `response_factory`. -/
theorem C04_recipient_respfactory {cfg : Cfg} {env : Env} {r : Response} {o : Reported}
    (h : processRespFactory cfg env r = .identity o) (hconv : env.convInfo = true) :
    ∀ a ∈ visible r, ∀ s, a.subject = some s → ∀ sc ∈ s.confs, bearerUsable sc = true →
      ∃ d rcp, sc.data = some d ∧ d.recipient = some rcp ∧ (env.convEntityId = some rcp ∨ rcp ∈ cfg.returnAddrs) := by
  obtain ⟨rs, hacc⟩ := visible_accepted_respfactory h
  exact recipient_of_accepted hacc hconv

/-! ### extension conditions (`condition_ok`, the `<saml:Condition xsi:type=…>` loop)

An assertion is honoured only if every extension condition it carries is one the receiver was told about: its
`xsi:type` is present and is a key of the `extension_schema` handed to the `AuthnResponse`.  `Saml2Client` and
`authn_response()` hand none (`Sp.noExt`), so through them ANY extension condition refuses the assertion. -/

theorem extension_of_accepted {cfg : Cfg} {env : Env} {r : Response} {rs : Bool}
    (hacc : ∀ a ∈ visible r, ∃ v s s', checkAssertion cfg env rs v s a = .ok s') :
    ∀ a ∈ visible r, ∀ c, a.conditions = some c → ∀ t ∈ c.extra, ∃ x, t = some x ∧ x ∈ cfg.extSchemas := by
  intro a ha c hc t ht
  obtain ⟨v, s, s', hs⟩ := hacc a ha
  obtain ⟨_, st1, st2, _, e2, _, _⟩ := checkAssertion_inv hs
  have hk := conditionOk_extra e2 c hc t ht
  cases t with
  | none => simp [extKnown] at hk
  | some x => exact ⟨x, rfl, List.contains_iff_mem.mp (by simpa [extKnown] using hk)⟩

/-- Identity ⇒ every extension condition of every visible assertion is typed with a schema the receiver was given
    (any number of conditions, any entry point's schema set). -/
theorem C04_extension_conditions {cfg : Cfg} {env : Env} {r : Response} {o : Reported}
    (h : process cfg env r = .identity o) :
    ∀ a ∈ visible r, ∀ c, a.conditions = some c → ∀ t ∈ c.extra, ∃ x, t = some x ∧ x ∈ cfg.extSchemas := by
  obtain ⟨rs, hacc⟩ := visible_accepted h
  exact extension_of_accepted hacc

theorem C04_extension_conditions_respfactory {cfg : Cfg} {env : Env} {r : Response} {o : Reported}
    (h : processRespFactory cfg env r = .identity o) :
    ∀ a ∈ visible r, ∀ c, a.conditions = some c → ∀ t ∈ c.extra, ∃ x, t = some x ∧ x ∈ cfg.extSchemas := by
  obtain ⟨rs, hacc⟩ := visible_accepted_respfactory h
  exact extension_of_accepted hacc

/-- Through `Saml2Client.parse_authn_request_response` and through `authn_response()` (no schema set handed on) an
    assertion that carries any extension condition never yields identity. -/
theorem C04_no_extension_conditions_client {cfg : Cfg} {env : Env} {r : Response} {o : Reported}
    (h : process (noExt cfg) env r = .identity o ∨ processFactory (noExt cfg) env r = .identity o) :
    ∀ a ∈ visible r, ∀ c, a.conditions = some c → c.extra = [] := by
  intro a ha c hc
  have hall : ∀ t ∈ c.extra, ∃ x, t = some x ∧ x ∈ (noExt cfg).extSchemas := by
    rcases h with h | h
    · exact C04_extension_conditions h a ha c hc
    · obtain ⟨rs, hacc⟩ := visible_accepted_factory h
      exact extension_of_accepted hacc a ha c hc
  cases hx : c.extra with
  | nil => rfl
  | cons t rest =>
    obtain ⟨x, _, hmem⟩ := hall t (by rw [hx]; exact List.mem_cons_self)
    simp [noExt] at hmem

/-- Matching is equality after `str.strip`: an Audience that differs from the entityID after
    stripping never satisfies a restriction (no prefix / suffix / case leniency). -/
theorem C04_exact (me : String) (r : List String) (h : ∀ x ∈ r, pyStrip x ≠ me) :
    restrictionMatches me r = false := by
  unfold restrictionMatches
  apply List.any_eq_false.mpr
  intro x hx
  have := h x hx
  simp [this]

/-- The model's outcome always satisfies the decidable specification the driver evaluates on the
    implementation's outcome. -/
theorem C04_model_meets_spec (cfg : Cfg) (env : Env) (r : Response) :
    specC04 cfg env r (process cfg env r) = true := by
  unfold specC04
  cases hres : process cfg env r with
  | noIdentity => simp [Outcome.isIdentity]
  | rejected e => simp [Outcome.isIdentity]
  | identity o =>
    simp only [Outcome.isIdentity, Bool.not_true, Bool.false_or, Bool.and_eq_true]
    obtain ⟨_, cf, _, rs, p, _, _, _, hv, _, _, _, _⟩ := process_identity_inv hres
    obtain ⟨henv, _⟩ := verify_some_inv hv
    obtain ⟨_, hdest, _, _⟩ := verifyEnvelope_true_inv henv
    refine ⟨hdest, ?_⟩
    apply List.all_eq_true.mpr
    intro a ha
    obtain ⟨rs', hacc⟩ := visible_accepted hres
    obtain ⟨v, st, st', hchk⟩ := hacc a ha
    obtain ⟨_, st1, st2, _, e2, e3, _⟩ := checkAssertion_inv hchk
    simp only [Bool.and_eq_true]
    refine ⟨(conditionOk_facts e2).1, ?_⟩
    unfold recipientsOk
    cases hc : env.convInfo with
    | false => simp
    | true =>
      simp only [Bool.not_true, Bool.false_or]
      obtain ⟨s, hs, hfacts, _⟩ := getSubject_facts e3
      rw [hs]
      apply List.all_eq_true.mpr
      intro sc hsc
      cases hus : bearerUsable sc with
      | false => simp
      | true =>
        obtain ⟨d, hd, _, _, rcp, hrcp, hok⟩ := hfacts sc hsc hus
        simp only [Bool.not_true, Bool.false_or, hd, hrcp]
        unfold recipientOk at hok
        simpa [hc] using hok

/-! Non-vacuity: a concrete accepted Response (so the hypotheses above are satisfiable), and the
    former defect F1 (restrictions [[me],[other]]) is rejected by the model of the repaired code. -/

private def okAssertion : Assertion :=
  { conditions := some { nooa := some 200, audiences := [["me"], ["x", "me"]] },
    authn := [{ sessionIndex := some "s" }],
    subject := some { nameId := some "n", confs := [{ method := .bearer, data := some { nooa := some 200, recipient := some "u", irt := some "r1" } }] } }
private def okResp : Response :=
  { sig := .valid, issueInstant := 100, destination := some "u", inResponseTo := some "r1", assertions := [okAssertion] }
private def okCfg : Cfg := { entityId := "me", returnAddrs := ["u"] }
private def okEnv : Env := { now := 100, outstanding := [("r1", "/x")], convInfo := true, convEntityId := some "me" }

example : (process okCfg okEnv okResp).isIdentity = true := by decide
example : process okCfg okEnv { okResp with assertions := [{ okAssertion with
    conditions := some { nooa := some 200, audiences := [["me"], ["other"]] } }] } = .rejected .audience := by decide
example : process okCfg okEnv { okResp with destination := some "https://evil" } = .noIdentity := by decide

/-! Non-vacuity for the factory entry point: the same Response is accepted (so the hypotheses of the `*_factory`
    theorems are satisfiable), also without a Response signature, which the factory cannot demand; the foreign
    audience and the foreign Destination are refused there too. -/
example : (processFactory okCfg okEnv okResp).isIdentity = true := by decide
example : (processFactory okCfg okEnv { okResp with sig := .absent }).isIdentity = true := by decide
example : processFactory okCfg okEnv { okResp with assertions := [{ okAssertion with
    conditions := some { nooa := some 200, audiences := [["me"], ["other"]] } }] } = .rejected .audience := by decide
example : processFactory okCfg okEnv { okResp with destination := some "https://evil" } = .noIdentity := by decide

/-! Non-vacuity for extension conditions and `response_factory`: an understood condition is accepted through
    `response_factory` (also next to a foreign audience test that still refuses), the same message is refused by the
    client and by `authn_response()`, and an unknown / untyped condition is refused everywhere. -/
private def extAssertion (extra : List (Option String)) (auds : List (List String)) : Assertion :=
  { okAssertion with conditions := some { nooa := some 200, audiences := auds, extra := extra } }
private def extCfg : Cfg := { okCfg with extSchemas := ["urn:ext"] }

example : (processRespFactory extCfg okEnv { okResp with sig := .absent, assertions := [extAssertion [some "urn:ext", some "urn:ext"] [["me"]]] }).isIdentity = true := by decide
example : processRespFactory extCfg okEnv { okResp with assertions := [extAssertion [some "urn:ext"] [["other"]]] } = .rejected .audience := by decide
example : processRespFactory extCfg okEnv { okResp with assertions := [extAssertion [some "urn:ext", some "urn:extx"] [["me"]]] } = .rejected .unknownCondition := by decide
example : processRespFactory extCfg okEnv { okResp with assertions := [extAssertion [none] [["me"]]] } = .rejected .unknownCondition := by decide
example : process (noExt extCfg) okEnv { okResp with assertions := [extAssertion [some "urn:ext"] [["me"]]] } = .rejected .unknownCondition := by decide
example : processFactory (noExt extCfg) okEnv { okResp with assertions := [extAssertion [some "urn:ext"] [["me"]]] } = .rejected .unknownCondition := by decide
example : processRespFactory okCfg okEnv { okResp with destination := some "https://evil" } = .noIdentity := by decide

end C04
