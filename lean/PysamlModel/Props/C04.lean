import PysamlModel.Model.Sp
import PysamlModel.Spec.Sp
namespace C04
end C04
