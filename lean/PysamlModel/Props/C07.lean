/-
  C07 — Receivers enforce request signatures and addressing.
  Property theorems only (plus non-vacuity examples).  Every statement quantifies over all
  configurations (endpoint lists of any shape and length, any skew), all metadata certificate
  lists, all messages (any strings, any signature terms) and all clock values.
-/
import PysamlModel.Model.Request
import PysamlModel.Spec.C07
import PysamlModel.Gen.RequestTable

namespace C07
open Request

variable {α κ : Type} [DecidableEq α] [DecidableEq κ]

/-! ### What `processed` implies, stage by stage -/

/-- `checkSignature` / `signatureCheck` never answer "stop here with verdict ok". -/
theorem checkSignature_ne_ok (validate certOnly : Bool) (md : List (Cert κ)) (k : κ) (i p : Bool) :
    checkSignature validate certOnly md k i p ≠ some .ok := by
  unfold checkSignature
  repeat' split
  all_goals simp

theorem signatureCheck_ne_ok (row : KindRow) (validate : Bool) (md : List (Cert κ)) (sp co : Bool) (e : Enveloped κ)
    (p : Bool) : signatureCheck row validate md sp co e p ≠ some .ok := by
  unfold signatureCheck
  split
  · simp
  · split
    · split <;> simp
    · exact checkSignature_ne_ok _ _ _ _ _ _

/-- What `signatureCheck = none` (message object returned) means. -/
theorem signatureCheck_none (row : KindRow) (validate : Bool) (md : List (Cert κ)) (sp co : Bool) (e : Enveloped κ)
    (p : Bool) (h : signatureCheck row validate md sp co e p = none) :
    row.parsesOwnType = true ∧
    (e = .absent → (sp && row.forwardsMust) = false) ∧
    (∀ k i, e = .signed k i → checkSignature validate (co && row.forwardsCertOnly) md k i p = none) := by
  unfold signatureCheck at h
  split at h
  · cases h
  next hp =>
    refine ⟨by simpa using hp, ?_, ?_⟩
    · intro he; subst he
      simp only at h
      split at h
      · cases h
      next hn => simpa using hn
    · intro k i he; subst he
      simpa using h

/-- Everything `parseRequest = ok` went through, in one statement. -/
theorem ok_inv (algOk : α → Bool) (v20 : α) (truthy : α → Bool) (row : KindRow) (cfg : Cfg α)
    (md : List (Cert κ)) (now : Int) (m : Msg α κ)
    (h : parseRequest algOk v20 truthy row cfg md now m = .ok) :
    ¬ (m.binding = .soap ∧ row.soapParser = false) ∧
    signatureCheck row cfg.validateCert md
      ((cfg.wantSigned || cfg.certOnly) && !((cfg.wantSigned || cfg.certOnly) && decide (m.binding = .redirect)))
      cfg.certOnly m.enveloped m.profileOk = none ∧
    (((cfg.wantSigned || cfg.certOnly) && decide (m.binding = .redirect)) = true →
        detachedPresent m = true ∧ detachedOk algOk md m = true) ∧
    m.version = v20 ∧
    destRefused truthy (receiverAddrs cfg m.binding) m.destination = false ∧
    ∃ ts, m.issueInstant = some ts ∧ now - 86400 - (cfg.slack : Int) ≤ ts ∧ ts < now + 86400 + (cfg.slack : Int) := by
  unfold parseRequest at h
  split at h
  · cases h
  next hsoap =>
    simp only at h
    split at h
    next v hv => subst h; exact absurd hv (signatureCheck_ne_ok _ _ _ _ _ _ _)
    next hsc =>
      split at h
      · cases h
      next hdp =>
        split at h
        · cases h
        next hdo =>
          split at h
          · cases h
          next ts hts =>
            split at h
            · cases h
            split at h
            · cases h
            next hver =>
              split at h
              · cases h
              next hdest =>
                split at h
                · cases h
                next hold =>
                  split at h
                  · cases h
                  next hnew =>
                    refine ⟨hsoap, hsc, ?_, ?_, ?_, ts, hts, ?_, ?_⟩
                    · intro hsr
                      rw [hsr] at hdp hdo
                      exact ⟨by simpa using hdp, by simpa using hdo⟩
                    · simpa using hver
                    · simpa using hdest
                    · omega
                    · omega

/-! ### Signature requirement -/

/-- Facts about `checkSignature` succeeding. -/
theorem checkSignature_none (validate certOnly : Bool) (md : List (Cert κ)) (k : κ) (i p : Bool)
    (h : checkSignature validate certOnly md k i p = none) :
    p = true ∧
    ((i = true ∧ ∃ c ∈ md, c.key = k ∧ verifyCert validate c = true) ∨
     (certOnly = true ∧ ∃ c, md.getLast? = some c ∧ verifyCert validate c = true)) := by
  unfold checkSignature at h
  split at h
  · cases h
  split at h
  · cases h
  next hp =>
  refine ⟨by simpa using hp, ?_⟩
  · split at h
    next c hc =>
      left
      have hm := List.mem_of_find?_eq_some hc
      have hp := List.find?_some hc
      simp only [Bool.and_eq_true, decide_eq_true_eq] at hp
      split at h
      next hv => exact ⟨hp.1, c, hm, hp.2, hv⟩
      · cases h
    next =>
      split at h
      next hco =>
        right
        split at h
        next c hl =>
          split at h
          next hv => exact ⟨hco, c, hl, hv⟩
          · cases h
        · cases h
      · cases h

/-- **Signature requirement, POST and SOAP.**  An entity that requires signed requests
    (`want_authn_requests_signed`, certificate-only validation not opted into) processes a request
    that arrives by POST or SOAP only if it carries an intact enveloped signature made with a key
    the metadata binds to the issuer. -/
theorem C07_signature_enveloped (algOk : α → Bool) (v20 : α) (truthy : α → Bool) (row : KindRow) (cfg : Cfg α)
    (md : List (Cert κ)) (now : Int) (m : Msg α κ)
    (hrow : row.forwardsMust = true) (hwant : cfg.wantSigned = true) (hco : cfg.certOnly = false)
    (hb : m.binding ≠ .redirect)
    (h : parseRequest algOk v20 truthy row cfg md now m = .ok) :
    ∃ k, m.enveloped = .signed k true ∧ m.profileOk = true ∧ ∃ c ∈ md, c.key = k := by
  obtain ⟨_, hsc, _⟩ := ok_inv algOk v20 truthy row cfg md now m h
  have hnr : decide (m.binding = .redirect) = false := by simpa using hb
  simp only [hwant, hco, hnr, Bool.or_false, Bool.and_false, Bool.not_false, Bool.and_true] at hsc
  obtain ⟨_, habs, hsig⟩ := signatureCheck_none _ _ _ _ _ _ _ hsc
  cases henv : m.enveloped with
  | absent => have := habs henv; simp [hrow] at this
  | signed k i =>
    have hcs := hsig k i henv
    simp only [Bool.false_and] at hcs
    rcases checkSignature_none _ _ md k i _ hcs with ⟨hp, ⟨hi, c, hc, hk, _⟩ | ⟨hf, _⟩⟩
    · exact ⟨k, by rw [hi], hp, c, hc, hk⟩
    · cases hf

/-- **Signature requirement, Redirect.**  An entity that requires signed requests (either option)
    processes a request that arrives by Redirect only if SigAlg and Signature are present and the
    signature was made with a metadata key of the issuer over exactly the SAMLRequest, RelayState
    and SigAlg that arrived. -/
theorem C07_signature_detached (algOk : α → Bool) (v20 : α) (truthy : α → Bool) (row : KindRow) (cfg : Cfg α)
    (md : List (Cert κ)) (now : Int) (m : Msg α κ)
    (hreq : requiresSigned cfg = true) (hb : m.binding = .redirect)
    (h : parseRequest algOk v20 truthy row cfg md now m = .ok) :
    ∃ alg k, m.sigAlg = some alg ∧ m.signature = some (.signed k m.samlRequest m.relayState alg) ∧
      algOk alg = true ∧ ∃ c ∈ md, c.key = k := by
  obtain ⟨_, _, hdet, _⟩ := ok_inv algOk v20 truthy row cfg md now m h
  have hsr : ((cfg.wantSigned || cfg.certOnly) && decide (m.binding = .redirect)) = true := by
    unfold requiresSigned at hreq
    simp [hreq, hb]
  obtain ⟨_, hok⟩ := hdet hsr
  unfold detachedOk at hok
  split at hok
  next alg sig halg hsig =>
    obtain ⟨c, hc, hv⟩ := List.any_eq_true.mp hok
    unfold verifyRedirect at hv
    cases sig with
    | garbage => simp at hv
    | signed k msg relay a =>
      simp only [Bool.and_eq_true, decide_eq_true_eq] at hv
      obtain ⟨ha, ⟨⟨hk, hm⟩, hr⟩, haa⟩ := hv
      subst hm hr haa
      exact ⟨a, k, halg, hsig, ha, c, hc, hk.symm⟩
  · cases hok

/-- **Certificate-only validation (the explicit opt-in).**  POST/SOAP requests are still processed
    only with an enveloped signature present, and some metadata certificate of the issuer passed the
    configured certificate validation; the signature's validity is *not* promised in this mode. -/
theorem C07_signature_cert_only (algOk : α → Bool) (v20 : α) (truthy : α → Bool) (row : KindRow) (cfg : Cfg α)
    (md : List (Cert κ)) (now : Int) (m : Msg α κ)
    (hrow : row.forwardsMust = true) (hco : cfg.certOnly = true) (hb : m.binding ≠ .redirect)
    (h : parseRequest algOk v20 truthy row cfg md now m = .ok) :
    envelopedPresent m.enveloped = true ∧ m.profileOk = true ∧ ∃ c ∈ md, verifyCert cfg.validateCert c = true := by
  obtain ⟨_, hsc, _⟩ := ok_inv algOk v20 truthy row cfg md now m h
  have hnr : decide (m.binding = .redirect) = false := by simpa using hb
  simp only [hco, hnr, Bool.or_true, Bool.and_false, Bool.not_false, Bool.and_true] at hsc
  obtain ⟨_, habs, hsig⟩ := signatureCheck_none _ _ _ _ _ _ _ hsc
  cases henv : m.enveloped with
  | absent => have := habs henv; simp [hrow] at this
  | signed k i =>
    refine ⟨rfl, ?_⟩
    rcases checkSignature_none _ _ md k i _ (hsig k i henv) with ⟨hp, ⟨_, c, hc, _, hv⟩ | ⟨_, c, hl, hv⟩⟩
    · exact ⟨hp, c, hc, hv⟩
    · exact ⟨hp, c, List.mem_of_getLast? hl, hv⟩

/-- **Signature requirement (headline form, in the specification's own predicates).**  An entity
    that requires signed requests processes a request only if — Redirect: the detached signature is
    valid over (SAMLRequest, RelayState, SigAlg) under a metadata key of the issuer; POST/SOAP: the
    enveloped signature is valid under a metadata key of the issuer, or, where certificate-only
    validation was explicitly opted into, at least present. -/
theorem C07_signature (algOk : α → Bool) (v20 : α) (truthy : α → Bool) (row : KindRow) (cfg : Cfg α)
    (md : List (Cert κ)) (now : Int) (m : Msg α κ)
    (hrow : row.forwardsMust = true) (hreq : requiresSigned cfg = true) (hcoh : coherent m = true)
    (h : parseRequest algOk v20 truthy row cfg md now m = .ok) :
    (m.binding = .redirect → detachedValid md m = true) ∧
    (m.binding ≠ .redirect → cfg.certOnly = false → envelopedValid md m = true) ∧
    (m.binding ≠ .redirect → cfg.certOnly = true → envelopedPresent m.enveloped = true) := by
  refine ⟨?_, ?_, ?_⟩
  · intro hb
    obtain ⟨alg, k, ha, hs, _, c, hc, hk⟩ := C07_signature_detached algOk v20 truthy row cfg md now m hreq hb h
    unfold detachedValid
    rw [ha, hs]
    simp only [decide_true, Bool.and_true]
    exact List.any_eq_true.mpr ⟨c, hc, by simpa using hk⟩
  · intro hb hco
    have hw : cfg.wantSigned = true := by
      unfold requiresSigned at hreq; simpa [hco] using hreq
    obtain ⟨k, hk, hp, c, hc, hck⟩ := C07_signature_enveloped algOk v20 truthy row cfg md now m hrow hw hco hb h
    unfold coherent at hcoh
    rw [hk] at hcoh
    simp only [hp, Bool.and_self, Bool.not_true, Bool.false_or] at hcoh
    unfold envelopedValid
    rw [hk]
    simp only [hcoh, Bool.true_and]
    exact List.any_eq_true.mpr ⟨c, hc, by simpa using hck⟩
  · intro hb hco
    exact (C07_signature_cert_only algOk v20 truthy row cfg md now m hrow hco hb h).1

/-- **A bad enveloped signature is rejected even where signing is optional.**  Whatever the
    requirement, the binding and the rest of the message: an enveloped signature that is not intact,
    or was made with a key the metadata does not bind to the issuer, is never processed — unless
    certificate-only validation was opted into. -/
theorem C07_bad_enveloped_rejected (algOk : α → Bool) (v20 : α) (truthy : α → Bool) (row : KindRow) (cfg : Cfg α)
    (md : List (Cert κ)) (now : Int) (m : Msg α κ) (k : κ) (i : Bool)
    (hco : cfg.certOnly = false) (henv : m.enveloped = .signed k i)
    (hbad : i = false ∨ m.profileOk = false ∨ ∀ c ∈ md, c.key ≠ k) :
    parseRequest algOk v20 truthy row cfg md now m ≠ .ok := by
  intro h
  obtain ⟨_, hsc, _⟩ := ok_inv algOk v20 truthy row cfg md now m h
  obtain ⟨_, _, hsig⟩ := signatureCheck_none _ _ _ _ _ _ _ hsc
  have hcs := hsig k i henv
  simp only [hco, Bool.false_and] at hcs
  rcases checkSignature_none _ _ md k i _ hcs with ⟨hp, ⟨hi, c, hc, hk, _⟩ | ⟨hf, _⟩⟩
  · rcases hbad with hb | hb | hb
    · rw [hb] at hi; cases hi
    · rw [hb] at hp; cases hp
    · exact hb c hc hk
  · cases hf

/-- **The signature profile is required in every mode.**  A request that carries an enveloped
    signature is processed only if the signature meets all structural validators (`profileOk`):
    also under certificate-only validation, for every requirement, binding and dispatch row. -/
theorem C07_profile_required (algOk : α → Bool) (v20 : α) (truthy : α → Bool) (row : KindRow) (cfg : Cfg α)
    (md : List (Cert κ)) (now : Int) (m : Msg α κ)
    (hpres : envelopedPresent m.enveloped = true)
    (h : parseRequest algOk v20 truthy row cfg md now m = .ok) : m.profileOk = true := by
  obtain ⟨_, hsc, _⟩ := ok_inv algOk v20 truthy row cfg md now m h
  obtain ⟨_, _, hsig⟩ := signatureCheck_none _ _ _ _ _ _ _ hsc
  cases henv : m.enveloped with
  | absent => rw [henv] at hpres; cases hpres
  | signed k i => exact (checkSignature_none _ _ md k i _ (hsig k i henv)).1

/-- **Processed ⇒ the signature verifies over the request element that is processed.**  Under the
    coherence hypothesis (a profile-conformant signature that xmlsec verifies covers its enclosing
    element — XML-signature semantics, C02's subject, not proved here): outside certificate-only
    mode a processed request that carries an enveloped signature is covered by it, and the key is a
    metadata key of the issuer. -/
theorem C07_signature_covers (algOk : α → Bool) (v20 : α) (truthy : α → Bool) (row : KindRow) (cfg : Cfg α)
    (md : List (Cert κ)) (now : Int) (m : Msg α κ) (k : κ) (i : Bool)
    (hcoh : coherent m = true) (hco : cfg.certOnly = false) (henv : m.enveloped = .signed k i)
    (h : parseRequest algOk v20 truthy row cfg md now m = .ok) :
    m.covers = true ∧ i = true ∧ m.profileOk = true ∧ ∃ c ∈ md, c.key = k := by
  obtain ⟨_, hsc, _⟩ := ok_inv algOk v20 truthy row cfg md now m h
  obtain ⟨_, _, hsig⟩ := signatureCheck_none _ _ _ _ _ _ _ hsc
  have hcs := hsig k i henv
  simp only [hco, Bool.false_and] at hcs
  rcases checkSignature_none _ _ md k i _ hcs with ⟨hp, ⟨hi, c, hc, hk, _⟩ | ⟨hf, _⟩⟩
  · unfold coherent at hcoh
    rw [henv] at hcoh
    simp only [hp, hi, Bool.and_self, Bool.not_true, Bool.false_or] at hcoh
    exact ⟨hcoh, hi, hp, c, hc, hk⟩
  · cases hf

/-! ### Addressing, version, time -/

omit [DecidableEq α] in
theorem mem_firstNonEmpty {ls : List (List α)} {x : α} (h : x ∈ firstNonEmpty ls) : ∃ l ∈ ls, x ∈ l := by
  induction ls with
  | nil => cases h
  | cons l rest ih =>
    unfold firstNonEmpty at h
    split at h
    · obtain ⟨l', hl', hx⟩ := ih h
      exact ⟨l', List.mem_cons_of_mem _ hl', hx⟩
    · exact ⟨l, List.mem_cons_self, h⟩

omit [DecidableEq α] in
theorem firstNonEmpty_eq_nil {ls : List (List α)} (h : firstNonEmpty ls = []) : ∀ l ∈ ls, l = [] := by
  induction ls with
  | nil => intro l hl; cases hl
  | cons l rest ih =>
    unfold firstNonEmpty at h
    split at h
    next hemp =>
      intro l' hl'
      rcases List.mem_cons.mp hl' with rfl | hl'
      · simpa using hemp
      · exact ih h l' hl'
    next hne => subst h; simp at hne

omit [DecidableEq α] in
theorem mem_endpointFor {eps : List (Ep α)} {b : Binding} {x : α} (h : x ∈ endpointFor eps b) :
    ∃ e ∈ eps, e.url = x ∧ (e.binding = .bare ∨ e.binding = .known b) := by
  unfold endpointFor at h
  simp only at h
  split at h
  · obtain ⟨e, he, hx⟩ := List.mem_map.mp h
    obtain ⟨hin, hb⟩ := List.mem_filter.mp he
    exact ⟨e, hin, hx, Or.inl (by simpa using hb)⟩
  · obtain ⟨e, he, hx⟩ := List.mem_map.mp h
    obtain ⟨hin, hb⟩ := List.mem_filter.mp he
    exact ⟨e, hin, hx, Or.inr (by simpa using hb)⟩

omit [DecidableEq α] in
theorem endpointFor_eq_nil {eps : List (Ep α)} {b : Binding} (h : endpointFor eps b = []) :
    ∀ e ∈ eps, e.binding ≠ .bare ∧ e.binding ≠ .known b := by
  unfold endpointFor at h
  simp only at h
  intro e he
  split at h
  next hspec =>
    constructor
    · intro hb
      have : e.url ∈ (eps.filter (fun e => decide (e.binding = .bare))).map (·.url) :=
        List.mem_map.mpr ⟨e, List.mem_filter.mpr ⟨he, by simpa using hb⟩, rfl⟩
      rw [h] at this; cases this
    · intro hb
      have : e.url ∈ (eps.filter (fun e => decide (e.binding = .known b))).map (·.url) :=
        List.mem_map.mpr ⟨e, List.mem_filter.mpr ⟨he, by simpa using hb⟩, rfl⟩
      rw [List.isEmpty_iff.mp hspec] at this; cases this
  next hspec => rw [h] at hspec; simp at hspec

omit [DecidableEq α] in
/-- Receiver addresses are URLs the receiver configured for this binding (or for none). -/
theorem receiverAddrs_sub_allowed (cfg : Cfg α) (b : Binding) (x : α) (h : x ∈ receiverAddrs cfg b) :
    x ∈ allowedAddrs cfg b := by
  unfold allowedAddrs
  simp only [List.mem_map, List.mem_filter, List.mem_flatten, Bool.or_eq_true, decide_eq_true_eq]
  unfold receiverAddrs at h
  simp only at h
  split at h
  next hc =>
    simp only [Bool.and_eq_true] at hc
    obtain ⟨l, hl, hx⟩ := mem_firstNonEmpty h
    obtain ⟨ctx, hctx, rfl⟩ := List.mem_map.mp hl
    obtain ⟨e, he, hu, hb⟩ := mem_endpointFor hx
    exact ⟨e, ⟨⟨ctx, by simp [hc.2, hctx], he⟩, hb⟩, hu⟩
  next =>
    obtain ⟨e, he, hu, hb⟩ := mem_endpointFor h
    exact ⟨e, ⟨⟨cfg.own, by simp, he⟩, hb⟩, hu⟩

omit [DecidableEq α] in
/-- If the receiver configured anything for this binding, the receiver-address list is not empty. -/
theorem allowed_nil_of_receiverAddrs_nil (cfg : Cfg α) (b : Binding) (h : receiverAddrs cfg b = []) :
    allowedAddrs cfg b = [] := by
  unfold allowedAddrs
  simp only [List.map_eq_nil_iff, List.filter_eq_nil_iff, List.mem_flatten, Bool.or_eq_true, decide_eq_true_eq]
  unfold receiverAddrs at h
  simp only at h
  rintro e ⟨ctx, hctx, he⟩
  split at h
  next hc =>
    simp only [Bool.and_eq_true] at hc
    rcases List.mem_cons.mp hctx with rfl | hctx
    · have := endpointFor_eq_nil (List.isEmpty_iff.mp hc.1) e he
      intro hb; rcases hb with hb | hb
      · exact this.1 hb
      · exact this.2 hb
    · simp only [hc.2, if_true] at hctx
      have hnil := firstNonEmpty_eq_nil h (endpointFor ctx b) (List.mem_map.mpr ⟨ctx, hctx, rfl⟩)
      have := endpointFor_eq_nil hnil e he
      intro hb; rcases hb with hb | hb
      · exact this.1 hb
      · exact this.2 hb
  next hc =>
    rcases List.mem_cons.mp hctx with rfl | hctx
    · have := endpointFor_eq_nil h e he
      intro hb; rcases hb with hb | hb
      · exact this.1 hb
      · exact this.2 hb
    · -- not an identity provider or own list non-empty: own list is `h`-empty, so not idp
      have hown : (endpointFor cfg.own b).isEmpty = true := by rw [h]; rfl
      simp only [hown, Bool.true_and, Bool.not_eq_true] at hc
      simp [hc] at hctx

/-- **Destination.**  A processed request either carries no (non-empty) Destination, or the
    receiver configured no endpoint for that service and binding, or the Destination is — by exact
    string equality — one of the configured endpoints. -/
theorem C07_destination (algOk : α → Bool) (v20 : α) (truthy : α → Bool) (row : KindRow) (cfg : Cfg α)
    (md : List (Cert κ)) (now : Int) (m : Msg α κ) (d : α)
    (h : parseRequest algOk v20 truthy row cfg md now m = .ok)
    (hd : m.destination = some d) (ht : truthy d = true) :
    (receiverAddrs cfg m.binding = [] ∧ allowedAddrs cfg m.binding = []) ∨
    (d ∈ receiverAddrs cfg m.binding ∧ d ∈ allowedAddrs cfg m.binding) := by
  obtain ⟨_, _, _, _, hdest, _⟩ := ok_inv algOk v20 truthy row cfg md now m h
  unfold destRefused at hdest
  simp only [hd, Option.filter, ht, if_true] at hdest
  cases hra : receiverAddrs cfg m.binding with
  | nil => exact Or.inl ⟨rfl, allowed_nil_of_receiverAddrs_nil cfg m.binding hra⟩
  | cons a rest =>
    right
    rw [hra] at hdest
    have : d ∈ a :: rest := by
      cases hdec : decide (d ∈ a :: rest) with
      | true => exact of_decide_eq_true hdec
      | false => rw [hdec] at hdest; simp at hdest
    exact ⟨this, receiverAddrs_sub_allowed cfg m.binding d (hra ▸ this)⟩

/-- **Version.**  Only version 2.0 is processed. -/
theorem C07_version (algOk : α → Bool) (v20 : α) (truthy : α → Bool) (row : KindRow) (cfg : Cfg α)
    (md : List (Cert κ)) (now : Int) (m : Msg α κ)
    (h : parseRequest algOk v20 truthy row cfg md now m = .ok) : m.version = v20 :=
  (ok_inv algOk v20 truthy row cfg md now m h).2.2.2.1

/-- **IssueInstant.**  A processed request was issued not more than a day plus the configured skew
    before or after the receiver's clock (full strength: holds of the repaired `Request._verify`). -/
theorem C07_issue_instant (algOk : α → Bool) (v20 : α) (truthy : α → Bool) (row : KindRow) (cfg : Cfg α)
    (md : List (Cert κ)) (now : Int) (m : Msg α κ)
    (h : parseRequest algOk v20 truthy row cfg md now m = .ok) :
    ∃ ts, m.issueInstant = some ts ∧ now - ts ≤ 86400 + (cfg.slack : Int) ∧ ts - now ≤ 86400 + (cfg.slack : Int) := by
  obtain ⟨_, _, _, _, _, ts, hts, h1, h2⟩ := ok_inv algOk v20 truthy row cfg md now m h
  exact ⟨ts, hts, by omega, by omega⟩

/-- Contrapositive form used by the property text: more than a day plus skew off ⇒ rejected. -/
theorem C07_stale_rejected (algOk : α → Bool) (v20 : α) (truthy : α → Bool) (row : KindRow) (cfg : Cfg α)
    (md : List (Cert κ)) (now : Int) (m : Msg α κ) (ts : Int) (hts : m.issueInstant = some ts)
    (hoff : now - ts > 86400 + (cfg.slack : Int) ∨ ts - now > 86400 + (cfg.slack : Int)) :
    parseRequest algOk v20 truthy row cfg md now m ≠ .ok := by
  intro h
  obtain ⟨ts', hts', h1, h2⟩ := C07_issue_instant algOk v20 truthy row cfg md now m h
  rw [hts] at hts'; cases hts'
  omega

/-! ### Model meets the specification the driver evaluates -/

/-- For every dispatch row that forwards the requirement, the model's verdict satisfies the
    decidable specification `specOk` — for all configurations, metadata, messages and clocks. -/
theorem C07_model_meets_spec (algOk : α → Bool) (v20 : α) (truthy : α → Bool) (row : KindRow) (cfg : Cfg α)
    (md : List (Cert κ)) (now : Int) (m : Msg α κ) (hrow : row.wf = true) (hcoh : coherent m = true) :
    specOk v20 truthy cfg md now m (decide (parseRequest algOk v20 truthy row cfg md now m = .ok)) = true := by
  unfold specOk
  by_cases h : parseRequest algOk v20 truthy row cfg md now m = .ok
  · simp only [h, decide_true, Bool.not_true, Bool.false_or, Bool.and_eq_true]
    unfold KindRow.wf at hrow
    simp only [Bool.and_eq_true] at hrow
    obtain ⟨⟨_, hfm⟩, _⟩ := hrow
    refine ⟨⟨⟨?_, ?_⟩, ?_⟩, ?_⟩
    · -- signature clause
      unfold sigClause
      simp only [Bool.and_eq_true]
      constructor
      · split
        next hreq =>
          split
          next hb =>
            obtain ⟨alg, k, ha, hs, _, c, hc, hk⟩ := C07_signature_detached algOk v20 truthy row cfg md now m hreq hb h
            unfold detachedValid
            rw [ha, hs]
            simp only [decide_true, Bool.and_true]
            exact List.any_eq_true.mpr ⟨c, hc, by simpa using hk⟩
          next hb =>
            split
            next hco => exact (C07_signature_cert_only algOk v20 truthy row cfg md now m hfm hco hb h).1
            next hco =>
              have hco' : cfg.certOnly = false := by simpa using hco
              have hw : cfg.wantSigned = true := by
                unfold requiresSigned at hreq; simpa [hco'] using hreq
              have hreq' : requiresSigned cfg = true := hreq
              exact (C07_signature algOk v20 truthy row cfg md now m hfm hreq' hcoh h).2.1 hb hco'
        · rfl
      · split
        · rfl
        next hco =>
          have hco' : cfg.certOnly = false := by simpa using hco
          cases henv : m.enveloped with
          | absent => simp [envelopedPresent]
          | signed k i =>
            obtain ⟨hcov, _, _, c, hc, hk⟩ :=
              C07_signature_covers algOk v20 truthy row cfg md now m k i hcoh hco' henv h
            simp only [envelopedPresent, Bool.not_true, Bool.false_or]
            unfold envelopedValid
            rw [henv]
            simp only [hcov, Bool.true_and]
            exact List.any_eq_true.mpr ⟨c, hc, by simpa using hk⟩
    · unfold versionClause
      simpa using C07_version algOk v20 truthy row cfg md now m h
    · unfold destClause
      split
      · rfl
      next d hd =>
        obtain ⟨hd', hf⟩ := Option.filter_eq_some_iff.mp hd
        rcases C07_destination algOk v20 truthy row cfg md now m d h hd' hf with ⟨_, hnil⟩ | ⟨_, hmem⟩
        · simp [hnil]
        · simp [hmem]
    · obtain ⟨ts, hts, h1, h2⟩ := C07_issue_instant algOk v20 truthy row cfg md now m h
      unfold instantClause
      rw [hts]
      simp [h1, h2]
  · simp [h]

/-- The decidable checker says what it should: `specOk … true` is the conjunction of the four
    clauses, `specOk … false` always holds. -/
theorem C07_spec_iff (v20 : α) (truthy : α → Bool) (cfg : Cfg α) (md : List (Cert κ)) (now : Int) (m : Msg α κ)
    (processed : Bool) :
    specOk v20 truthy cfg md now m processed = true ↔
      (processed = true →
        sigClause cfg md m = true ∧ m.version = v20 ∧ destClause truthy cfg m = true ∧
        ∃ ts, m.issueInstant = some ts ∧ now - ts ≤ 86400 + (cfg.slack : Int) ∧ ts - now ≤ 86400 + (cfg.slack : Int)) := by
  unfold specOk versionClause instantClause
  cases processed
  · simp
  · cases m.issueInstant <;> simp [and_assoc]

/-- Completeness (the accepting branch is reachable for every configuration): a request with the
    right version, no Destination, an in-window IssueInstant, a parsable SOAP form, and — according
    to the requirement — an intact enveloped signature by a chain-valid metadata key / a good
    detached signature, is processed. -/
theorem C07_accepts_valid (algOk : α → Bool) (v20 : α) (truthy : α → Bool) (row : KindRow) (cfg : Cfg α)
    (md : List (Cert κ)) (now : Int) (m : Msg α κ) (ts : Int) (c : Cert κ) (alg : α)
    (hrow : row.wf = true) (hsoap : row.soapParser = true)
    (hc : md.find? (fun c' => decide (c'.key = c.key)) = some c) (hchain : verifyCert cfg.validateCert c = true)
    (henv : m.enveloped = .signed c.key true) (hprof : m.profileOk = true)
    (halg : m.sigAlg = some alg) (halgOk : algOk alg = true)
    (hsig : m.signature = some (.signed c.key m.samlRequest m.relayState alg))
    (hver : m.version = v20) (hdest : m.destination = none) (hts : m.issueInstant = some ts)
    (hlex : m.instantLexOk = true)
    (h1 : now - 86400 - (cfg.slack : Int) ≤ ts) (h2 : ts < now + 86400 + (cfg.slack : Int)) :
    parseRequest algOk v20 truthy row cfg md now m = .ok := by
  unfold KindRow.wf at hrow
  simp only [Bool.and_eq_true] at hrow
  obtain ⟨⟨hp, _⟩, _⟩ := hrow
  have hcm : c ∈ md := List.mem_of_find?_eq_some hc
  have hne : md.isEmpty = false := by
    cases md with
    | nil => cases hcm
    | cons _ _ => rfl
  have hsc : ∀ sp co, signatureCheck row cfg.validateCert md sp co m.enveloped m.profileOk = none := by
    intro sp co
    unfold signatureCheck checkSignature
    simp [hp, henv, hne, hc, hchain, hprof]
  have hdo : detachedOk algOk md m = true := by
    unfold detachedOk
    rw [halg, hsig]
    exact List.any_eq_true.mpr ⟨c, hcm, by simp [verifyRedirect, halgOk]⟩
  have hdp : detachedPresent m = true := by simp [detachedPresent, halg, hsig]
  unfold parseRequest
  simp only [hsoap, hsc, hdo, hdp, hts, hver, hdest, hlex, destRefused, Option.filter]
  simp only [reduceCtorEq, and_false, if_false, Bool.not_true, Bool.and_false, Bool.false_eq_true, ne_eq,
    not_true_eq_false]
  rw [if_neg (by omega), if_neg (by omega)]

/-! ### State across calls on one receiver (metadata reloads) -/

/-- **Histories.**  For every initial store and every sequence of reloads (successful or failing)
    and deliveries on one receiver, each processed request satisfies the specification against the
    metadata in force *at that step* (the sources of the last successful reload). -/
theorem C07_history_meets_spec (algOk : α → Bool) (v20 : α) (truthy : α → Bool)
    (steps : List (Step α κ)) (srcs : List (Source α κ))
    (hrow : ∀ r, Step.recv r ∈ steps → r.row.wf = true ∧ coherent r.msg = true) :
    specHistory v20 truthy srcs steps ((runHistory algOk v20 truthy srcs steps).map StepOut.flag) = true := by
  induction steps generalizing srcs with
  | nil => simp [specHistory]
  | cons st rest ih =>
    have hrest : ∀ r, Step.recv r ∈ rest → r.row.wf = true ∧ coherent r.msg = true :=
      fun r hr => hrow r (List.mem_cons_of_mem _ hr)
    cases st with
    | reload spec =>
      cases spec with
      | none => simp only [runHistory, List.map_cons, specHistory]; exact ih srcs hrest
      | some new => simp only [runHistory, List.map_cons, specHistory]; exact ih new hrest
    | recv r =>
      simp only [runHistory, List.map_cons, specHistory, StepOut.flag, Bool.and_eq_true]
      exact ⟨C07_model_meets_spec algOk v20 truthy r.row r.cfg _ r.now r.msg (hrow r List.mem_cons_self).1
        (hrow r List.mem_cons_self).2, ih srcs hrest⟩

/-- A successful reload forgets the previous store: what happens afterwards does not depend on it. -/
theorem C07_reload_forgets (algOk : α → Bool) (v20 : α) (truthy : α → Bool)
    (srcs₁ srcs₂ new : List (Source α κ)) (rest : List (Step α κ)) :
    runHistory algOk v20 truthy srcs₁ (.reload (some new) :: rest) =
    runHistory algOk v20 truthy srcs₂ (.reload (some new) :: rest) := by
  simp [runHistory]

/-- A failing reload leaves the store as it was. -/
theorem C07_failed_reload_keeps (algOk : α → Bool) (v20 : α) (truthy : α → Bool)
    (srcs : List (Source α κ)) (rest : List (Step α κ)) :
    runHistory algOk v20 truthy srcs (.reload none :: rest) =
    .reloadFailed :: runHistory algOk v20 truthy srcs rest := by
  simp [runHistory]

/-- **A key that is no longer the issuer's metadata key stops working at the reload.**  Whatever the
    store held before: right after a successful reload to `new`, a request whose enveloped signature
    was made with a key that `new` does not bind to the issuer is refused (certificate-only mode
    apart), and under a requirement so is a Redirect request whose detached signature was. -/
theorem C07_history_old_key_rejected (algOk : α → Bool) (v20 : α) (truthy : α → Bool)
    (srcs new : List (Source α κ)) (r : Recv α κ) (rest : List (Step α κ)) (k : κ)
    (hk : ∀ c ∈ lookupCerts new r.issuer, c.key ≠ k)
    (hcase : (r.cfg.certOnly = false ∧ ∃ i, r.msg.enveloped = .signed k i) ∨
             (requiresSigned r.cfg = true ∧ r.msg.binding = .redirect ∧
              ∃ msg relay alg, r.msg.signature = some (.signed k msg relay alg))) :
    ∃ v outs, runHistory algOk v20 truthy srcs (.reload (some new) :: .recv r :: rest) =
      .reloaded :: .verdict v :: outs ∧ v ≠ .ok := by
  refine ⟨_, _, by simp only [runHistory]; rfl, ?_⟩
  rcases hcase with ⟨hco, i, henv⟩ | ⟨hreq, hb, msg, relay, alg, hsig⟩
  · exact C07_bad_enveloped_rejected algOk v20 truthy r.row r.cfg _ r.now r.msg k i hco henv (Or.inr (Or.inr hk))
  · intro h
    obtain ⟨alg', k', _, hs, _, c, hc, hck⟩ :=
      C07_signature_detached algOk v20 truthy r.row r.cfg _ r.now r.msg hreq hb h
    rw [hsig] at hs
    cases hs
    exact hk c hc hck

/-! ### The regenerated dispatch table -/

/-- Every request class in `SERVICE2REQUEST` checks signatures on the element it stands for and
    hands the requirement (`must`, `only_valid_cert`) on to `correctly_signed_message`. -/
theorem C07_table_wf : ∀ e ∈ Gen.RequestTable.table, e.row.wf = true := by decide

/-- The class's `msgtype` (which picks the SOAP parser) is the msgtype its signature check parses. -/
theorem C07_table_msgtype : ∀ e ∈ Gen.RequestTable.table, e.msgtype = e.checkedMsgtype := by decide

/-- No service is listed twice. -/
theorem C07_table_nodup : (Gen.RequestTable.table.map (·.service)).Nodup := by decide

/-! ### Non-vacuity: concrete instances (α = κ = Nat; 20 stands for "2.0") -/

private def cfg0 : Cfg Nat :=
  { isIdp := true, own := [⟨100, .known .post⟩, ⟨101, .known .redirect⟩], fallback := [[], [⟨102, .known .soap⟩], []],
    wantSigned := true, certOnly := false, validateCert := false, slack := 60 }
private def md0 : List (Cert Nat) := [⟨7, false⟩]
private def row0 : KindRow := ⟨true, true, true, true⟩
private def t (n : Nat) : Bool := n != 0
private def a (n : Nat) : Bool := n == 256
private def msg0 : Msg Nat Nat :=
  { binding := .post, samlRequest := 1, relayState := some 2, sigAlg := none, signature := none,
    enveloped := .signed 7 true, profileOk := true, covers := true, version := 20, destination := some 100, issueInstant := some 1000, instantLexOk := true }

-- required + valid enveloped signature: processed
example : parseRequest a 20 t row0 cfg0 md0 1000 msg0 = .ok := by decide
-- required + no signature: rejected
example : parseRequest a 20 t row0 cfg0 md0 1000 { msg0 with enveloped := .absent } = .signatureMissing := by decide
-- optional + corrupted signature: rejected
example : parseRequest a 20 t row0 { cfg0 with wantSigned := false } md0 1000 { msg0 with enveloped := .signed 7 false }
    = .signatureBad := by decide
-- optional + attacker key: rejected
example : parseRequest a 20 t row0 { cfg0 with wantSigned := false } md0 1000 { msg0 with enveloped := .signed 9 true }
    = .signatureBad := by decide
-- signature wrapping: the issuer's old signature, verifying over an element hidden in ds:Object, on another request
example : parseRequest a 20 t row0 cfg0 md0 1000 { msg0 with profileOk := false, covers := false } = .profileBad := by decide
example : parseRequest a 20 t row0 { cfg0 with wantSigned := false } md0 1000 { msg0 with profileOk := false, covers := false }
    = .profileBad := by decide
example : parseRequest a 20 t row0 { cfg0 with certOnly := true } md0 1000 { msg0 with profileOk := false, covers := false }
    = .profileBad := by decide
example : specOk 20 t cfg0 md0 1000 { msg0 with profileOk := false, covers := false } true = false := by decide
example : coherent { msg0 with profileOk := false, covers := false } = true := by decide
example : coherent msg0 = true := by decide
-- certificate-only opt-in: the same corrupted signature is processed (why the theorem excludes it)
example : parseRequest a 20 t row0 { cfg0 with certOnly := true } md0 1000 { msg0 with enveloped := .signed 7 false }
    = .ok := by decide
-- Redirect, required: good detached signature processed; altered RelayState / message / SigAlg, other key, garbage rejected
example : parseRequest a 20 t row0 cfg0 md0 1000
    { msg0 with binding := .redirect, enveloped := .absent, destination := some 101, sigAlg := some 256,
                signature := some (.signed 7 1 (some 2) 256) } = .ok := by decide
example : parseRequest a 20 t row0 cfg0 md0 1000
    { msg0 with binding := .redirect, enveloped := .absent, destination := some 101, sigAlg := some 256,
                signature := some (.signed 7 1 (some 3) 256) } = .detachedBad := by decide
example : parseRequest a 20 t row0 cfg0 md0 1000
    { msg0 with binding := .redirect, enveloped := .absent, destination := some 101, sigAlg := some 256,
                signature := some (.signed 7 5 (some 2) 256) } = .detachedBad := by decide
example : parseRequest a 20 t row0 cfg0 md0 1000
    { msg0 with binding := .redirect, enveloped := .absent, destination := some 101, sigAlg := some 256,
                signature := some (.signed 9 1 (some 2) 256) } = .detachedBad := by decide
example : parseRequest a 20 t row0 cfg0 md0 1000
    { msg0 with binding := .redirect, enveloped := .absent, destination := some 101, sigAlg := some 256,
                signature := some .garbage } = .detachedBad := by decide
example : parseRequest a 20 t row0 cfg0 md0 1000
    { msg0 with binding := .redirect, enveloped := .absent, destination := some 101 } = .detachedMissing := by decide
-- Redirect, required: a valid *enveloped* signature does not replace the detached one
example : parseRequest a 20 t row0 cfg0 md0 1000 { msg0 with binding := .redirect, destination := some 101 }
    = .detachedMissing := by decide
-- addressing, version, time
example : parseRequest a 20 t row0 cfg0 md0 1000 { msg0 with destination := some 101 } = .notForMe := by decide
example : parseRequest a 20 t row0 cfg0 md0 1000 { msg0 with destination := some 0 } = .ok := by decide
example : parseRequest a 20 t row0 cfg0 md0 1000 { msg0 with binding := .soap, destination := some 102 } = .ok := by decide
example : parseRequest a 20 t row0 { cfg0 with fallback := [] } md0 1000 { msg0 with binding := .soap, destination := some 555 }
    = .ok := by decide
example : parseRequest a 20 t row0 cfg0 md0 1000 { msg0 with version := 11 } = .versionMismatch := by decide
example : parseRequest a 20 t row0 cfg0 md0 1000 { msg0 with instantLexOk := false } = .notValid := by decide
example : parseRequest a 20 t row0 cfg0 md0 1000 { msg0 with issueInstant := some (1000 - 86461) } = .instantTooOld := by decide
example : parseRequest a 20 t row0 cfg0 md0 1000 { msg0 with issueInstant := some (1000 - 86460) } = .ok := by decide
example : parseRequest a 20 t row0 cfg0 md0 1000 { msg0 with issueInstant := some (1000 + 86460) } = .instantTooNew := by decide
example : parseRequest a 20 t row0 cfg0 md0 1000 { msg0 with issueInstant := some (1000 + 86459) } = .ok := by decide
example : specOk 20 t cfg0 md0 1000 { msg0 with issueInstant := some (1000 - 86461) } true = false := by decide
example : specOk 20 t cfg0 md0 1000 { msg0 with enveloped := .absent } true = false := by decide
example : specOk 20 t cfg0 md0 1000 msg0 true = true := by decide
-- hypotheses of C07_accepts_valid are satisfiable
example : md0.find? (fun c' => decide (c'.key = (⟨7, false⟩ : Cert Nat).key)) = some ⟨7, false⟩ := by decide

-- histories: source A binds key 7 to issuer 500; after a reload to a source binding key 8 the old key is refused,
-- the new one processed; a failing reload changes nothing; first source wins
private def srcA : Source Nat Nat := ⟨[(500, [⟨7, false⟩])]⟩
private def srcB : Source Nat Nat := ⟨[(500, [⟨8, false⟩])]⟩
private def srcOther : Source Nat Nat := ⟨[(501, [⟨7, false⟩])]⟩
private def rcv (k : Nat) : Recv Nat Nat := ⟨row0, cfg0, 1000, 500, { msg0 with enveloped := .signed k true }⟩
example : (runHistory a 20 t [srcA] [.recv (rcv 7), .reload (some [srcB]), .recv (rcv 7), .recv (rcv 8)]).map StepOut.flag
    = [true, true, false, true] := by decide
example : (runHistory a 20 t [srcA] [.reload none, .recv (rcv 7), .reload (some [srcOther]), .recv (rcv 7)]).map StepOut.flag
    = [false, true, true, false] := by decide
example : (runHistory a 20 t [srcA] [.reload (some [srcA, srcB]), .recv (rcv 7), .recv (rcv 8),
    .reload (some [srcB, srcA]), .recv (rcv 7), .recv (rcv 8)]).map StepOut.flag = [true, true, false, true, false, true] := by decide
-- the specification on a history where the old key kept working after the reload: violated at that step
example : specHistory 20 t [srcA] [.recv (rcv 7), .reload (some [srcB]), .recv (rcv 7)] [true, true, true] = false := by decide
example : specHistory 20 t [srcA] [.recv (rcv 7), .reload (some [srcB]), .recv (rcv 7)] [true, true, false] = true := by decide

end C07
