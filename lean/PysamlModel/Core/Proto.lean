/-
  Line protocol shared by all drivers: one JSON object per input line, one JSON
  object per output line.  Only the toolchain's own `Lean.Data.Json` is imported
  (never Mathlib), so drivers start in ~0.5 s under `lake env lean --run`.
-/
import Lean.Data.Json
open Lean

namespace Proto

def str? (j : Json) (k : String) : Option String := (j.getObjValAs? String k).toOption
def nat? (j : Json) (k : String) : Option Nat := (j.getObjValAs? Nat k).toOption
def int? (j : Json) (k : String) : Option Int := (j.getObjValAs? Int k).toOption
def bool? (j : Json) (k : String) : Option Bool := (j.getObjValAs? Bool k).toOption
def obj? (j : Json) (k : String) : Option Json :=
  match j.getObjVal? k with
  | .ok .null => none
  | .ok v => some v
  | .error _ => none
def arr? (j : Json) (k : String) : Option (List Json) :=
  match j.getObjVal? k with
  | .ok (.arr a) => some a.toList
  | _ => none

def strD (j : Json) (k : String) (d : String := "") : String := (str? j k).getD d
def natD (j : Json) (k : String) (d : Nat := 0) : Nat := (nat? j k).getD d
def intD (j : Json) (k : String) (d : Int := 0) : Int := (int? j k).getD d
def boolD (j : Json) (k : String) (d : Bool := false) : Bool := (bool? j k).getD d
def arrD (j : Json) (k : String) : List Json := (arr? j k).getD []

def asStr? : Json → Option String
  | .str s => some s
  | _ => none
def asStrList (js : List Json) : List String := js.filterMap asStr?
def strList (j : Json) (k : String) : List String := asStrList (arrD j k)
def asNat? (j : Json) : Option Nat := (fromJson? j : Except String Nat).toOption
def asInt? (j : Json) : Option Int := (fromJson? j : Except String Int).toOption
def natList (j : Json) (k : String) : List Nat := (arrD j k).filterMap asNat?
def asArr : Json → List Json
  | .arr a => a.toList
  | _ => []

def optStr : Option String → Json
  | some s => Json.str s
  | none => Json.null
def optInt : Option Int → Json
  | some s => toJson s
  | none => Json.null
def jarr (l : List Json) : Json := Json.arr l.toArray
def jstrs (l : List String) : Json := jarr (l.map Json.str)
def jnats (l : List Nat) : Json := jarr (l.map fun n => toJson n)

/-- Bytes of a string as `Nat`s (UTF-8).  -/
def bytesOf (s : String) : List Nat := s.toUTF8.toList.map (·.toNat)

partial def loop (h out : IO.FS.Stream) (f : Json → Json) : IO Unit := do
  let line ← h.getLine
  if line.isEmpty then return ()
  let l := line.trimAscii.toString
  if l.isEmpty then
    loop h out f
  else
    match Json.parse l with
    | .error e => out.putStrLn (Json.compress (Json.mkObj [("proto_error", Json.str e)]))
    | .ok j => out.putStrLn (Json.compress (f j))
    loop h out f

def serve (f : Json → Json) : IO Unit := do
  loop (← IO.getStdin) (← IO.getStdout) f

end Proto
