/- REGENERATED on every run by harness/translate/request_table.py from the imported saml2
   (request.SERVICE2REQUEST, the request classes' signature_check, samlp.*_from_string,
   soap.parse_soap_enveloped_saml_*, sigver.SIGNER_ALGS).  Do not edit. -/
import PysamlModel.Model.Request

namespace Gen.RequestTable
open Request

def table : List TableEntry := [
  -- assertion_id_request_service: AssertionIDRequest, msgtype assertion_id_request, signature_check -> assertion_id_request
  { service := 37222732649692458543244932516188538565125904615632195479914578273125, cls := 28002329644253862866513088398048514034463604, msgtype := 2017848380232184021595289136771243492935221998452, checkedMsgtype := 2017848380232184021595289136771243492935221998452,
    parsesOwnElement := true, soapParser := true, forwardsMust := true, forwardsCertOnly := true },
  -- attribute_service: AttributeQuery, msgtype attribute_query, signature_check -> attribute_query
  { service := 120274470597582041289069069202559840379749, cls := 6519879988200188306465153307996793, msgtype := 1835242776452362690568070505632723577, checkedMsgtype := 1835242776452362690568070505632723577,
    parsesOwnElement := true, soapParser := true, forwardsMust := true, forwardsCertOnly := true },
  -- authn_query_service: AuthnQuery, msgtype authn_query, signature_check -> authn_query
  { service := 7882394804102688780778706385227325186968740709, cls := 1518046298133382249673337, msgtype := 427305478549829365757473401, checkedMsgtype := 427305478549829365757473401,
    parsesOwnElement := true, soapParser := true, forwardsMust := true, forwardsCertOnly := true },
  -- authz_service: AuthzDecisionQuery, msgtype authz_decision_query, signature_check -> authz_decision_query
  { service := 28003891842462978788579959464805, cls := 28003011553951046176518916096233449212703353, msgtype := 2017893069866238798889162498891059623482238530169, checkedMsgtype := 2017893069866238798889162498891059623482238530169,
    parsesOwnElement := true, soapParser := false, forwardsMust := true, forwardsCertOnly := true },
  -- manage_name_id_service: ManageNameIDRequest, msgtype manage_name_id_request, signature_check -> manage_name_id_request
  { service := 136705108812184801959654813742425134214668406777013093, cls := 7434635603378416454171966700548206824087974772, msgtype := 136705108812184801959654813742425134214386927488299892, checkedMsgtype := 136705108812184801959654813742425134214386927488299892,
    parsesOwnElement := true, soapParser := true, forwardsMust := true, forwardsCertOnly := true },
  -- name_id_mapping_service: NameIDMappingRequest, msgtype name_id_mapping_request, signature_check -> name_id_mapping_request
  { service := 35092287388379697276802430674436605755742354380151153509, cls := 1908975619444493781764417002402690059862668571508, msgtype := 35092287388379697276802430674436605755742072900862440308, checkedMsgtype := 35092287388379697276802430674436605755742072900862440308,
    parsesOwnElement := true, soapParser := true, forwardsMust := true, forwardsCertOnly := true },
  -- single_logout_service: LogoutRequest, msgtype logout_request, signature_check -> logout_request
  { service := 542819013572124018266026292876918782629132714468197, cls := 26338227836534680219039138411380, msgtype := 7391623433469732530035017612882804, checkedMsgtype := 7391623433469732530035017612882804,
    parsesOwnElement := true, soapParser := true, forwardsMust := true, forwardsCertOnly := true },
  -- single_sign_on_service: AuthnRequest, msgtype authn_request, signature_check -> authn_request
  { service := 138961667474463748712327114192508377308882070852428645, cls := 99486682194469603048971137908, msgtype := 28003891842241617578216156132212, checkedMsgtype := 28003891842241617578216156132212,
    parsesOwnElement := true, soapParser := true, forwardsMust := true, forwardsCertOnly := true }
]

/-- service names in table order (for the driver; not looked at by the kernel) -/
def services : List String := ["assertion_id_request_service", "attribute_service", "authn_query_service", "authz_service", "manage_name_id_service", "name_id_mapping_service", "single_logout_service", "single_sign_on_service"]

/-- `sigver.SIGNER_ALGS` keys -/
def signerAlgs : List String := ["http://www.w3.org/2000/09/xmldsig#rsa-sha1", "http://www.w3.org/2001/04/xmldsig-more#rsa-sha224", "http://www.w3.org/2001/04/xmldsig-more#rsa-sha256", "http://www.w3.org/2001/04/xmldsig-more#rsa-sha384", "http://www.w3.org/2001/04/xmldsig-more#rsa-sha512"]

end Gen.RequestTable
