import PysamlModel.Core.Proto
import PysamlModel.Model.Validate
import PysamlModel.Model.ClassOrder
import PysamlModel.Spec.C13
import PysamlModel.Gen.Schema
import PysamlModel.Gen.ClassRows
import Std.Data.HashMap
open Lean Proto Validate

structure Interner where
  ns : Std.HashMap String Nat
  names : Std.HashMap (Nat × String) Nat

def mkInterner : Interner :=
  let nsm := (Gen.Schema.nss.zipIdx).foldl (fun m (u, i) => m.insert u (i + 2)) (∅ : Std.HashMap String Nat)
  let nm := (Gen.Schema.names.zipIdx).foldl (fun m (p, i) => m.insert p (i + 1)) (∅ : Std.HashMap (Nat × String) Nat)
  { ns := nsm, names := nm }

def Interner.qn (I : Interner) (ns loc : String) : QN :=
  let n := if ns == "" then 0 else (I.ns.get? ns).getD 1
  { ns := n, id := (I.names.get? (n, loc)).getD 0 }

def jstr : Json → String
  | .str s => s
  | _ => ""

instance : Inhabited XNode := ⟨.mk ⟨0, 0⟩ [] [] []⟩

/-- node = [ns, local, [[ans, alocal, value], ...], text, [children...]] -/
partial def parseNode (I : Interner) (j : Json) : XNode :=
  match j with
  | .arr a =>
    let ns := jstr (a[0]?.getD Json.null)
    let loc := jstr (a[1]?.getD Json.null)
    let attrs := (asArr (a[2]?.getD Json.null)).map fun av =>
      match av with
      | .arr b => (I.qn (jstr (b[0]?.getD Json.null)) (jstr (b[1]?.getD Json.null)), (jstr (b[2]?.getD Json.null)).toList)
      | _ => (⟨0, 0⟩, [])
    let text := (jstr (a[3]?.getD Json.null)).toList
    let kids := (asArr (a[4]?.getD Json.null)).map (parseNode I)
    .mk (I.qn ns loc) attrs text kids
  | _ => .mk ⟨0, 0⟩ [] [] []

/-- one emitted document (or refusal / unserialisable object) as observed by the harness -/
def docAns (I : Interner) (impl : Json) : Json :=
  let S := Gen.Schema.schema
  match obj? impl "tree" with
  | none =>
    match str? impl "emit_error" with
    | some e =>
      -- a message object without a string form: nothing that could validate was emitted
      let strict := boolD impl "strict"
      Json.mkObj [("model", Json.mkObj [("valid", false)]), ("path", "doc/unserialisable"), ("spec_model", !strict),
        ("spec_impl", !strict), ("why", Json.str ("the created message cannot be serialised: " ++ e))]
    | none =>
      -- the builder refused the arguments: nothing was emitted, the property does not speak
      Json.mkObj [("model", Json.mkObj [("valid", Json.null)]), ("path", "doc/refused"), ("spec_model", true), ("spec_impl", true)]
  | some tj =>
    let t := parseNode I tj
    let res := validate S t
    let ok := match res with | .ok _ => true | .error _ => false
    let err := match res with | .ok _ => "" | .error e => e.toString
    let strict := boolD impl "strict"      -- library output of a message kind the property names
    let xsd := boolD impl "xsd"
    let vi := boolD impl "vi" true
    let path := if ok then (if strict then "doc/valid" else "doc/valid-unconstrained") else "doc/invalid/" ++ err
    let specImpl := if strict then specDoc S t xsd vi else true
    let why := if specImpl then "" else
      (if !ok then "Lean validator: " ++ err else if !xsd then "xmlschema rejects: " ++ strD impl "xsd_err" else "valid_instance rejects: " ++ strD impl "vi_err")
    Json.mkObj [("model", Json.mkObj [("valid", ok)]), ("path", path), ("err", err),
      ("spec_model", !strict || ok), ("spec_impl", specImpl), ("why", why)]

def handle (I : Interner) (line : Json) : Json :=
  let c := (obj? line "case").getD Json.null
  let impl := (obj? line "impl").getD Json.null
  let S := Gen.Schema.schema
  match strD c "op" with
  | "doc" => docAns I impl
  | "hist" =>
    -- a history of calls on one entity: every emitted document judged like a `doc` case
    let answers := (arrD impl "docs").map (docAns I)
    let valids := answers.map fun a => ((obj? a "model").getD Json.null).getObjValD "valid"
    let bad := answers.filter fun a => !(boolD a "spec_impl" true)
    let firstInvalid := answers.find? fun a => (strD a "path").startsWith "doc/invalid" || strD a "path" == "doc/unserialisable"
    let path := match firstInvalid with
      | some a => "hist/" ++ (strD a "path").drop 4
      | none => if answers.all (fun a => strD a "path" == "doc/refused") then "hist/all-refused" else "hist/all-valid"
    Json.mkObj [("model", Json.mkObj [("valid", jarr valids)]), ("path", path),
      ("spec_model", answers.all fun a => boolD a "spec_model" true), ("spec_impl", bad.isEmpty),
      ("why", match bad.head? with | some a => Json.str ("step output: " ++ strD a "why") | none => "")]
  | "order" =>
    let label := strD c "cls"
    let counts := natList c "counts"
    match (Gen.ClassRows.rows ++ Gen.ClassRows.excluded).find? (fun r => r.label == label) with
    | none => Json.mkObj [("proto_error", Json.str ("unknown class row " ++ label))]
    | some r =>
      -- extension elements of the instance (namespace URI, local name), interned like the document trees
      let exts : List QN := (arrD c "exts").map fun p =>
        match p with
        | .arr b => I.qn (jstr (b[0]?.getD Json.null)) (jstr (b[1]?.getD Json.null))
        | _ => ⟨0, 0⟩
      let m := tagsOfExt r.members counts exts
      let toJ (l : List QN) : Json := jarr (l.map fun q => jarr [toJson q.ns, toJson q.id])
      let it : List QN := (arrD impl "tags").map fun p =>
        match p with
        | .arr b => ⟨(asNat? (b[0]?.getD Json.null)).getD 0, (asNat? (b[1]?.getD Json.null)).getD 0⟩
        | _ => ⟨0, 0⟩
      let claimed := Gen.ClassRows.rows.any (fun r' => r'.label == label)
      let compat := orderCompat r.ps r.members
      let inst := instOk r.members counts
      let extc := extCompat r.ps r.members
      let exok := extsOk r.ps exts
      let path := "order/" ++ (if claimed then "claimed" else "excluded") ++ (if compat then "/compat" else "/not-compat") ++
        (if inst then "/inst-ok" else "/inst-not-ok") ++
        (if exts.isEmpty then "" else (if extc then "/ext-compat" else "/ext-not-compat") ++ (if exok then "/exts-ok" else "/exts-not-ok") ++
          (if isExtContainer r then "/container" else ""))
      -- the claim (C13_order_table_valid) covers the claimed rows and instances within the class's own cardinalities;
      -- a claimed row is constrained even when its regenerated form is no longer compatible (then the theorem is broken
      -- as well and this case is the concrete failing instance)
      -- with extension elements the claim is C13_order_ext_partial (and C13_ext_container_valid for the two Extensions
      -- classes): members compatible up to the final unbounded particle, extension elements admitted by it
      let constrained := if exts.isEmpty then claimed && inst else inst && extc && exok && particlesOf S r.elem r.ps
      Json.mkObj [("model", Json.mkObj [("tags", toJ m)]), ("path", path),
        ("spec_model", !constrained || specOrder r.ps m), ("spec_impl", !constrained || specOrder r.ps it),
        ("why", if !constrained || specOrder r.ps it then "" else "serialised child order is outside the XSD content model")]
  | "lex" =>
    let ty := (strD c "type").toList
    let v := (strD c "value").toList
    if strD c "type" == "pysaml2:valid_domain_name" then
      -- the library's own lexical check behind valid_instance (SubjectLocality/@DNSName)
      let ok := Lex.domainNameOk v
      Json.mkObj [("model", Json.mkObj [("ok", ok)]), ("path", Json.str ("lex/valid_domain_name" ++ (if ok then "/ok" else "/bad"))),
        ("spec_model", true), ("spec_impl", true)]
    else
    match S.typeNames.find? (fun p => p.1 == ty) with
    | some (_, .simple st) =>
      let ok := st.ok v
      Json.mkObj [("model", Json.mkObj [("ok", ok)]), ("path", Json.str ("lex/" ++ strD c "type" ++ (if ok then "/ok" else "/bad"))),
        ("spec_model", true), ("spec_impl", true)]
    | _ => Json.mkObj [("proto_error", Json.str ("unknown simple type " ++ strD c "type"))]
  | op => Json.mkObj [("proto_error", Json.str ("unknown op " ++ op))]

def main : IO Unit := serve (handle mkInterner)
