import PysamlModel.Core.Proto
import PysamlModel.Model.Encrypt
import PysamlModel.Spec.C16
import PysamlModel.Gen.EncryptDefaults
open Lean Proto Encrypt

/-- key pairs of harness/keys by name; 0 = unknown -/
def keyId (s : String) : Key :=
  match s with
  | "sp_enc1" => 1 | "sp_enc2" => 2 | "attacker" => 3 | "sp" => 4 | "idp_enc" => 5 | "idp_sign" => 6
  | _ => 0

def keyName (k : Key) : String :=
  match k with
  | 1 => "sp_enc1" | 2 => "sp_enc2" | 3 => "attacker" | 4 => "sp" | 5 => "idp_enc" | 6 => "idp_sign"
  | _ => "?"

def optKey (j : Json) (k : String) : Option Key := (str? j k).map keyId

def parseUse (j : Json) : Use :=
  match j with
  | .str "signing" => .signing
  | .str "encryption" => .encryption
  | _ => .unspecified

def parseMdKey (j : Json) : Option MdKey :=
  match asArr j with
  | [u, .str name, .bool usable] => some { use := parseUse u, key := keyId name, usable := usable }
  | _ => none

/-- explicit certificate argument: null | "" | "garbage" | key name | "pem:<key name>" -/
def parseCertArg (j : Json) (k : String) : CertArg :=
  match str? j k with
  | none => .none
  | some "" => .empty
  | some "garbage" => .cert 0 false
  | some s => .cert (keyId (if s.startsWith "pem:" then (s.drop 4).toString else s)) true

/-- a configuration value: true / false, also in the textual forms "true" / "false" `Config.load_special`
    normalises; anything else (null, absent) = not configured -/
def cfgTri (j : Json) (k : String) : Tri :=
  match j.getObjVal? k with
  | .ok (.bool b) => some b
  | .ok (.str "true") => some true
  | .ok (.str "false") => some false
  | _ => none

def parseCfg (j : Json) : Opts Tri :=
  { signResponse := cfgTri j "sign_response", signAssertion := cfgTri j "sign_assertion",
    encryptAssertion := cfgTri j "encrypt_assertion", encryptedAdvice := cfgTri j "encrypted_advice_attributes",
    selfContained := cfgTri j "encrypt_assertion_self_contained" }

/-- a keyword argument as the caller wrote it: "omit" (or absent) = omitted, null = None, true / false -/
def givenArg (j : Json) (k : String) : Option Tri :=
  match j.getObjVal? k with
  | .ok (.bool b) => some (some b)
  | .ok .null => some none
  | _ => none

def parseGiven (j : Json) : Opts (Option Tri) :=
  { signResponse := givenArg j "sign_response", signAssertion := givenArg j "sign_assertion",
    encryptAssertion := givenArg j "encrypt_assertion", encryptedAdvice := givenArg j "encrypted_advice_attributes",
    selfContained := givenArg j "encrypt_assertion_self_contained" }

def parseOptsBool (j : Json) : Opts Bool :=
  { signResponse := boolD j "sign_response", signAssertion := boolD j "sign_assertion",
    encryptAssertion := boolD j "encrypt_assertion", encryptedAdvice := boolD j "encrypted_advice_attributes",
    selfContained := boolD j "encrypt_assertion_self_contained" }

def parseEntry (c : Json) : Entry :=
  match strD c "entry" "direct" with
  | "request_response" => .requestResponse
  | "ecp" => .ecp
  | _ => .direct

def genSig : Opts Tri :=
  ⟨Gen.EncryptDefaults.signResponse, Gen.EncryptDefaults.signAssertion, Gen.EncryptDefaults.encryptAssertion,
   Gen.EncryptDefaults.encryptedAdvice, Gen.EncryptDefaults.selfContained⟩

/-- `useProp = true`: omitted arguments stand for the PROPERTY's signature defaults (what the specification
    means by "requested"); `false`: for the defaults of the current source (what the model follows). -/
def parseCall (c : Json) (useProp : Bool) : Call :=
  let fl := (obj? c "flags").getD (Json.mkObj [])
  let e := parseEntry c
  let direct := e == .direct
  let sig := if useProp then propSig else genSig
  let (wsr, wsa) : Tri × Tri :=
    if useProp then (none, none)
    else if e == .ecp then (Gen.EncryptDefaults.ecpSignResponse, Gen.EncryptDefaults.ecpSignAssertion)
    else (Gen.EncryptDefaults.rrSignResponse, Gen.EncryptDefaults.rrSignAssertion)
  let pefimDefault := if useProp then false else Gen.EncryptDefaults.pefim.getD false
  { kw := kwOf e sig wsr wsa (parseGiven fl)
    cfg := parseCfg ((obj? c "idp_cfg").getD (Json.mkObj []))
    dflt := parseOptsBool ((obj? c "defaults").getD (Json.mkObj []))
    -- the wrappers swallow pefim and the certificates
    pefim := if direct then (bool? fl "pefim").getD pefimDefault else pefimDefault
    certAssertion := if direct then parseCertArg c "cert_assertion" else .none
    certAdvice := if direct then parseCertArg c "cert_advice" else .none
    md := (arrD c "md_keys").filterMap parseMdKey
    extraAdvice := (obj? c "advice_identity").isSome }

/-- content shape: is the (advice) identity an object without members? -/
def emptyObj (c : Json) (k : String) : Bool :=
  match c.getObjVal? k with
  | .ok (.obj m) => m.isEmpty
  | _ => false

/-- The recipient's side of the case: configuration, clock, outstanding request; the issued content. -/
def parseInput (c : Json) (useProp : Bool := false) : Input :=
  let sp := (obj? c "sp").getD (Json.mkObj [])
  let d := (obj? c "sp_defaults").getD (Json.mkObj [])
  let now := intD c "now"
  let life := intD c "lifetime" 900
  let rid := strD c "rid"
  let acs := strD c "acs"
  let me := strD c "sp_entity_id"
  let solicited := boolD sp "solicited" true
  { call := parseCall c useProp
    ecp := parseEntry c == .ecp
    identityEmpty := emptyObj c "identity"
    adviceIdentityEmpty := emptyObj c "advice_identity"
    rc := { explicitKeys := (strList sp "explicit_keys").map keyId, configured := (strList sp "enc_keys").map keyId }
    tamper := (str? c "tamper").isSome
    cfg := { wantResp := (bool? sp "want_resp").getD (boolD d "want_response_signed"),
             wantAssert := (bool? sp "want_assert").getD (boolD d "want_assertions_signed"),
             wantEither := (bool? sp "want_either").getD (boolD d "want_assertions_or_response_signed"),
             allowUnsolicited := boolD d "allow_unsolicited", skew := 0, entityId := me, returnAddrs := [acs] }
    env := { now := now + intD sp "delay", outstanding := if solicited then [(rid, "/came/from")] else [] }
    envelope := { issueInstant := now, destination := some acs, inResponseTo := some rid, issuer := some (strD c "idp_entity_id") }
    content := { conditions := some { nb := some now, nooa := some (now + life), audiences := [[me]] },
                 authn := [{}],
                 subject := some { nameId := some (strD c "name_id"),
                                   confs := [{ method := .bearer,
                                               data := some { nooa := some (now + life), recipient := some acs, irt := some rid } }] } } }

def opToJson : Op → Json
  | .signAdvice => "signAdvice" | .signAssertion => "signAssertion" | .signResponse => "signResponse"
  | .encAdvice k => Json.str ("encAdvice:" ++ keyName k) | .encAssertion k => Json.str ("encAssertion:" ++ keyName k)

def parseOp (j : Json) : Option Op :=
  match j with
  | .str "signAdvice" => some .signAdvice
  | .str "signAssertion" => some .signAssertion
  | .str "signResponse" => some .signResponse
  | .str s =>
    if s.startsWith "encAdvice:" then some (.encAdvice (keyId (s.drop 10).toString))
    else if s.startsWith "encAssertion:" then some (.encAssertion (keyId (s.drop 13).toString))
    else none
  | _ => none

def bodyKindS : BodyKind → String
  | .clear => "clear" | .wrapped => "wrapped" | .sealed => "sealed" | .other => "other"
def advKindS : AdvKind → String
  | .none => "none" | .clear => "clear" | .wrapped => "wrapped" | .sealed => "sealed" | .other => "other"
def parseBodyKind (s : String) : BodyKind :=
  match s with | "clear" => .clear | "wrapped" => .wrapped | "sealed" => .sealed | _ => .other
def parseAdvKind (s : String) : AdvKind :=
  match s with | "none" => .none | "clear" => .clear | "wrapped" => .wrapped | "sealed" => .sealed | _ => .other
def ava3S : Ava3 → String
  | .full => "full" | .none => "none" | .other => "other"
def parseAva3 (s : String) : Ava3 :=
  match s with | "full" => .full | "none" => .none | _ => .other

def optBoolJ : Option Bool → Json
  | some b => Json.bool b
  | none => Json.null
def optKeyJ : Option Key → Json
  | some k => Json.str (keyName k)
  | none => Json.null

def wireToJson (w : WireObs) : Json :=
  Json.mkObj [("resp_signed", w.respSigned), ("body", bodyKindS w.body), ("body_key", optKeyJ w.bodyKey),
    ("outer_signed", optBoolJ w.outerSigned), ("advice", advKindS w.advice), ("advice_key", optKeyJ w.adviceKey),
    ("advice_signed", optBoolJ w.adviceSigned)]

def parseWire (j : Json) : WireObs :=
  { respSigned := boolD j "resp_signed", body := parseBodyKind (strD j "body"), bodyKey := optKey j "body_key",
    outerSigned := bool? j "outer_signed", advice := parseAdvKind (strD j "advice"), adviceKey := optKey j "advice_key",
    adviceSigned := bool? j "advice_signed" }

def leakToJson (l : Clear) : Json :=
  Json.mkObj [("assertion", l.assertion), ("advice_assertion", l.adviceAssertion), ("name_id", l.nameId),
    ("attrs_outer", l.attrsOuter), ("attrs_advice", l.attrsAdvice)]

def parseLeak (j : Json) : Clear :=
  ⟨boolD j "assertion", boolD j "advice_assertion", boolD j "name_id", boolD j "attrs_outer", boolD j "attrs_advice"⟩

def parseSpObs (j : Json) : SpObs :=
  match strD j "r" with
  | "identity" => { kind := .identity, nameIdOk := boolD j "name_id_ok", assertionOk := boolD j "assertion_ok",
                    avaOuter := parseAva3 (strD j "ava_outer"), avaAdvice := parseAva3 (strD j "ava_advice") }
  | "none" => { kind := .none }
  | _ => { kind := .rejected }

def parseObs (j : Json) : Obs :=
  if strD j "idp" != "ok" then { issued := false } else
  { issued := true
    ops := (arrD j "ops").filterMap parseOp
    wire := parseWire ((obj? j "wire").getD (Json.mkObj []))
    leak := parseLeak ((obj? j "leak").getD (Json.mkObj []))
    tampered := boolD j "tampered"
    sp := parseSpObs ((obj? j "sp").getD (Json.mkObj [])) }

/-- the model's observation in the harness's JSON shape; identity details come from `Sp.process` -/
def obsToJson (i : Input) (o : Obs) : Json :=
  if !o.issued then Json.mkObj [("idp", "refused"), ("ops", jarr [])] else
  let spJ : Json :=
    match i.issue with
    | .error _ => Json.null
    | .ok iss =>
      match i.outcome iss.wire with
      | .identity r => Json.mkObj [("r", "identity"), ("name_id_ok", o.sp.nameIdOk), ("assertion_ok", o.sp.assertionOk),
          ("ava_outer", ava3S o.sp.avaOuter), ("ava_advice", ava3S o.sp.avaAdvice),
          ("came_from", optStr r.cameFrom), ("not_on_or_after", toJson r.notOnOrAfter), ("cached", r.cached)]
      | .noIdentity => Json.mkObj [("r", "none"), ("cached", false)]
      | .rejected _ => Json.mkObj [("r", "rejected")]
  Json.mkObj [("idp", "ok"), ("ops", jarr (o.ops.map opToJson)), ("wire", wireToJson o.wire), ("leak", leakToJson o.leak),
    ("tampered", o.tampered), ("sp", spJ)]

def refusalS : Refusal → String
  | .noUsableCert => "no-usable-cert" | .parseObject => "parse-object" | .ecpNeedsObject => "ecp-needs-object"

def errS : Sp.Err → String
  | .sigMissingResponse => "sigMissingResponse" | .sigBadResponse => "sigBadResponse"
  | .sigMissingAssertion => "sigMissingAssertion" | .sigBadAssertion => "sigBadAssertion"
  | .eitherUnsigned => "eitherUnsigned" | .unsolicited => "unsolicited" | .expired => "expired"
  | _ => "other"

/-- model branch id: IdP side / recipient side -/
def pathOf (i : Input) : String :=
  match i.issue with
  | .error e => "idp:refused/" ++ refusalS e
  | .ok iss =>
    let t := iss.trace
    let idp :=
      (match t.branch with | .early => "early-return" | .plain => "plain" | .encrypting => "encrypting") ++
      (if t.downgradedAssertion then "+downgradeA" else "") ++ (if t.downgradedAdvice then "+downgradeAdv" else "") ++
      (if t.partB then "+B" else "") ++ (if t.partC then "+C" else "") ++
      "/" ++ bodyKindS (bodyKind iss.wire.body) ++ "/" ++ advKindS (advKind iss.wire.body.outer.advice) ++
      (if iss.wire.sig.isSome then "/sigR" else "") ++ (if iss.wire.body.outer.sig.isSome then "/sigA" else "")
    let s := receive i.rc (i.sent iss.wire)
    let rc :=
      (if i.tamper && iss.wire.hasCiphertext then "tampered," else "") ++
      (if s.encrypted then (if s.decryptable then "opens" else "stays-shut") else "clear") ++
      (if i.hasAdvice then (if s.adviceVisible then ",advice-read" else ",advice-unread") else "")
    let out := match i.outcome iss.wire with
      | .identity _ => "identity" | .noIdentity => "none" | .rejected e => "rejected/" ++ errS e
    "idp:" ++ idp ++ " | rcpt:" ++ rc ++ " | " ++ out

def handleOne (c impl : Json) : Json :=
  let i := parseInput c            -- the model follows the current source
  let ip := parseInput c true      -- the specification reads "requested" with the property's constants
  let m := observe i
  let io := parseObs impl
  let failing := ((specClauses ip io).filter (fun p => !p.2)).map (·.1)
  let src := match parseEntry c with | .direct => "" | .requestResponse => "via-request-response " | .ecp => "via-ecp "
  Json.mkObj [("model", obsToJson i m), ("path", Json.str (src ++ pathOf i)),
    ("spec_model", spec ip m), ("spec_impl", spec ip io), ("why", jstrs failing),
    ("classes", Json.mkObj [("early", earlyReturnClass ip.call), ("object_form", objectFormClass ip.call),
                            ("well_posed", wellPosed ip.call), ("plain_accepted", plainAccepted ip)])]

/-- short branch id of one step of a history -/
def shortPath (i : Input) : String :=
  match i.issue with
  | .error _ => "refused"
  | .ok iss =>
    let s := receive i.rc (i.sent iss.wire)
    bodyKindS (bodyKind iss.wire.body) ++ "/" ++ advKindS (advKind iss.wire.body.outer.advice) ++ ":" ++
      (if s.encrypted then (if s.decryptable then "opens" else "shut") else "clear")

/-- A history: the steps one IdP instance / one recipient instance went through, each with the metadata in
    force at that step.  The model answers every step on its own (it is stateless); the specification of the
    history is `specHistory`. -/
def handleHistory (steps impls : List Json) : Json :=
  let inputs := steps.map (fun c => parseInput c)
  let inputsP := steps.map (fun c => parseInput c true)
  let ios := impls.map parseObs
  let ms := observeHistory inputs
  let per := (steps.zip impls).map (fun p => handleOne p.1 p.2)
  let why := (per.zipIdx.map (fun p => (asStrList (arrD p.1 "why")).map (fun w => s!"step{p.2}:{w}"))).flatten
  let anyClass (k : String) : Bool := per.any (fun r => boolD ((obj? r "classes").getD Json.null) k)
  Json.mkObj [("model", Json.mkObj [("steps", jarr (per.map (fun r => (obj? r "model").getD Json.null)))]),
    ("path", Json.str ("history " ++ " > ".intercalate (inputs.map shortPath))),
    ("spec_model", specHistory inputsP ms), ("spec_impl", specHistory inputsP ios), ("why", jstrs why),
    ("classes", Json.mkObj [("early", anyClass "early"), ("object_form", anyClass "object_form"),
                            ("well_posed", anyClass "well_posed"), ("history", true)])]

def handle (line : Json) : Json :=
  let c := (obj? line "case").getD Json.null
  let impl := (obj? line "impl").getD Json.null
  match arr? c "history" with
  | some steps => handleHistory steps (arrD impl "steps")
  | none => handleOne c impl

def main : IO Unit := serve handle
