import PysamlModel.Core.Proto
import PysamlModel.Model.Keys
import PysamlModel.Spec.C03
import PysamlModel.Gen.KeysDefaults
open Lean Proto Keys

/-! Line-protocol driver of C03.  Entity identifiers and key names are `String`s. -/

def parseUse (j : Json) : Option Use :=
  match str? j "use" with
  | some "signing" => some .signing
  | some "encryption" => some .encryption
  | _ => none

/-- One X509Data entry of the case: a certificate name; null = no certificate; "" = an EMPTY
    X509Certificate element (contributes none, fix 2dbe22bb); a list = SEVERAL X509Certificate elements
    in one X509Data, of which the XML→dict conversion of mdstore keeps the last (outside the model). -/
def parseX509 (c : Json) : Option String :=
  let one : Json → Option String := fun j => match asStr? j with | some "" => none | x => x
  match c with
  | .arr a => (a.toList.getLast?).bind one
  | j => one j

/-- "certs": null = KeyInfo without X509Data.  "extras" (KeyName, X509SubjectName, X509IssuerSerial,
    EncryptionMethod, …) publish no key and are no input of the model.  `use=""` is dropped by the parser. -/
def parseKd (j : Json) : KeyDescr String :=
  { use := parseUse j, x509 := ((arr? j "certs").getD []).map parseX509 }

/-- a `use` text outside the schema's enumeration makes mdstore refuse the whole metadata document -/
def validUse (j : Json) : Bool :=
  match j.getObjVal? "use" with
  | .ok (.str "signing") | .ok (.str "encryption") | .ok (.str "") | .ok .null => true
  | .ok _ => false
  | .error _ => true

def parseKind : String → Option RoleKind
  | "spsso" => some .spsso
  | "idpsso" => some .idpsso
  | "authn_authority" => some .authnAuthority
  | "attribute_authority" => some .attributeAuthority
  | "pdp" => some .pdp
  | _ => none

def parseRole (j : Json) : Option (RoleDescr String) :=
  (parseKind (strD j "kind")).map fun k => { kind := k, keys := (arrD j "keys").map parseKd }

def parseEntities (md : Json) : List (String × Entity String) :=
  if (arrD md "entities").all fun e => (arrD e "roles").all fun r => (arrD r "keys").all validUse then
    (arrD md "entities").map fun e => (strD e "id", { roles := (arrD e "roles").filterMap parseRole })
  else []   -- the document does not validate: mdstore loads NO entity from this source

/-- the store as a lookup: single source, entity identifiers unique -/
def mkMd (ents : List (String × Entity String)) : Metadata String String :=
  fun i => (ents.find? (fun p => p.1 == i)).map (·.2)

def tag (t : String) (l : List String) : List String := l.map (t ++ ·)

def lookupTag (md : Metadata String String) (issuer : Option String) : String :=
  match issuer with
  | none => "no-issuer"
  | some i =>
    match md i with
    | none => "unknown-issuer"
    | some ent =>
      match certsAny Gen.KeysDefaults.roleOrder .signing ent with
      | [] => "no-signing-cert"
      | _ => "md-certs"

/-- the issuer's entity has a signing-applicable key descriptor that carries no certificate
    (input class of the repaired defect C03/keyless-keydescriptor-fallback) -/
def keyless (md : Metadata String String) (issuer : Option String) : Bool :=
  match issuer with
  | none => false
  | some i =>
    match md i with
    | none => false
    | some ent => ent.roles.any (fun r => r.keys.any (fun kd => applicable .signing kd && (kdCerts kd).isEmpty))

def kindOfCase (c : Json) : String → CertKind := fun name =>
  match (obj? c "cert_kinds").bind (fun k => str? k name) with
  | some "other" => .other
  | some "malformed" => .malformed
  | _ => .rsa

def parseMsg (j : Json) : Msg String String :=
  let kij := (obj? j "keyinfo").getD Json.null
  -- `_issuer = item.issuer.text.strip()`
  { issuer := (str? j "issuer").map (fun (s : String) => s.trimAscii.toString), signer := str? j "signer",
    keyInfo := { certs := strList kij "certs", rsa := str? kij "rsa" } }

/-- a configuration value as the case writes it -/
def parseForm (c : Json) (k : String) (dflt : CfgForm) : CfgForm :=
  match c.getObjVal? k with
  | .ok (.bool b) => .bool b
  | .ok (.num n) => match (fromJson? (.num n) : Except String Nat) with | .ok v => .int v | .error _ => .textOther
  | .ok (.str "true") => .textTrue
  | .ok (.str "false") => .textFalse
  | .ok (.str "") => .textEmpty
  | .ok (.str _) => .textOther
  | .ok .null => .absent
  | _ => dflt

def envPath (kindOf : String → CertKind) (onlyMd : Bool) (md : Metadata String String) (m : Msg String String)
    (ovc : Bool := false) : String :=
  let r := checkSignatureOvc true kindOf Gen.KeysDefaults.roleOrder onlyMd ovc md m
  let verified := (tryCerts true kindOf m (selectCerts Gen.KeysDefaults.roleOrder onlyMd md m)).1
  let fromMd := (mdCerts Gen.KeysDefaults.roleOrder md m.issuer .signing).getD []
  let nonRsa := if r.handed.any (fun c => kindOf c != .rsa) then "+non-rsa-cert-tried" else ""
  let out :=
    if fromMd.isEmpty then
      if onlyMd then "missing-key/only-md"
      else match r.verdict with
        | .missingKey => "missing-key/no-embedded-cert"
        | .accepted => if r.handed.length ≤ 1 then "fallback/accepted-first" else "fallback/accepted-later"
        | _ => "fallback/rejected"
    else match r.verdict with
      | .accepted => if !verified then "only-valid-cert-lets-through" else
          if r.handed.length ≤ 1 then "accepted-first-cert" else "accepted-later-cert"
      | _ => "none-verifies"
  let out := if fromMd.isEmpty && ovc && r.verdict == .accepted && !verified then "fallback/only-valid-cert-lets-through" else out
  lookupTag md m.issuer ++ "/" ++ out ++ nonRsa

def detPath (kindOf : String → CertKind) (own : String) (md : Metadata String String) (m : Msg String String) : String :=
  let r := redirectCheck kindOf own Gen.KeysDefaults.roleOrder md m.issuer m.signer
  let nonRsa := if r.handed.any (fun c => kindOf c == .other) then "+non-rsa-cert-tried" else ""
  (match r.verdict with
  | .lookupFailed => "lookup-failed:" ++ lookupTag md m.issuer
  | .verifyRaised => "malformed-cert-raises"
  | .accepted => if r.handed.length ≤ 1 then "accepted-first-cert" else "accepted-later-cert"
  | _ => if r.handed.isEmpty then "no-signing-cert" else "none-verifies") ++ nonRsa

def whyNot (pol : Option Bool) (md : Metadata String String) (m : Msg String String) (restrictedImpl : Bool) : String :=
  let bound := boundKeys md m.issuer
  match m.signer with
  | none => "accepted-although-no-key-verifies"
  | some k =>
    if m.keyInfo.certs.contains k || m.keyInfo.rsa == some k then
      if !restrictedImpl then "embedded-key-used-by-unrestricted-xmlsec"
      else if pol.getD true then "embedded-key-accepted-under-metadata-only-policy"
      else if !bound.isEmpty then "fallback-although-metadata-has-keys"
      else "embedded-non-certificate-key-accepted"
    else "unbound-key-accepted"

def handle (line : Json) : Json :=
  let c := (obj? line "case").getD Json.null
  let impl := (obj? line "impl").getD Json.null
  let mdj := (obj? c "md").getD Json.null
  let md := mkMd (parseEntities mdj)
  -- the three options as written; the model takes what the code makes of them
  let cfg := parseForm c "only_md" .absent
  let ovcF := parseForm c "ovc_form" .absent
  let mustF := parseForm c "must_form" (.bool true)
  let onlyMd := normCommon Gen.KeysDefaults.onlyMdDefault cfg
  let ovc := normService ovcF
  let must := normService mustF
  let kindOf := kindOfCase c
  let own := strD c "own" "sp"          -- the receiver's own key in every harness configuration
  let ord := Gen.KeysDefaults.roleOrder
  let m := parseMsg c
  let first := parseMsg ((obj? c "first").getD Json.null)
  let hasKi := !(m.keyInfo.certs.isEmpty && m.keyInfo.rsa.isNone)
  let kindS := strD c "kind"
  -- detached parameters as they arrive; a Signature value that is not a genuine signature verifies under no key
  let alg := strD c "sigalg" "sha256"
  let form := strD c "sigform" "genuine"
  let implemented := ["sha1", "sha224", "sha256", "sha384", "sha512"].contains alg
  let params : DetParams :=
    if alg == "absent" || form == "absent" then .missing else if implemented then .ok else .unimplemented
  -- (for `missing`/`unimplemented` the model does not look at the signer of the detached signature at all)
  let m := if params == .ok && form != "genuine" && (kindS == "redirect" || kindS == "logout_redirect")
           then { m with signer := none }   -- such forms are generated without an enveloped signature
           else m
  -- advice_plain: the advice assertion's own signature is never looked at; only `first` is a checked item
  let (kind, item) : Kind String String × Msg String String :=
    if kindS == "redirect" || kindS == "logout_redirect" then (.detached hasKi params, m)
    else if kindS == "advice_enc" then (.after first true, m)
    else if kindS == "plain_plus_enc" || kindS == "resp_assertion" || kindS == "resp_enc_assertion" then (.after first false, m)
    else if kindS == "advice_plain" then (.enveloped, first)
    else (.enveloped, m)
  let o := accept true kindOf own ord onlyMd ovc must md kind item
  let handed := (tag "x:" o.handedX).eraseDups ++ (tag "r:" o.handedR).eraseDups
  let path :=
    match kind with
    | .enveloped => (if kindS == "advice_plain" then "outer-only/" else "env/") ++ envPath kindOf onlyMd md item ovc
    | .detached env p =>
      let det := if !(must || ovc) then "not-required-not-checked"
        else match p with
          | .missing => "parameter-missing"
          | .unimplemented => "sigalg-not-implemented:" ++ lookupTag md item.issuer
          | .ok => detPath kindOf own md item ++ (if alg != "sha256" then "+alg:" ++ alg else "") ++
                   (if form != "genuine" then "+sig:" ++ form else "")
      if env then
        if (checkSignatureOvc true kindOf ord onlyMd ovc md item).verdict = .accepted then
          "det+env/" ++ envPath kindOf onlyMd md item ovc ++ "|" ++ det
        else "det+env/" ++ envPath kindOf onlyMd md item ovc
      else "det/" ++ det
    | .after f withArg =>
      let pre := if withArg then "advice/" else if kindS == "plain_plus_enc" then "second/" else "in-response/"
      if (checkSignature true kindOf ord onlyMd md f).verdict = .accepted then
        let rel := if item.issuer == f.issuer then "same-issuer" else "other-issuer"
        pre ++ rel ++ "/" ++ envPath kindOf onlyMd md (attributed (if withArg then f.issuer else none) item)
      else pre ++ "first-refused/" ++ envPath kindOf onlyMd md f
  -- a metadata source that was loaded first and dropped by a reload is no input of the model
  let path := if (obj? c "stale").isSome then "after-reload/" ++ path else path
  let implAcc := boolD impl "accepted"
  let specImpl := specKind cfg ovcF mustF md kind item implAcc
  let restrictedImpl := boolD impl "restricted" true
  -- the reasons are judged under the policy the property reads from the written value
  let pcfg : Option Bool := some (policy cfg)
  let why : String :=
    if specImpl then "" else
    match kind with
    | .after f withArg =>
      if !keyOriginB (policy cfg) md f then "first-item:" ++ whyNot pcfg md f restrictedImpl
      else "nested-item:" ++ whyNot pcfg md (attributed (if withArg then f.issuer else none) item) restrictedImpl
    | _ => whyNot pcfg md item restrictedImpl
  Json.mkObj [
    ("model", Json.mkObj [("accepted", o.accepted), ("handed", jstrs handed), ("restricted", true)]),
    ("path", path),
    ("spec_model", specKind cfg ovcF mustF md kind item o.accepted),
    ("spec_impl", specImpl),
    ("why", why),
    ("keyless", keyless md item.issuer),
    ("bound", jstrs (boundKeys md item.issuer))]

def main : IO Unit := serve handle
