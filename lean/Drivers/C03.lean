import PysamlModel.Core.Proto
import PysamlModel.Model.Keys
import PysamlModel.Spec.C03
import PysamlModel.Gen.KeysDefaults
open Lean Proto Keys

/-! Line-protocol driver of C03.  Entity identifiers and key names are `String`s. -/

def parseUse (j : Json) : Option Use :=
  match str? j "use" with
  | some "signing" => some .signing
  | some "encryption" => some .encryption
  | _ => none

/-- "certs": null = KeyInfo without X509Data; a null entry = X509Data without certificate -/
def parseKd (j : Json) : KeyDescr String :=
  { use := parseUse j, x509 := ((arr? j "certs").getD []).map asStr? }

def parseKind : String → Option RoleKind
  | "spsso" => some .spsso
  | "idpsso" => some .idpsso
  | "authn_authority" => some .authnAuthority
  | "attribute_authority" => some .attributeAuthority
  | "pdp" => some .pdp
  | _ => none

def parseRole (j : Json) : Option (RoleDescr String) :=
  (parseKind (strD j "kind")).map fun k => { kind := k, keys := (arrD j "keys").map parseKd }

def parseEntities (md : Json) : List (String × Entity String) :=
  (arrD md "entities").map fun e => (strD e "id", { roles := (arrD e "roles").filterMap parseRole })

/-- the store as a lookup: single source, entity identifiers unique -/
def mkMd (ents : List (String × Entity String)) : Metadata String String :=
  fun i => (ents.find? (fun p => p.1 == i)).map (·.2)

def tag (t : String) (l : List String) : List String := l.map (t ++ ·)

def lookupTag (md : Metadata String String) (issuer : Option String) : String :=
  match issuer with
  | none => "no-issuer"
  | some i =>
    match md i with
    | none => "unknown-issuer"
    | some ent =>
      match certsAny Gen.KeysDefaults.roleOrder .signing ent with
      | [] => "no-signing-cert"
      | _ => "md-certs"

/-- the issuer's entity has a signing-applicable key descriptor that carries no certificate
    (input class of the repaired defect C03/keyless-keydescriptor-fallback) -/
def keyless (md : Metadata String String) (issuer : Option String) : Bool :=
  match issuer with
  | none => false
  | some i =>
    match md i with
    | none => false
    | some ent => ent.roles.any (fun r => r.keys.any (fun kd => applicable .signing kd && (kdCerts kd).isEmpty))

def envPath (onlyMd : Bool) (md : Metadata String String) (m : Msg String String) : String :=
  let r := checkSignature true Gen.KeysDefaults.roleOrder onlyMd md m
  let fromMd := (mdCerts Gen.KeysDefaults.roleOrder md m.issuer .signing).getD []
  let out :=
    if fromMd.isEmpty then
      if onlyMd then "missing-key/only-md"
      else match r.verdict with
        | .missingKey => "missing-key/no-embedded-cert"
        | .accepted => if r.handed.length ≤ 1 then "fallback/accepted-first" else "fallback/accepted-later"
        | _ => "fallback/rejected"
    else match r.verdict with
      | .accepted => if r.handed.length ≤ 1 then "accepted-first-cert" else "accepted-later-cert"
      | _ => "none-verifies"
  lookupTag md m.issuer ++ "/" ++ out

def detPath (md : Metadata String String) (m : Msg String String) : String :=
  let r := redirectCheck Gen.KeysDefaults.roleOrder md m.issuer m.signer
  match r.verdict with
  | .lookupFailed => "lookup-failed:" ++ lookupTag md m.issuer
  | .accepted => if r.handed.length ≤ 1 then "accepted-first-cert" else "accepted-later-cert"
  | _ => if r.handed.isEmpty then "no-signing-cert" else "none-verifies"

def handle (line : Json) : Json :=
  let c := (obj? line "case").getD Json.null
  let impl := (obj? line "impl").getD Json.null
  let mdj := (obj? c "md").getD Json.null
  let md := mkMd (parseEntities mdj)
  let cfg := bool? c "only_md"
  let onlyMd := cfg.getD Gen.KeysDefaults.onlyMdDefault
  let kij := (obj? c "keyinfo").getD Json.null
  let ki : KeyInfo String := { certs := strList kij "certs", rsa := str? kij "rsa" }
  -- `_issuer = item.issuer.text.strip()`
  let m : Msg String String := { issuer := (str? c "issuer").map (fun (s : String) => s.trimAscii.toString), signer := str? c "signer", keyInfo := ki }
  let hasKi := !(ki.certs.isEmpty && ki.rsa.isNone)
  let kindS := strD c "kind"
  let kind : Kind := if kindS == "redirect" then .detached hasKi else .enveloped
  let o := accept true Gen.KeysDefaults.roleOrder onlyMd md kind m
  let handed := (tag "x:" o.handedX).eraseDups ++ (tag "r:" o.handedR).eraseDups
  let path :=
    match kind with
    | .enveloped => "env/" ++ envPath onlyMd md m
    | .detached env =>
      if env then
        if (checkSignature true Gen.KeysDefaults.roleOrder onlyMd md m).verdict = .accepted then
          "det+env/" ++ envPath onlyMd md m ++ "|" ++ detPath md m
        else "det+env/" ++ envPath onlyMd md m
      else "det/" ++ detPath md m
  let implAcc := boolD impl "accepted"
  let specImpl := specAccept cfg md m implAcc
  let bound := boundKeys md m.issuer
  let why : String :=
    if specImpl then "" else
    match m.signer with
    | none => "accepted-although-no-key-verifies"
    | some k =>
      if ki.certs.contains k || ki.rsa == some k then
        if !(boolD impl "restricted" true) then "embedded-key-used-by-unrestricted-xmlsec"
        else if policy cfg then "embedded-key-accepted-under-metadata-only-policy"
        else if !bound.isEmpty then "fallback-although-metadata-has-keys"
        else "embedded-non-certificate-key-accepted"
      else "unbound-key-accepted"
  Json.mkObj [
    ("model", Json.mkObj [("accepted", o.accepted), ("handed", jstrs handed), ("restricted", true)]),
    ("path", path),
    ("spec_model", specAccept cfg md m o.accepted),
    ("spec_impl", specImpl),
    ("why", why),
    ("keyless", keyless md m.issuer),
    ("bound", jstrs bound)]

def main : IO Unit := serve handle
