import PysamlModel.Core.Proto
import PysamlModel.Model.Request
import PysamlModel.Spec.C07
import PysamlModel.Gen.RequestTable
open Lean Proto Request

def truthyS (s : String) : Bool := s != ""
def algOkS (s : String) : Bool := Gen.RequestTable.signerAlgs.contains s

/-- the translator's string code: 0x01 ‖ utf8, big endian -/
def codeOf (s : String) : Nat := s.toUTF8.foldl (fun acc b => acc * 256 + b.toNat) 1

def bindingOf? : String → Option Binding
  | "post" => some .post
  | "redirect" => some .redirect
  | "soap" => some .soap
  | _ => none

def epBOf (j : Json) : EpB :=
  match j with
  | .str "urn:oasis:names:tc:SAML:2.0:bindings:HTTP-POST" => .known .post
  | .str "urn:oasis:names:tc:SAML:2.0:bindings:HTTP-Redirect" => .known .redirect
  | .str "urn:oasis:names:tc:SAML:2.0:bindings:SOAP" => .known .soap
  | .str _ => .foreign
  | _ => .bare

def parseEp (j : Json) : Option (Ep String) :=
  match j with
  | .arr a =>
    match a.toList with
    | [.str u, b] => some { url := u, binding := epBOf b }
    | _ => none
  | _ => none

def parseEps (js : List Json) : List (Ep String) := js.filterMap parseEp

def truthyJ (j : Json) (k : String) : Bool := (bool? j k).getD false

def parseCfg (j : Json) (isIdp : Bool) : Cfg String :=
  { isIdp := isIdp
    own := parseEps (arrD j "own")
    fallback := (arrD j "fallback").map (fun l => parseEps (asArr l))
    wantSigned := truthyJ j "want"
    certOnly := truthyJ j "cert_only"
    validateCert := truthyJ j "validate_cert"
    slack := natD j "slack" }

def parseMd (js : List Json) : List (Cert String) :=
  js.map (fun c => { key := strD c "key", chainOk := boolD c "chain_ok" })

def parseEnv (c : Json) : Enveloped String :=
  match obj? c "env" with
  | none => .absent
  | some e =>
    -- a Signature that is not a child of the request element is not the request's enveloped signature
    if boolD e "as_absent" then .absent
    else .signed (strD e "key") ((bool? e "intact").getD (obj? e "corrupt").isNone)

/-- structural facts about the enveloped signature (defaults: a profile-conformant signature on the
    request element itself, covering it iff nothing was altered afterwards) -/
def parseProfileOk (c : Json) : Bool :=
  match obj? c "env" with
  | none => true
  | some e => (bool? e "profile_ok").getD true
def parseCovers (c : Json) : Bool :=
  match obj? c "env" with
  | none => true
  | some e => (bool? e "covers").getD ((bool? e "intact").getD (obj? e "corrupt").isNone)

def parseDet (c : Json) : Option (DSig String String) :=
  match obj? c "det" with
  | none => none
  | some d =>
    match str? d "garbage" with
    | some _ => some .garbage
    | none => some (.signed (strD d "key") (strD d "msg") (str? d "relay") (strD d "alg"))

def verdictName : Verdict → String
  | .unravelError => "unravel-error"
  | .notThisType => "not-this-type"
  | .signatureMissing => "enveloped-missing"
  | .missingKey => "missing-key"
  | .profileBad => "profile-bad"
  | .signatureBad => "enveloped-bad"
  | .certificateBad => "certificate-bad"
  | .detachedMissing => "detached-missing"
  | .detachedBad => "detached-bad"
  | .notValid => "not-valid"
  | .versionMismatch => "version"
  | .notForMe => "destination"
  | .instantTooOld => "instant-too-old"
  | .instantTooNew => "instant-too-new"
  | .ok => "ok"

/-- model branch id: the verdict, refined on acceptance by what was accepted and on what grounds -/
def pathOf (cfg : Cfg String) (md : List (Cert String)) (m : Msg String String) (v : Verdict) : String :=
  let b := match m.binding with | .post => "post" | .redirect => "redirect" | .soap => "soap"
  let req := if cfg.certOnly then "cert-only" else if cfg.wantSigned then "required" else "optional"
  match v with
  | .ok =>
    let env := match m.enveloped with
      | .absent => "unsigned"
      | _ => if envelopedValid md m then "enveloped-valid" else "enveloped-unverified"
    let det := if m.binding = .redirect && requiresSigned cfg then "+detached" else ""
    let dst := match m.destination.filter truthyS with
      | none => "no-dest"
      | some _ => if (receiverAddrs cfg m.binding).isEmpty then "no-endpoints" else "dest-own"
    s!"ok/{b}/{req}/{env}{det}/{dst}"
  | v => s!"{verdictName v}/{b}/{req}"

/-- the fields of one delivered request (shared by op "parse" and the recv steps of op "history") -/
def parseRecvFields (c : Json) : Except String (TableEntry × Cfg String × Int × Msg String String) :=
  match Gen.RequestTable.table.find? (fun e => e.service == codeOf (strD c "service")), bindingOf? (strD c "binding") with
  | some e, some b =>
    let cfg := parseCfg ((obj? c "cfg").getD Json.null) (strD c "receiver" "idp" == "idp")
    let m : Msg String String :=
      { binding := b, samlRequest := "M", relayState := str? c "relay", sigAlg := str? c "sigalg",
        signature := parseDet c, enveloped := parseEnv c, profileOk := parseProfileOk c, covers := parseCovers c,
        version := strD c "version",
        destination := str? c "dest", issueInstant := int? c "ts",
        instantLexOk := (bool? c "ts_lex_ok").getD true }
    .ok (e, cfg, intD c "now", m)
  | none, _ => .error ("service not in the regenerated table: " ++ strD c "service")
  | _, none => .error ("unknown binding " ++ strD c "binding")

def parseSource (j : Json) : Source String String :=
  { entities := (arrD j "entities").map (fun e => (strD e "entity", parseMd (arrD e "certs"))) }

def parseSources (js : List Json) : List (Source String String) := js.map parseSource

def parseStep (j : Json) : Except String (Step String String) :=
  match j.getObjVal? "reload" with
  | .ok .null => .ok (.reload none)                     -- a specification whose import fails
  | .ok (.arr a) => .ok (.reload (some (parseSources a.toList)))
  | _ =>
    match obj? j "recv" with
    | some c =>
      match parseRecvFields c with
      | .ok (e, cfg, now, m) => .ok (.recv { row := e.row, cfg := cfg, now := now, issuer := strD c "issuer", msg := m })
      | .error err => .error err
    | none => .error "step is neither reload nor recv"

def stepOutName : StepOut → String
  | .reloaded => "reloaded"
  | .reloadFailed => "reload-failed"
  | .verdict v => if v = .ok then "processed" else "rejected"

def flagOfName (s : String) : Bool := s == "processed" || s == "reloaded"

def handle (line : Json) : Json :=
  let c := (obj? line "case").getD Json.null
  let impl := (obj? line "impl").getD Json.null
  match strD c "op" with
  | "parse" =>
    match parseRecvFields c with
    | .ok (e, cfg, now, m) =>
      let md := parseMd (arrD c "md")
      let v := parseRequest algOkS "2.0" truthyS e.row cfg md now m
      let mp := decide (v = .ok)
      let ip := strD impl "r" == "processed"
      let out := fun (p : Bool) => Json.mkObj [("r", if p then "processed" else "rejected")]
      let base := [("model", out mp), ("path", Json.str (pathOf cfg md m v)),
        ("spec_model", Json.bool (specOk "2.0" truthyS cfg md now m mp)),
        ("spec_impl", Json.bool (specOk "2.0" truthyS cfg md now m ip))]
      match specWhy "2.0" truthyS cfg md now m ip with
      | some w => Json.mkObj (base ++ [("why", Json.str w)])
      | none => Json.mkObj base
    | .error err => Json.mkObj [("proto_error", Json.str err)]
  | "history" =>
    match (arrD c "steps").mapM parseStep with
    | .error err => Json.mkObj [("proto_error", Json.str err)]
    | .ok steps =>
      let init := parseSources (arrD c "initial")
      let outs := runHistory algOkS "2.0" truthyS init steps
      let implFlags := (strList impl "steps").map flagOfName
      -- model branch id: the verdicts met after the first reload
      let afterReload := (outs.dropWhile (fun o => match o with | .verdict _ => true | _ => false))
      let tags := (afterReload.map (fun o => match o with
        | .verdict v => verdictName v
        | .reloaded => "reload"
        | .reloadFailed => "reload-failed")).eraseDups
      let base := [("model", Json.mkObj [("steps", jstrs (outs.map stepOutName))]),
        ("path", Json.str ("history/" ++ String.intercalate "+" tags)),
        ("spec_model", Json.bool (specHistory "2.0" truthyS init steps (outs.map StepOut.flag))),
        ("spec_impl", Json.bool (specHistory "2.0" truthyS init steps implFlags))]
      match specHistoryWhy "2.0" truthyS init steps implFlags 0 with
      | some (i, w) => Json.mkObj (base ++ [("why", Json.str s!"step {i}: {w} (judged against the metadata in force at that step)")])
      | none => Json.mkObj base
  | op => Json.mkObj [("proto_error", Json.str ("unknown op " ++ op))]

def main : IO Unit := serve handle
