import PysamlModel.Core.Proto
import PysamlModel.Model.Session
import PysamlModel.Spec.C19
open Lean Proto Session

/-! Line-protocol driver of C19: one line = one history.  `case` = {now0, cfg, steps}; `impl` =
    {steps: [{out, obs}]}.  Answers the model's trace, the specification verdict on the model's trace
    and on the implementation's trace (`spec_impl`: the property as stated, SOAP answers counted;
    `spec_impl_code`: the same clauses with SOAP answers not counted — used only to classify the
    known finding). -/

def big : Nat := 1000000

/-- numbers coming from the implementation side: a negative number (= "not one of the case's names") becomes `big`. -/
def natOf (j : Json) : Nat :=
  match asInt? j with
  | some i => if i < 0 then big else i.toNat
  | none => big

def natsOf (j : Json) : List Nat := (asArr j).map natOf
def fieldNats (j : Json) (k : String) : List Nat := (arrD j k).map natOf
def fieldNat (j : Json) (k : String) : Nat := match obj? j k with | some v => natOf v | none => big
def fieldOptNat (j : Json) (k : String) : Option Nat := (obj? j k).map natOf
def fieldOptInt (j : Json) (k : String) : Option Int := (obj? j k).bind asInt?

def parseBind : String → Bind
  | "redirect" => .redirect | "post" => .post | "soap" => .soap | _ => .none
def bindName : Bind → String
  | .redirect => "redirect" | .post => "post" | .soap => "soap" | .none => "none"
def parseSoap : String → SoapMode
  | "http500" => .http500 | "denied" => .denied | _ => .ok

def parseCfg (j : Json) : Cfg :=
  { idps := (arrD j "idps").map (fun d => { b := parseBind (strD d "b"), soap := parseSoap (strD d "soap" "ok") }) }

def parseAvaList (j : Json) : Ava :=
  (asArr j).map (fun kv => match asArr kv with
    | [k, vs] => (natOf k, natsOf vs)
    | _ => (big, []))

def parseKind : String → LoginKind
  | "ok" => .ok | "audience" => .audience | "expired" => .expired | _ => .destination

def parseOp (j : Json) : Op :=
  match strD j "op" with
  | "login" => .login { s := fieldNat j "s", i := fieldNat j "i", cond := fieldOptInt j "cond", sess := fieldOptInt j "sess",
                        ava := parseAvaList ((obj? j "ava").getD (Json.arr #[])), sidx := fieldOptNat j "sidx",
                        kind := parseKind (strD j "kind") }
  | "identity" => .identity (fieldNat j "s") (fieldNats j "ents") (boolD j "check" true)
  | "info" => .info (fieldNat j "s") (fieldNat j "i") (boolD j "check" true)
  | "stale" => .stale (fieldNat j "s") (fieldNats j "srcs")
  | "advance" => .advance (fieldNat j "dt")
  | "reset" => .reset (fieldNat j "s") (fieldNat j "i")
  | "logout" => .logout (fieldNat j "s") (fieldOptInt j "expire")
  | "resp" =>
    let sel := match strD j "sel" with
      | "pending" => Sel.pending (fieldNat j "n") | "dup" => .dup | _ => .unknown
    let iss := match (obj? j "issuer").bind asInt? with
      | some i => if i < 0 then none else some i.toNat
      | none => none
    .resp sel iss
  | "slo" => .slo (fieldNat j "named") (fieldNat j "current") (parseBind (strD j "b")) (fieldNat j "i")
  | _ => .advance 0

def sortN (l : List Nat) : List Nat := l.mergeSort (fun a b => decide (a ≤ b))

def avaToJson (a : Ava) : Json :=
  Json.mkObj (a.map (fun kv => (toString kv.1, jnats (sortN kv.2))))

def parseAvaObj (j : Json) : Ava :=
  match j with
  | .obj m => m.toList.map (fun kv => ((kv.1.toNat?).getD big, natsOf kv.2))
  | _ => []

def ridToJson (r : ReqId) : Json := jnats [r.step, r.idp]
def parseRid (j : Json) : ReqId :=
  match natsOf j with
  | [a, b] => ⟨a, b⟩
  | _ => ⟨big, big⟩

def sentToJson (r : Sent) : Json :=
  Json.mkObj [("id", ridToJson r.id), ("b", bindName r.b), ("subj", toJson r.subj),
              ("sidx", jnats (match r.sidx with | some n => [n] | none => []))]
def parseSent (j : Json) : Sent :=
  { id := parseRid ((obj? j "id").getD Json.null), b := parseBind (strD j "b"), subj := fieldNat j "subj",
    sidx := (fieldNats j "sidx").head? }

def errName : Err → String
  | .key => "key" | .value => "value" | .tooOld => "tooold" | .logout => "logout" | .attribute => "attribute"
  | .status => "status" | .unsupported => "unsupported" | .noresponse => "noresponse"
def parseErr : String → Err
  | "key" => .key | "value" => .value | "tooold" => .tooOld | "logout" => .logout | "attribute" => .attribute
  | "status" => .status | "unsupported" => .unsupported | _ => .noresponse

def statusName : Status → String
  | .success => "Success" | .requestDenied => "RequestDenied" | .unknownPrincipal => "UnknownPrincipal"
def parseStatus : String → Option Status
  | "Success" => some .success | "RequestDenied" => some .requestDenied | "UnknownPrincipal" => some .unknownPrincipal
  | _ => none

def optNat : Option Nat → Json
  | some n => toJson n
  | none => Json.null

def outToJson : Out → Json
  | .ok => Json.mkObj [("r", "ok")]
  | .accepted => Json.mkObj [("r", "accepted")]
  | .rejected => Json.mkObj [("r", "rejected")]
  | .identity ava old => Json.mkObj [("r", "identity"), ("ava", avaToJson ava), ("old", jnats old)]
  | .info x subj => Json.mkObj [("r", "info"), ("ava", avaToJson x.ava), ("nooa", toJson x.nooa), ("sidx", optNat x.sidx),
                                ("subj", toJson subj)]
  | .empty => Json.mkObj [("r", "empty")]
  | .stale l => Json.mkObj [("r", "stale"), ("l", jnats l)]
  | .sent reqs => Json.mkObj [("r", "sent"), ("reqs", jarr (reqs.map sentToJson))]
  | .timeout => Json.mkObj [("r", "timeout")]
  | .done => Json.mkObj [("r", "done")]
  | .slo st => Json.mkObj [("r", "slo"), ("status", statusName st)]
  | .error e soap => Json.mkObj [("r", "error"), ("e", errName e), ("soap", jarr (soap.map sentToJson))]

def parseOut (j : Json) : Out :=
  match strD j "r" with
  | "ok" => .ok
  | "accepted" => .accepted
  | "rejected" => .rejected
  | "identity" => .identity (parseAvaObj ((obj? j "ava").getD Json.null)) (fieldNats j "old")
  | "info" => .info { ava := parseAvaObj ((obj? j "ava").getD Json.null), nooa := intD j "nooa", sidx := fieldOptNat j "sidx" }
                (fieldNat j "subj")
  | "empty" => .empty
  | "stale" => .stale (fieldNats j "l")
  | "sent" => .sent ((arrD j "reqs").map parseSent)
  | "timeout" => .timeout
  | "done" => .done
  | "slo" => match parseStatus (strD j "status") with
    | some s => .slo s
    | none => .error .noresponse []
  | _ => .error (parseErr (strD j "e")) ((arrD j "soap").map parseSent)

def obsToJson (o : Obs) : Json :=
  let srcs := (sortN o.subjects).map (fun s => jarr [toJson s, jnats (sortN ((Dict.get? s o.sources).getD []))])
  Json.mkObj [("subjects", jnats (sortN o.subjects)), ("sources", jarr srcs),
              ("pending", jarr (o.pending.map ridToJson)), ("logged_in", jnats (sortN o.loggedIn))]

def parseObs (j : Json) : Obs :=
  { subjects := fieldNats j "subjects"
    sources := (arrD j "sources").map (fun p => match asArr p with
      | [s, l] => (natOf s, natsOf l)
      | _ => (big, []))
    pending := (arrD j "pending").map parseRid
    loggedIn := fieldNats j "logged_in" }

def flagsOf (tr : List Ev) (cfg : Cfg) : String :=
  let has (p : Ev → Bool) (n : String) : List String := if tr.any p then [n] else []
  let l :=
    has (fun e => match e.out with | .sent _ => true | _ => false) "sent" ++
    has (fun e => match e.out with | .done => true | _ => false) "done" ++
    has (fun e => match e.out with | .timeout => true | _ => false) "timeout" ++
    has (fun e => match e.out with | .slo .success => true | _ => false) "slo" ++
    has (fun e => match e.op, e.out with | .logout _ _, .error _ _ => true | .resp _ _, .error _ _ => true | _, _ => false) "error" ++
    has (fun e => (emitted e.out).any (fun r => cfg.bind r.id.idp = .soap)) "soap"
  if l.isEmpty then "quiet" else "+".intercalate l

def whyOf (fs : List (Nat × Fail)) : String :=
  ";".intercalate (fs.map (fun p => toString p.1 ++ ":" ++ p.2.name))

def handle (line : Json) : Json :=
  let c := (obj? line "case").getD Json.null
  let impl := (obj? line "impl").getD Json.null
  let cfg := parseCfg ((obj? c "cfg").getD Json.null)
  let now0 := intD c "now0"
  let ops := (arrD c "steps").map parseOp
  let tr := run cfg { now := now0 } ops
  let implSteps := arrD impl "steps"
  let itr : List Ev := (ops.zip implSteps).map (fun p =>
    { op := p.1, out := parseOut ((obj? p.2 "out").getD Json.null), obs := parseObs ((obj? p.2 "obs").getD Json.null) })
  let g0 : Ghost := { now := now0 }
  let fImpl := specTrace true cfg g0 Obs.empty itr
  let fImplCode := specTrace false cfg g0 Obs.empty itr
  let fModel := specTrace true cfg g0 Obs.empty tr
  let fModelCode := specTrace false cfg g0 Obs.empty tr
  let complete := implSteps.length == ops.length
  Json.mkObj [
    ("model", Json.mkObj [("steps", jarr (tr.map (fun e => Json.mkObj [("out", outToJson e.out), ("obs", obsToJson e.obs)])))]),
    ("path", flagsOf tr cfg),
    ("paths", jstrs (tr.map (fun e => pathOf e.op e.out))),
    ("spec_model", fModel.isEmpty),
    ("spec_model_code", fModelCode.isEmpty),
    ("spec_impl", fImpl.isEmpty && complete),
    ("spec_impl_code", fImplCode.isEmpty && complete),
    ("why", whyOf fImpl),
    ("why_code", whyOf fImplCode),
    ("why_model", whyOf fModel)]

def main : IO Unit := serve handle
