import PysamlModel.Core.Proto
import PysamlModel.Model.AttrConv
import PysamlModel.Model.AttrCode
import PysamlModel.Spec.C17
open Lean Proto AttrConv AttrCode

/-! Line-protocol driver of C17.  Every JSON string is turned into its Nat code, the model runs on
    `natOps` (the instance the table lemmas are about), results are decoded for the answer. -/

def enc (s : String) : Nat := s.toUTF8.foldl (fun n b => n * 256 + b.toNat) 1
def dec (n : Nat) : String :=
  let bs := ByteArray.mk ((bytes n).map (fun b => UInt8.ofNat b)).toArray
  match String.fromUTF8? bs with
  | some s => s
  | none => "�<invalid utf-8 " ++ toString n ++ ">"

def encOpt (j : Json) (k : String) : Option Nat := (str? j k).map enc

def parsePairs (j : Json) (k : String) : Option (List (Nat × Nat)) :=
  (arr? j k).map fun l => l.filterMap fun p =>
    match asArr p with
    | [.str a, .str b] => some (enc a, enc b)
    | _ => none

def parseMap (j : Json) : MapDict Nat :=
  { identifier := enc (strD j "identifier"), fro := parsePairs j "fro", to := parsePairs j "to" }

def parseLVal : Json → LVal Nat
  | .str s => .str (enc s)
  | .bool b => .bool b
  | .null => .none
  | j => match asInt? j with
    | some i => .int i
    | none => .none

def parseLVals (j : Json) : LVals Nat :=
  match arr? j "list" with
  | some l => .list (l.map parseLVal)
  | none => .bare (parseLVal ((j.getObjVal? "bare").toOption.getD Json.null))

def parseAva (j : Json) (k : String) : List (Nat × LVals Nat) :=
  (arrD j k).filterMap fun p =>
    match asArr p with
    | [.str a, v] => some (enc a, parseLVals v)
    | _ => none

def parseExt (j : Json) : NameIdExt Nat :=
  { format := encOpt j "format", nameQualifier := encOpt j "nq", spNameQualifier := encOpt j "spnq",
    spProvidedId := encOpt j "spid", text := parseLVal ((j.getObjVal? "text").toOption.getD Json.null) }

def parseValue (j : Json) : WireValue Nat :=
  { text := encOpt j "text", ext := (arrD j "ext").map parseExt }

def parseAttr (j : Json) : WireAttr Nat :=
  { name := encOpt j "name", nameFormat := encOpt j "nf", friendlyName := encOpt j "fn",
    values := (arr? j "values").map (·.map parseValue) }

/-- A value as a peer writes it: "text" is the character content, "xsi_type" the declared type, "conv" what
    Python's int/float/strptime/boolean table make of the text (absent or null: refused). -/
def parseTyped (j : Json) : TypedValue Nat :=
  let o := (obj? j "conv").getD Json.null
  { xsiType := encOpt j "xsi_type", raw := encOpt j "text", ext := (arrD j "ext").map parseExt,
    oracle := { int := encOpt o "int", float := encOpt o "float", bool := encOpt o "bool", date := encOpt o "date" } }

/-- The attribute after parsing its values (`raised`: a value does not fit its declared type). -/
def parseAttrTyped (j : Json) : Res (WireAttr Nat) :=
  let base := parseAttr j
  match arr? j "values" with
  | none => .ok base
  | some vs => match parseValues natOps natTypeOps (vs.map parseTyped) with
    | .raised => .raised
    | .ok ws => .ok { base with values := some ws }

def allOk {β : Type} : List (Res β) → Res (List β)
  | [] => .ok []
  | .raised :: _ => .raised
  | .ok x :: t => match allOk t with
    | .raised => .raised
    | .ok r => .ok (x :: r)

def typedLabels (j : Json) : List String :=
  (arrD j "values").filterMap fun v =>
    match str? v "xsi_type" with
    | none => none
    | some t =>
      let tv := parseTyped v
      let l := natTypeOps.typeLocal (enc t)
      let k := match natTypeOps.kind l with
        | .preserve => "preserve" | .int => "int" | .float => "float" | .bool => "bool" | .date => "date"
      let pre := if t.startsWith "xs:" || t.startsWith "xsd:" then "xs" else if t.contains ':' then "foreign-prefix" else "unprefixed"
      some ("value/typed/" ++ pre ++ "/" ++ k ++ (match parsedText natOps natTypeOps tv.xsiType tv.raw tv.oracle with
        | .raised => "/mismatch" | .ok _ => ""))

def optN : Option Nat → Json
  | some n => Json.str (dec n)
  | none => Json.null

def lvalToJson : LVal Nat → Json
  | .str s => Json.str (dec s)
  | .bool b => Json.bool b
  | .int i => toJson i
  | .none => Json.null

def extToJson (e : NameIdExt Nat) : Json :=
  Json.mkObj [("format", optN e.format), ("nq", optN e.nameQualifier), ("spnq", optN e.spNameQualifier),
    ("spid", optN e.spProvidedId), ("text", lvalToJson e.text)]

def valueToJson (v : WireValue Nat) : Json :=
  Json.mkObj [("text", optN v.text), ("ext", jarr (v.ext.map extToJson))]

def attrToJson (a : WireAttr Nat) : Json :=
  Json.mkObj [("name", optN a.name), ("nf", optN a.nameFormat), ("fn", optN a.friendlyName),
    ("values", match a.values with | none => Json.null | some vs => jarr (vs.map valueToJson))]

def rvalToJson : RVal Nat → Json
  | .str s => Json.str (dec s)
  | .nameId f nq sp spid v =>
    let fields := [("format", f), ("name_qualifier", nq), ("sp_name_qualifier", sp), ("sp_provided_id", spid), ("value", v)]
    Json.mkObj [("NameID", Json.mkObj (fields.filterMap fun (k, o) => o.map fun n => (k, Json.str (dec n))))]

def dictToJson (d : Dict Nat (List (RVal Nat))) : Json :=
  jarr (d.map fun (k, vs) => jarr [Json.str (dec k), jarr (vs.map rvalToJson)])

def parseRVal : Json → RVal Nat
  | .str s => .str (enc s)
  | j =>
    let o := (obj? j "NameID").getD Json.null
    .nameId (encOpt o "format") (encOpt o "name_qualifier") (encOpt o "sp_name_qualifier")
      (encOpt o "sp_provided_id") (encOpt o "value")

def parseDict (j : Json) (k : String) : Dict Nat (List (RVal Nat)) :=
  (arrD j k).filterMap fun p =>
    match asArr p with
    | [.str a, .arr vs] => some (enc a, vs.toList.map parseRVal)
    | _ => none

def wireResToJson : Option (Res (List (WireAttr Nat))) → Json
  | none => Json.mkObj [("r", "none")]
  | some .raised => Json.mkObj [("r", "raised")]
  | some (.ok l) => Json.mkObj [("r", "ok"), ("attrs", jarr (l.map attrToJson))]

def parseWireRes (j : Json) : Option (Res (List (WireAttr Nat))) :=
  match strD j "r" with
  | "ok" => some (.ok ((arrD j "attrs").map parseAttr))
  | "none" => none
  | _ => some .raised

def localResToJson : Option (Res (Dict Nat (List (RVal Nat)))) → Json
  | none => Json.mkObj [("r", "none")]
  | some .raised => Json.mkObj [("r", "raised")]
  | some (.ok d) => Json.mkObj [("r", "ok"), ("ava", dictToJson d)]

def parseLocalRes (j : Json) : Option (Res (Dict Nat (List (RVal Nat)))) :=
  match strD j "r" with
  | "ok" => some (.ok (parseDict j "ava"))
  | "none" => none
  | _ => some .raised

/-- The map set of a case: a sub-list of the bundled maps (by index) or custom dictionaries. -/
def caseMaps (c : Json) : List (MapDict Nat) :=
  let m := (obj? c "maps").getD Json.null
  match arr? m "bundled" with
  | some idx => idx.filterMap fun j => (asNat? j).bind fun i => Gen.AttrMaps.attrMaps[i]?
  | none => (arrD m "custom").map parseMap

def parseSender (c : Json) : Sender Nat :=
  match nat? c "send" with
  | some i => .index i
  | none => .format (enc (strD c "nf"))

/-! model path labels -/

def sendLabel (c : Conv Nat) (e : Nat × LVals Nat) : String :=
  let known := ((Dict.get c.to (natOps.lower e.1)).filter natOps.truthy)
  let kind := match known with
    | some n => if n = natOps.eptidOid then "eptid" else "known"
    | none => "unknown-local"
  let vals := match e.2 with
    | .list [] => "empty-list"
    | .list vs => if vs.all (fun v => match v with | .str _ => true | _ => false) then "strings" else "mixed-types"
    | .bare .none => "bare-none"
    | .bare _ => "bare"
  match toWire1 natOps c e with
  | .raised => "send/" ++ kind ++ "/raised"
  | .ok _ => "send/" ++ kind ++ "/" ++ vals

def recvLabel (acs : List (Conv Nat)) (allow : Bool) (a : WireAttr Nat) : String :=
  let eff := match localStep natOps acs allow a with
    | .put _ _ => "put" | .skip => "skip" | .raised => "raised"
  let route :=
    if acs.isEmpty then
      (if a.nameFormat = some natOps.empty then "no-maps/empty-format"
       else if a.nameFormat = some natOps.unspecified then "no-maps/unspecified"
       else if allow then "no-maps/allowed" else "no-maps/dropped")
    else match pickConv acs a.nameFormat with
      | some c =>
        let shared := (acs.filter (fun c' => some c'.nameFormat = a.nameFormat)).length > 1
        let pre := if shared then "format-shared/" else "format-known/"
        match avaFrom natOps c a with
        | .ok _ => pre ++ (if a.name.isNone then "friendly-name-fallback"
            else if (a.values.getD []).any (fun v => !v.ext.isEmpty) then "name-known/ext-values" else "name-known")
        | .keyError => pre ++ (if allow then "name-unknown/allowed" else "name-unknown/dropped")
        | .attrError => pre ++ "no-name"
        | .raised => pre ++ "values-raise"
      | none =>
        if a.nameFormat = some natOps.unspecified then "format-unspecified-no-map"
        else if a.nameFormat.isNone then (if allow then "format-absent/allowed" else "format-absent/dropped")
        else (if allow then "format-unknown/allowed" else "format-unknown/dropped")
  "recv/" ++ route ++ "/" ++ eff

def dedup (l : List String) : List String := l.foldl (fun acc s => if acc.contains s then acc else acc ++ [s]) []

def summarise (labels : List String) (dflt : String) : String :=
  match dedup labels with
  | [] => dflt
  | [a] => a
  | a :: _ => a ++ "+more"

structure Setup where
  decls : List (C17Spec.DeclMap Nat)     -- what the specification reads off the dictionaries that are maps
  convs : Option (List (Conv Nat))       -- none: a ConverterError was raised while building

/-- Per bundled map, computed once: the converter and the declared pairs. -/
structure Bundled where
  conv : Option (Conv Nat)
  decl : Option (C17Spec.DeclMap Nat)

def bundledTable : List Bundled :=
  (Gen.AttrMaps.attrMaps.zip bundledConvOf).map fun (m, c) =>
    ⟨c, if isMap m then some (C17Spec.declMap natOps m) else none⟩

/-- `acFactory` handles every map on its own, so a sub-list of the bundled maps gives the sub-list of
    the converters built once at start-up. -/
def setupOf (bundled : List Bundled) (c : Json) : Setup :=
  let m := (obj? c "maps").getD Json.null
  match arr? m "bundled" with
  | some idx =>
    let sel := idx.filterMap fun j => (asNat? j).bind fun i => bundled[i]?
    ⟨sel.filterMap (·.decl), some (sel.filterMap (·.conv))⟩
  | none =>
    let maps := caseMaps c
    let decls := (maps.filter isMap).map (C17Spec.declMap natOps)
    if strD c "via" == "from_dict" then ⟨decls, convsFromDicts natOps maps⟩
    else ⟨decls, some (acFactory natOps maps)⟩

def handle (bundled : List Bundled) (line : Json) : Json :=
  let c := (obj? line "case").getD Json.null
  let impl := (obj? line "impl").getD Json.null
  let su := setupOf bundled c
  match su.convs with
  | none =>
    -- building the converters raises: nothing is sent or received
    let isRaised := strD impl "r" == "raised"
    Json.mkObj [("model", Json.mkObj [("r", "raised")]), ("path", "setup/converter-error"), ("paths", jstrs ["setup/converter-error"]),
      ("spec_model", true), ("spec_impl", isRaised)]
  | some acs =>
    let eff := su.decls                  -- the dictionaries that are attribute maps, in converter order
    match strD c "op" with
    | "to_wire" =>
      let s := parseSender c
      let ava := parseAva c "ava"
      let m := (sender acs s).map (fun cv => toWire natOps cv ava)
      let labels := match sender acs s with
        | none => ["send/no-converter-for-format"]
        | some cv => ava.map (sendLabel cv)
      let iv := parseWireRes impl
      let okM := C17Spec.specToWire natOps eff s ava m
      let okI := C17Spec.specToWire natOps eff s ava iv
      let why := C17Spec.whyToWire natOps eff s ava iv
      Json.mkObj [("model", wireResToJson m), ("path", summarise labels "send/empty-identity"), ("paths", jstrs (dedup labels)),
        ("spec_model", okM), ("spec_impl", okI), ("why", jarr (why.map fun (k, n) => jarr [Json.str k, Json.str (dec n)]))]
    | "to_local" =>
      let allow := boolD c "allow"
      let iv := (parseLocalRes impl).getD .raised
      let tlabels := ((arrD c "attrs").map typedLabels).flatten
      match allOk ((arrD c "attrs").map parseAttrTyped) with
      | .raised =>
        -- a value does not fit its declared type: parsing the statement fails; the specification is silent
        Json.mkObj [("model", Json.mkObj [("r", "raised")]), ("path", "recv/typed-value-mismatch"),
          ("paths", jstrs (dedup ("recv/typed-value-mismatch" :: tlabels))),
          ("spec_model", C17Spec.specParsed (Res.raised : Res Unit) (fun _ => false)),
          ("spec_impl", C17Spec.specParsed (Res.raised : Res Unit) (fun _ => false)), ("why", jarr [])]
      | .ok attrs0 =>
      let attrs := if boolD c "xml" then attrs0.map (parsed natOps) else attrs0
      let labels := attrs.map (recvLabel acs allow)
      -- "groups": the attribute statements (lists of indices into "attrs") in the order get_identity reads them
      let groups : Option (List (List (WireAttr Nat))) := (arr? c "groups").map fun gs =>
        gs.map fun g => (asArr g).filterMap fun j => (asNat? j).bind fun i => attrs[i]?
      let (m, okM, okI, why) := match groups with
        | some stmts =>
          (getIdentity natOps acs allow stmts [], C17Spec.specIdentity natOps eff allow stmts (getIdentity natOps acs allow stmts []),
           C17Spec.specIdentity natOps eff allow stmts iv, C17Spec.whyIdentity natOps eff allow stmts iv)
        | none =>
          (listToLocal natOps acs allow attrs, C17Spec.specToLocal natOps eff allow attrs (listToLocal natOps acs allow attrs),
           C17Spec.specToLocal natOps eff allow attrs iv, C17Spec.whyToLocal natOps eff allow attrs iv)
      let labels := if (groups.map (·.length)).getD 1 > 1 then labels.map (fun l => l ++ "/multi-statement") else labels
      Json.mkObj [("model", localResToJson (some m)), ("path", summarise labels "recv/empty-statement"),
        ("paths", jstrs (dedup (labels ++ tlabels))),
        ("spec_model", okM), ("spec_impl", okI), ("why", jarr (why.map fun (k, n) => jarr [Json.str k, Json.str (dec n)]))]
    | "roundtrip" =>
      let s := parseSender c
      let allow := boolD c "allow"
      let ava := parseAva c "ava"
      let m := if boolD c "xml" then roundTripXml natOps acs s allow ava else roundTrip natOps acs s allow ava
      let labels := match sender acs s with
        | none => ["rt/no-converter-for-format"]
        | some cv => match toWire natOps cv ava with
          | .raised => ["rt/send-raised"]
          | .ok w => (ava.map (sendLabel cv)).zipWith (fun a b => "rt/" ++ a ++ ">" ++ b) (w.map (recvLabel acs allow))
      let iv := parseLocalRes impl
      let okM := C17Spec.specRoundTrip natOps eff s allow ava m
      let okI := C17Spec.specRoundTrip natOps eff s allow ava iv
      let why := C17Spec.whyRoundTrip natOps eff s ava iv
      Json.mkObj [("model", localResToJson m), ("path", summarise labels "rt/empty-identity"), ("paths", jstrs (dedup labels)),
        ("spec_model", okM), ("spec_impl", okI), ("why", jarr (why.map fun (k, n) => jarr [Json.str k, Json.str (dec n)]))]
    | "strops" =>
      -- the string operations themselves, against Python's
      let s := enc (strD c "s")
      Json.mkObj [("model", Json.mkObj [("lower", Json.str (dec (natOps.lower s))), ("strip", Json.str (dec (natOps.strip s))),
          ("truthy", natOps.truthy s), ("int", Json.str (dec (natOps.ofInt (intD c "i"))))]),
        ("path", "strops"), ("paths", jstrs ["strops"]), ("spec_model", true), ("spec_impl", true)]
    | op => Json.mkObj [("proto_error", Json.str ("unknown op " ++ op))]

def main : IO Unit := do
  let bundled := bundledTable
  serve (handle bundled)
