import PysamlModel.Core.Proto
import PysamlModel.Model.Idp
import PysamlModel.Spec.C09
import PysamlModel.Gen.IdpDefaults
import PysamlModel.Gen.SpDefaults
open Lean Proto Idp

/-- released attributes as the application sees them / as the XML reader reads them (sorted by the harness) -/
abbrev Ava := List (String × List String)

def D : Defaults := Gen.IdpDefaults.defaults

def parseAva (j : Json) (k : String) : Ava :=
  (arrD j k).filterMap fun p =>
    match asArr p with
    | [n, vs] => (asStr? n).map fun name => (name, asStrList (asArr vs))
    | _ => none

def avaToJson (a : Ava) : Json := jarr (a.map fun (n, vs) => jarr [Json.str n, jstrs vs])

def parseLifetime (j : Json) : Lifetime :=
  { weeks := intD j "weeks", days := intD j "days", hours := intD j "hours", minutes := intD j "minutes",
    seconds := intD j "seconds", milliseconds := intD j "milliseconds" }

def parseSpec (j : Json) : PolicySpec :=
  { lifetime := (obj? j "lifetime").map parseLifetime, nameidFormat := str? j "nameid_format", other := boolD j "other" }

def parsePolicy (j : Json) (k : String) : Restrictions :=
  (arr? j k).map fun es => es.filterMap fun e =>
    match asArr e with
    | [key, v] => (asStr? key).map fun s => (s, match v with | .null => none | v => some (parseSpec v))
    | _ => none

def parseNameId (j : Json) : NameId :=
  { format := str? j "format", spNameQualifier := str? j "spnq", nameQualifier := str? j "nq", text := strD j "text" }

def parsePairs (j : Json) (k : String) : List (String × String) :=
  (arrD j k).filterMap fun p => match asStrList (asArr p) with | [a, b] => some (a, b) | _ => none

/-- a configuration value in the form the case wrote it: boolean, string, integer or absent -/
def cfgVal (j : Json) (k : String) : CfgVal :=
  match j.getObjVal? k with
  | .ok (.bool b) => .bool b
  | .ok (.str s) => .str s
  | .ok (.num n) => match (fromJson? (.num n) : Except String Int) with | .ok i => .int i | .error _ => .unset
  | _ => .unset

/-- `forSpec`: the value as the PROPERTY reads it (defined forms), else as the code loads it. -/
def cfgBool (forSpec : Bool) (v : CfgVal) : Option Bool :=
  if forSpec && C09.formDefined v then C09.cfgReading v else loadBool v

def formName : CfgVal → String
  | .unset => "unset" | .bool _ => "bool" | .int _ => "int"
  | .str s => "str:" ++ s

def parseEntry (s : String) : Entry :=
  match s with
  | "authn_request_response" => .authnRequestResponse
  | "ecp" => .ecp
  | _ => .authnResponse

def parseCfg (forSpec : Bool) (j : Json) : Cfg :=
  { entityId := strD j "entity_id", signResponse := cfgBool forSpec (cfgVal j "sign_response"),
    signAssertion := cfgBool forSpec (cfgVal j "sign_assertion"),
    signingAlg := str? j "signing_algorithm", digestAlg := str? j "digest_algorithm",
    policy := parsePolicy j "policy", domain := str? j "domain", ras := parsePairs j "ras",
    encCerts := strList j "enc_sps", unmet := strList j "unmet_sps" }

def parseArgs (j : Json) : Args Ava :=
  { inResponseTo := strD j "in_response_to", destination := strD j "destination", spEntityId := strD j "sp_entity_id",
    nameIdPolicy := (obj? j "nip").map fun p => { format := str? p "format", spNameQualifier := str? p "spnq" },
    userid := strD j "userid", nameId := (obj? j "name_id").map parseNameId,
    authn := (obj? j "authn").map fun x => { classRef := str? x "class_ref", authnAuth := str? x "authn_auth",
                                             decl := boolD x "decl" },
    farg := (obj? j "farg").bind fun f => if boolD f "empty" then none else some
      { malformed := boolD f "malformed", method := str? f "method", recipient := str? f "recipient", irt := str? f "irt",
        address := str? f "address", notBefore := int? f "nb", notOnOrAfter := int? f "nooa" },
    status := (obj? j "status").map fun st => { top := strD st "top", second := str? st "second" },
    signResponse := bool? j "sign_response", signAssertion := bool? j "sign_assertion",
    signAlg := str? j "sign_alg", digestAlg := str? j "digest_alg", sessionNooa := int? j "session_nooa",
    releasePolicy := (obj? j "release_policy").map fun p => parsePolicy p "policy",
    stored := (arrD j "stored").map parseNameId, now := intD j "now",
    freshId := "FRESH", freshSession := "SESSION", attrs := parseAva j "attrs",
    pefim := boolD j "pefim", bestEffort := bool? j "best_effort", storeFails := boolD j "store_fails" }

def parseSide (j : Json) : C09.SpSide :=
  let b := strD j "binding" "post"
  -- options the SP configuration leaves out: attribute_defaults of client_base.Base.__init__ (regenerated)
  { cfg := { wantResp := (bool? j "want_resp").getD Gen.SpDefaults.wantResponseSigned,
             wantAssert := (bool? j "want_assert").getD Gen.SpDefaults.wantAssertionsSigned,
             wantEither := (bool? j "want_either").getD Gen.SpDefaults.wantAssertionsOrResponseSigned,
             allowUnsolicited := (bool? j "allow_unsolicited").getD Gen.SpDefaults.allowUnsolicited,
             skew := natD j "skew" 0, entityId := strD j "entity_id", returnAddrs := strList j "return_addrs" },
    env := { now := intD j "now", bindingOk := b != "paos", asynchop := !(b == "soap" || b == "paos"),
             outstanding := parsePairs j "outstanding" },
    trusts := boolD j "trusts" true }

/-- the SP options the PROPERTY talks about (its defaults, not the table's) -/
def sideForSpec (j : Json) (s : C09.SpSide) : C09.SpSide :=
  { s with cfg := { s.cfg with wantResp := (bool? j "want_resp").getD true, wantAssert := (bool? j "want_assert").getD false,
                               wantEither := (bool? j "want_either").getD false,
                               allowUnsolicited := (bool? j "allow_unsolicited").getD false } }

/-! ### issued Response ↔ JSON -/

def methodName : Sp.Method → String
  | .bearer => "bearer" | .holderOfKey => "holder-of-key" | .senderVouches => "sender-vouches" | .other => "other"
def parseMethod (s : String) : Sp.Method :=
  match s with
  | "bearer" => .bearer | "holder-of-key" => .holderOfKey | "sender-vouches" => .senderVouches | _ => .other

def sigToJson : Option SigInfo → Json
  | none => Json.null
  | some s => Json.mkObj [("sig_alg", s.sigAlg), ("digest_alg", s.digestAlg)]
def parseSig (j : Json) (k : String) : Option SigInfo :=
  (obj? j k).map fun s => { sigAlg := strD s "sig_alg", digestAlg := strD s "digest_alg" }

def nameIdToJson : Option NameId → Json
  | none => Json.null
  | some n => Json.mkObj [("format", optStr n.format), ("spnq", optStr n.spNameQualifier), ("nq", optStr n.nameQualifier),
                          ("text", n.text)]

def confsToJson (cs : List Conf) : Json :=
  jarr (cs.map fun c => Json.mkObj [("method", methodName c.method), ("recipient", optStr c.recipient),
        ("irt", optStr c.irt), ("nb", optInt c.nb), ("nooa", optInt c.nooa), ("address", optStr c.address)])

def authnToJson (xs : List AuthnOut) : Json :=
  jarr (xs.map fun s => Json.mkObj [("class_ref", optStr s.classRef), ("authn_auth", optStr s.authnAuth),
        ("session_nooa", optInt s.sessionNooa), ("session_index", optStr s.sessionIndex), ("decl", s.decl)])

def adviceToJson (x : AdviceAssertion Ava) : Json :=
  Json.mkObj [("issuer", optStr x.issuer), ("sig", sigToJson x.sig), ("name_id", nameIdToJson x.nameId),
    ("confs", confsToJson x.confs), ("cond_nb", optInt x.condNb), ("cond_nooa", optInt x.condNooa),
    ("audiences", jarr (x.audiences.map jstrs)), ("authn", authnToJson x.authn),
    ("attrs", avaToJson x.attrs), ("advice", jarr []), ("encrypted", x.encrypted)]

def assertionToJson (x : IssuedAssertion Ava) : Json :=
  Json.mkObj [("issuer", optStr x.issuer), ("sig", sigToJson x.sig), ("name_id", nameIdToJson x.nameId),
    ("confs", confsToJson x.confs),
    ("cond_nb", optInt x.condNb), ("cond_nooa", optInt x.condNooa),
    ("audiences", jarr (x.audiences.map jstrs)),
    ("authn", authnToJson x.authn),
    ("attrs", avaToJson x.attrs), ("advice", jarr (x.advice.map adviceToJson))]

def refusalName : Refusal → String
  | .sigAlgNotAllowed => "sigAlgNotAllowed" | .digestAlgNotAllowed => "digestAlgNotAllowed" | .emailNoDomain => "emailNoDomain"
  | .fargMalformed => "fargMalformed" | .hokNoKeyInfo => "hokNoKeyInfo" | .ecpSignedNotElement => "ecpSignedNotElement"
  | .adviceNotElement => "adviceNotElement"

def issuedToJson : Except Refusal (Issued Ava) → Json
  | .error e => Json.mkObj [("r", "refused"), ("why", refusalName e)]
  | .ok r => Json.mkObj [("r", "ok"), ("issuer", optStr r.issuer), ("destination", optStr r.destination),
      ("in_response_to", optStr r.inResponseTo), ("issue_instant", toJson r.issueInstant), ("sig", sigToJson r.sig),
      ("status_top", r.statusTop), ("status_second", optStr r.statusSecond),
      ("assertions", jarr (r.assertions.map assertionToJson))]

def parseConfs (j : Json) : List Conf :=
  (arrD j "confs").map fun c =>
      { method := parseMethod (strD c "method"), recipient := str? c "recipient", irt := str? c "irt",
        nb := int? c "nb", nooa := int? c "nooa", address := str? c "address" }

def parseAuthnOut (j : Json) : List AuthnOut :=
  (arrD j "authn").map fun s =>
      { classRef := str? s "class_ref", authnAuth := str? s "authn_auth", sessionNooa := int? s "session_nooa",
        sessionIndex := str? s "session_index", decl := boolD s "decl" }

/-- an advice element the reader could not open (or that is no assertion) parses to an assertion of nobody -/
def parseAdvice (j : Json) : AdviceAssertion Ava :=
  { encrypted := boolD j "encrypted", issuer := str? j "issuer", sig := parseSig j "sig",
    nameId := (obj? j "name_id").map parseNameId, confs := parseConfs j,
    condNb := int? j "cond_nb", condNooa := int? j "cond_nooa",
    audiences := (arrD j "audiences").map fun r => asStrList (asArr r),
    authn := parseAuthnOut j, attrs := parseAva j "attrs" }

def parseAssertion (j : Json) : IssuedAssertion Ava :=
  { issuer := str? j "issuer", sig := parseSig j "sig", nameId := (obj? j "name_id").map parseNameId,
    confs := parseConfs j,
    condNb := int? j "cond_nb", condNooa := int? j "cond_nooa",
    audiences := (arrD j "audiences").map fun r => asStrList (asArr r),
    authn := parseAuthnOut j,
    attrs := parseAva j "attrs", advice := (arrD j "advice").map parseAdvice }

def parseIssued (j : Json) : Except Refusal (Issued Ava) :=
  if strD j "r" == "ok" then
    .ok { issuer := str? j "issuer", destination := str? j "destination", inResponseTo := str? j "in_response_to",
          issueInstant := intD j "issue_instant", sig := parseSig j "sig",
          assertions := (arrD j "assertions").map parseAssertion,
          statusTop := strD j "status_top", statusSecond := str? j "status_second" }
  else .error .sigAlgNotAllowed   -- which exception is irrelevant to the specification

/-! ### SP outcome ↔ JSON -/

def errName : Sp.Err → String
  | .sigMissingResponse => "sigMissingResponse" | .sigBadResponse => "sigBadResponse" | .unsolicited => "unsolicited"
  | .versionLow => "versionLow" | .versionHigh => "versionHigh" | .versionGarbage => "versionGarbage"
  | .status _ => "status" | .invalidAssertionCount => "invalidAssertionCount" | .authnStmtCount => "authnStmtCount"
  | .sigMissingAssertion => "sigMissingAssertion" | .sigBadAssertion => "sigBadAssertion"
  | .expired => "expired" | .premature => "premature" | .conditionNotOk => "conditionNotOk" | .audience => "audience"
  | .unknownCondition => "unknownCondition" | .noSubject => "noSubject" | .noAttesting => "noAttesting"
  | .unknownMethod => "unknownMethod" | .noScData => "noScData" | .noRecipient => "noRecipient" | .noValidSc => "noValidSc"
  | .bearerUnknownIrt => "bearerUnknownIrt" | .cameFrom => "cameFrom" | .eitherUnsigned => "eitherUnsigned"
  | .unknownBinding => "unknownBinding"
  | .timeForm => "timeForm"
  | .idUndecryptable => "idUndecryptable"

def spToJson (o : Sp.Outcome) (ava : Option Ava) : Json :=
  match o with
  | .identity r => Json.mkObj [("r", "identity"), ("name_id", optStr r.nameId), ("issuer", r.issuer),
      ("came_from", optStr r.cameFrom), ("not_on_or_after", toJson r.notOnOrAfter),
      ("session_index", optStr r.sessionIndex), ("cached", r.cached),
      ("ava", match ava with | some a => avaToJson a | none => Json.null)]
  | .noIdentity => Json.mkObj [("r", "none")]
  | .rejected _ => Json.mkObj [("r", "rejected")]

def parseSp (j : Json) : Sp.Outcome × Option Ava :=
  match strD j "r" with
  | "identity" =>
    (.identity { nameId := str? j "name_id", issuer := strD j "issuer", cameFrom := str? j "came_from",
                 notOnOrAfter := intD j "not_on_or_after", sessionIndex := str? j "session_index",
                 cached := boolD j "cached" },
     if (arr? j "ava").isSome then some (parseAva j "ava") else none)
  | "none" => (.noIdentity, none)
  | _ => (.rejected .sigBadResponse, none)

/-! ### which branches of the model a case takes (for the evidence histogram) -/

def nameIdBranch (cfg : Cfg) (a : Args Ava) : String :=
  let policy := a.releasePolicy.getD cfg.policy
  if a.nameId.isSome then "explicit"
  else if !(findNameid a).isEmpty then "found"
  else
    let fmt := chosenFormat D cfg policy a
    if fmt == D.persistent && (matchLocalId D.persistent a.stored (effectiveSpnq a) cfg.entityId).isSome then "local-match"
    else if fmt == D.email then (if truthy cfg.domain then "fresh-email" else "email-no-domain")
    else if fmt == D.persistent then "fresh-persistent" else "fresh"

def formatBranch (a : Args Ava) : String :=
  match a.nameIdPolicy with
  | none => "nip-absent"
  | some p => (if truthy p.format then "requested" else "nip-no-format") ++ (if truthy p.spNameQualifier then "+spnq" else "")

def policyBranch (p : Restrictions) (sp : String) (ra : Option String) : String :=
  match p with
  | none => "unconfigured"
  | some [] => "empty"
  | some rs =>
    let tag := if (lookupSpec rs sp).isSome then "requester"
      else if (ra.bind (lookupSpec rs)).isSome then "registration-authority"
      else match lookupSpec rs "default" with
        | some s => if s.truthy then "default" else (if (lookupSpec rs "").isSome then "empty-key(default-falsy)" else "default-falsy")
        | none => if (lookupSpec rs "").isSome then "empty-key" else "no-entry"
    tag ++ (if ((applicable rs sp ra).lifetime).isSome then "" else "/no-lifetime")

def sigBranch (r : Issued Ava) : String :=
  (if r.sig.isSome then "R" else "-") ++ (if r.assertions.any (·.sig.isSome) then "A" else "-")

def algBranch (cfg : Cfg) (a : Args Ava) : String :=
  (if truthy a.signAlg then "arg" else if truthy cfg.signingAlg then "cfg" else "default") ++ "/" ++
  (if truthy a.digestAlg then "arg" else if truthy cfg.digestAlg then "cfg" else "default")

def srcBranch (arg cfg : Option Bool) : String :=
  match arg, cfg with
  | some b, _ => "arg=" ++ toString b
  | none, some b => "cfg=" ++ toString b
  | none, none => "default"

def handle (line : Json) : Json :=
  let c := (obj? line "case").getD Json.null
  let impl := (obj? line "impl").getD Json.null
  let idpJ := (obj? c "idp").getD Json.null
  let cfg := parseCfg false idpJ             -- what the code makes of the configuration
  let cfgS := parseCfg true idpJ             -- what the configuration demands (the specification's reading)
  let entry := parseEntry (strD c "entry")
  let aIn := parseArgs ((obj? c "args").getD Json.null)
  let a := forward entry aIn                 -- the sibling entry points do not forward every parameter
  let conv : Conv Ava Ava := { fromLocal := id, toLocal := id }
  let m := issueVia ([] : Ava) entry D cfg aIn
  let implIdp := parseIssued ((obj? impl "idp").getD Json.null)
  let policy := a.releasePolicy.getD cfg.policy
  -- the SP stage
  let sideJ := obj? c "sp"
  let side := sideJ.map parseSide
  let mSp : Option (Sp.Outcome × Option Ava) :=
    match side, m with
    | some s, .ok r => some (endToEndAdv conv s.cfg s.env s.trusts r)
    | _, _ => none
  let implSp : Option (Sp.Outcome × Option Ava) := (obj? impl "sp").map parseSp
  let e2e (out : Except Refusal (Issued Ava)) (sp : Option (Sp.Outcome × Option Ava)) : Bool :=
    match sideJ, side with
    | some j, some s => C09.specE2EX D cfgS a (sideForSpec j s) a.attrs out sp
    | _, _ => true
  let specImpl := C09.specScopingX D cfgS a implIdp && e2e implIdp implSp
  let specModel := C09.specScopingX D cfgS a m && e2e m mSp
  let why := C09.whyScopingX D cfgS a implIdp ++ (if e2e implIdp implSp then [] else ["end-to-end"])
  let path := match m with
    | .error e => "refused/" ++ refusalName e
    | .ok r => if r.assertions.isEmpty then "error-response/sig:" ++ sigBranch r
               else (if a.pefim then "ok-pefim/" else "ok/") ++ "nameid:" ++ nameIdBranch cfg a ++ "/sig:" ++ sigBranch r
  let spBranch : String := match mSp with
    | none => "-"
    | some (.identity _, _) => "identity"
    | some (.noIdentity, _) => "none"
    | some (.rejected e, _) => "rejected/" ++ errName e
  let pre : Bool := match sideJ, side with
    | some j, some s => C09.e2ePre D cfgS a (sideForSpec j s)
    | _, _ => false
  Json.mkObj [
    ("model", Json.mkObj [("idp", issuedToJson m),
                          ("sp", match mSp with | some (o, ava) => spToJson o ava | none => Json.null)]),
    ("path", path),
    ("branches", Json.mkObj [
      ("entry", strD c "entry" "authn_response"),
      ("cfg-form", formName (cfgVal idpJ "sign_response") ++ "|" ++ formName (cfgVal idpJ "sign_assertion")),
      ("nameid", nameIdBranch cfg a), ("format", formatBranch a),
      ("policy", policyBranch policy a.spEntityId (raOf cfg a.spEntityId)),
      ("policy-source", if a.releasePolicy.isSome then "argument" else "configuration"),
      ("sign-response", srcBranch a.signResponse cfg.signResponse),
      ("sign-assertion", srcBranch a.signAssertion cfg.signAssertion),
      ("algorithms", algBranch cfg a),
      ("authn", match authnOut a with
                | [] => if a.authn.isSome then "no-statement(dict)" else "no-statement(none)"
                | s :: _ => if s.classRef.isSome then (if s.authnAuth.isSome then "class+authority" else "class")
                            else if s.decl then "decl" else "bare"),
      ("farg", match a.farg with
               | none => "absent-or-empty"
               | some f =>
                 if f.malformed then "malformed" else
                 let parts := (if f.method.isSome then ["method"] else []) ++ (if f.recipient.isSome then ["recipient"] else []) ++
                   (if f.irt.isSome then ["irt"] else []) ++ (if f.address.isSome then ["address"] else []) ++
                   (if f.notBefore.isSome then ["nb"] else []) ++ (if f.notOnOrAfter.isSome then ["nooa"] else [])
                 if parts.isEmpty then "nothing-preset" else "preset:" ++ "+".intercalate parts),
      ("method", match a.farg.bind (·.method) with
                 | none => "default"
                 | some m => methodName (methodOf D m)),
      ("status", match a.status with
                 | none => "default"
                 | some st => if st.top == C09.successUri then "success" else "error"),
      ("session-nooa", if a.sessionNooa.isSome then "given" else "absent"),
      ("profile", if a.pefim then (if cfg.encCerts.contains a.spEntityId then "pefim/advice-encrypted" else "pefim/advice-clear")
                  else "plain"),
      ("requirement", ((if cfg.unmet.contains a.spEntityId then "unmet" else "none") ++ "/best-effort=" ++
                      (match a.bestEffort with | none => "absent" | some b => toString b) : String)),
      ("store", if a.storeFails then (if a.nameId.isSome then "unreadable(name_id given)" else "unreadable") else "readable"),
      ("sp", spBranch), ("e2e-pre", pre)]),
    ("spec_model", specModel), ("spec_impl", specImpl), ("why", jstrs why)]

def main : IO Unit := serve handle
