import PysamlModel.Core.Proto
import PysamlModel.Model.RedirectSig
import PysamlModel.Spec.C15
open Lean Proto RedirectSig

/-!
  C15 line-protocol driver.  Strings travel as JSON strings and are handed to the model as their
  UTF-8 octets.  Keys are the harness's key names.  A signature travels as a term
  `{"k": key, "d": digest, "m": octets}` / `{"junk": n}`: the harness maps real RSA signature
  octets to the term by trying its public keys (see harness/props/c15.py).

  Codec instance: `enc` = the executable `quotePlus` of the model; `b64e` renders a term as text
  (only ever compared, never shown); `b64d` is the table the harness supplies for the one
  Signature text of the case (what Python's `base64.b64decode` + key trial gave).
-/

def toStr (s : String) : Str := bytesOf s

def ofStr (l : Str) : String :=
  match String.fromUTF8? (ByteArray.mk (l.map (fun n => UInt8.ofNat n)).toArray) with
  | some s => s
  | none => "�<non-utf8:" ++ toString l ++ ">"

def sigToJson : Sig String → Json
  | .signed k d m => Json.mkObj [("k", k), ("d", ofStr d), ("m", ofStr m)]
  | .junk n => Json.mkObj [("junk", toJson n)]

def sigOfJson (j : Json) : Option (Sig String) :=
  match str? j "k", str? j "d", str? j "m" with
  | some k, some d, some m => some (.signed k (toStr d) (toStr m))
  | _, _, _ => (nat? j "junk").map .junk

/-- an injective text rendering of a signature term (stands in for base64 text) -/
def renderSig (s : Sig String) : Str := toStr ("\u0001SIG" ++ (sigToJson s).compress)

/-- `sig_dec` of a case: absent/null → nothing to decode; `{"error":true}` → binascii.Error -/
def decTable (c : Json) (sigText : Option Str) : Str → Option (Sig String) :=
  let v := (obj? c "sig_dec").bind sigOfJson
  fun st => if some st = sigText then v else none

def codecFor (dec : Str → Option (Sig String)) : Codec (Sig String) := ⟨quotePlus, renderSig, dec⟩

def optS (j : Json) (k : String) : Option Str := (str? j k).map toStr

/-- `[[k, v], ...]`; a value is a string, or a signature term (rendered) -/
def parsePairs (js : List Json) : Dict :=
  js.filterMap fun p =>
    match p with
    | .arr a =>
      match a.toList with
      | [.str k, .str v] => some (toStr k, toStr v)
      | [.str k, t] => (sigOfJson t).map fun s => (toStr k, renderSig s)
      | _ => none
    | _ => none

def pairsToJson (d : Dict) (sg : Option (Signed String)) : Json :=
  jarr (d.map fun (k, v) =>
    let vj : Json := match sg with
      | some s => if k = kSignature ∧ v = renderSig s.sig then sigToJson s.sig else Json.str (ofStr v)
      | none => Json.str (ofStr v)
    jarr [Json.str (ofStr k), vj])

def signOutToJson : SignOut String → Json
  | .refused _ => Json.mkObj [("r", "refused")]
  | .ok params sg =>
    Json.mkObj [("r", "ok"), ("params", pairsToJson params sg),
      ("signed", match sg with
        | none => Json.null
        | some s => Json.mkObj [("octets", ofStr s.octets), ("digest", ofStr s.digest),
            ("key", match s.sig with
              | .signed k _ _ => Json.str k
              | .junk _ => Json.null)])]

/-- the implementation's observable, read back into the model's output type -/
def parseSignOut (j : Json) : SignOut String :=
  if strD j "r" == "ok" then
    let params := parsePairs (arrD j "params")
    let sg : Option (Signed String) := (obj? j "signed").bind fun s =>
      match str? s "octets", str? s "digest", str? s "key" with
      | some o, some d, some k => some ⟨toStr o, toStr d, .signed k (toStr d) (toStr o)⟩
      | _, _, _ => none
    .ok params sg
  else .refused .unknownType

def signPath : SignOut String → Bool → String
  | .refused e, _ => "s/refused:" ++ (match e with
      | .unknownType => "unknown-type"
      | .notAllowedEntity => "alg-not-allowed(apply_binding)"
      | .notAllowedPack => "alg-not-allowed(http_redirect_message)"
      | .noSigner => "no-signer"
      | .orderTypeError => "artifact-cannot-be-signed")
  | .ok _ none, _ => "s/unsigned"
  | .ok _ (some _), rs => if rs then "s/signed+relaystate" else "s/signed-no-relaystate"

def voutToJson (o : VOut) : Json :=
  Json.mkObj [("r", Json.str (match o with
    | .verified => "verified"
    | .notVerified => "not_verified"
    | .none => "none"
    | .error _ => "error"))]

def parseVOut (j : Json) : VOut :=
  match strD j "r" with
  | "verified" => .verified
  | "not_verified" => .notVerified
  | "none" => .none
  | _ => .error .keyError

/-- branch id of `verifyRedirect` (coverage statistics only) -/
def verifyPath (T : Tables) (C : Codec (Sig String)) (msg : Dict) (kr : KeyRes String) : String :=
  match msg.get kSigAlg with
  | none => "v/error:no-sigalg"
  | some alg =>
    match Dict.get T.signers alg with
    | none => "v/none:unsupported-sigalg"
    | some dig =>
      let ord := if msg.has kSAMLRequest then some ("req", T.reqOrderV)
        else if msg.has kSAMLResponse then some ("resp", T.respOrderV) else none
      match ord with
      | none => "v/error:no-message"
      | some (dir, ord) =>
        match msg.get kSignature with
        | none => "v/error:no-signature"
        | some st =>
          match kr with
          | .raises => "v/error:malformed-certificate"
          | .under pk =>
          match C.b64d st with
          | none => "v/error:base64"
          | some (.junk _) => "v/false:junk-signature"
          | some (.signed k d m) =>
            let octets := signedString C.enc ord (msg.del kSignature)
            match pk with
            | none => "v/false:no-usable-key"
            | some pk =>
            if pk ≠ pub k then "v/false:other-key"
            else if d ≠ dig then "v/false:other-digest"
            else if m ≠ octets then "v/false:other-octets"
            else "v/verified:" ++ dir

/-- `kind`: "rsa" (default) | "other" (EC, Ed25519, DSA key object) -/
def vkeyOf (name kind : String) : VKey String := if kind == "other" then .other else .rsa (pub name)

/-- certificate argument: `cert` = key name, `cert_kind` = "rsa" | "other" | "malformed" | "empty";
    null or "empty" (a falsy string) = no certificate -/
def certOpt (c : Json) : Option (Cert String) :=
  match str? c "cert" with
  | none => none
  | some name =>
    match strD c "cert_kind" "rsa" with
    | "empty" => none
    | "malformed" => some .malformed
    | kind => some (.holds (vkeyOf name kind))

def sigkeyOpt (c : Json) : Option (VKey String) :=
  (str? c "sigkey").map fun name => vkeyOf name (strD c "sigkey_kind" "rsa")

/-- metadata certificates of the sender: key names, or `{"k": name, "kind": ...}` -/
def certList (c : Json) : List (VKey String) :=
  (arrD c "certs").filterMap fun j =>
    match j with
    | .str name => some (.rsa (pub name))
    | _ => (str? j "k").map fun name => vkeyOf name (strD j "kind" "rsa")

def selfCheck : Bool :=
  kSAMLRequest == toStr "SAMLRequest" && kSAMLResponse == toStr "SAMLResponse" && kSAMLart == toStr "SAMLart" &&
  kRelayState == toStr "RelayState" && kSigAlg == toStr "SigAlg" && kSignature == toStr "Signature" &&
  stdSigners == [
    (toStr "http://www.w3.org/2000/09/xmldsig#rsa-sha1", toStr "sha1"),
    (toStr "http://www.w3.org/2001/04/xmldsig-more#rsa-sha224", toStr "sha224"),
    (toStr "http://www.w3.org/2001/04/xmldsig-more#rsa-sha256", toStr "sha256"),
    (toStr "http://www.w3.org/2001/04/xmldsig-more#rsa-sha384", toStr "sha384"),
    (toStr "http://www.w3.org/2001/04/xmldsig-more#rsa-sha512", toStr "sha512")] &&
  amp == 38 && eqc == 61

def handle (line : Json) : Json :=
  if !selfCheck then Json.mkObj [("proto_error", "hand-written byte constants do not match their strings")] else
  let c := (obj? line "case").getD Json.null
  let impl := (obj? line "impl").getD Json.null
  let T := genTables
  match strD c "op" with
  | "sign" =>
    let C := codecFor (fun _ => none)
    let key := strD c "key"
    let value := toStr (strD c "value")
    let rs := toStr (strD c "relay_state")
    let sigalg := optS c "sigalg"
    let entity := strD c "via" == "entity"
    let typ := if entity then (if boolD c "response" then kSAMLResponse else kSAMLRequest) else toStr (strD c "typ")
    let m : SignOut String :=
      if entity then
        applyBinding T C key (toStr (strD c "cfg_alg")) (boolD c "should_sign") (boolD c "response") value rs
          (bool? c "sign") sigalg
      else redirectMessage T C key typ value rs (boolD c "sign") sigalg
    -- effective inputs of the specification
    let sign' := if entity then (bool? c "sign").getD (boolD c "should_sign") else boolD c "sign"
    let alg' := if entity then some (effAlg (toStr (strD c "cfg_alg")) sigalg) else sigalg
    let iv := parseSignOut impl
    let sm := specSign C key typ value rs sign' alg' m
    let si := specSign C key typ value rs sign' alg' iv
    Json.mkObj [("model", signOutToJson m), ("path", signPath m (rs != [])),
      ("spec_model", sm), ("spec_impl", si),
      ("why", if si then Json.null else Json.str "signer output is not: refused for a disallowed algorithm / the signer's own signature (announced digest) over <typ>=v[&RelayState=rs]&SigAlg=alg with exactly those parameters emitted")]
  | "verify" =>
    let msg := parsePairs (arrD c "msg")
    let C := codecFor (decTable c (msg.get kSignature))
    let own := str? c "own"
    let cert := certOpt c
    let sigkey := sigkeyOpt c
    let m := verifyRedirect T C own msg cert sigkey
    let pk := verificationKey own cert sigkey
    let iv := parseVOut impl
    let si := specVerify C msg pk iv
    Json.mkObj [("model", voutToJson m), ("path", verifyPath T C msg (effKey own cert sigkey)),
      ("spec_model", specVerify C msg pk m), ("spec_impl", si),
      ("why", if si then Json.null else Json.str
        (if iv == .verified then "treated as verified although the Signature is not a signature by the key of the given certificate / sigkey (announced digest) over the received SAMLRequest/SAMLResponse, RelayState and SigAlg"
         else "an authentic signed parameter set was not verified"))]
  | "server" =>
    let origdoc := toStr (strD c "origdoc")
    let signature := optS c "signature"
    let C := codecFor (decTable c signature)
    let own := str? c "own"
    let certs := certList c
    let must := boolD c "must"
    let wf := boolD c "wellformed"
    let rs := optS c "relay_state"
    let sigalg := optS c "sigalg"
    let m := requestAccepted T C own must true wf certs origdoc rs sigalg signature
    let iv := strD impl "r" == "accepted"
    let si := specServer C must true wf certs origdoc rs sigalg signature iv
    let path :=
      if !must then "srv/signature-not-required"
      else match sigalg, signature with
        | some a, some s =>
          let outs := certs.map fun k => verifyRedirect T C own (loadsMsg origdoc a s rs) (some (.holds k)) none
          if certs.isEmpty then "srv/refused:no-certs"
          else match anyVerified outs with
            | some true => if outs.head? == some .verified then "srv/accepted:first-cert" else "srv/accepted:later-cert"
            | some false => if outs.head? == some .none then "srv/refused:unsupported-sigalg" else "srv/refused:not-verified"
            | none => "srv/refused:exception"
        | _, _ => "srv/refused:missing-sigalg-or-signature"
    Json.mkObj [("model", Json.mkObj [("r", if m then "accepted" else "refused")]), ("path", path),
      ("spec_model", specServer C must true wf certs origdoc rs sigalg signature m), ("spec_impl", si),
      ("why", if si then Json.null else Json.str
        (if iv then "request accepted although not authentic under any certificate of the sender"
         else "authentic, well-formed request refused"))]
  | op => Json.mkObj [("proto_error", Json.str ("unknown op " ++ op))]

def main : IO Unit := serve handle
