import PysamlModel.Core.Proto
import PysamlModel.Model.ObjModel
import PysamlModel.Spec.C12
import PysamlModel.Gen.ClassTable
open Lean Proto ObjModel

/-! Line-protocol driver of C12.  Strings: names are turned into the same Nat codes the generated
    table uses (0x01 ‖ utf-8), values/text into code-point lists. -/

def toCode (s : String) : Nat := s.toUTF8.foldl (fun n b => n * 256 + b.toNat) 1
def ofCode (n : Nat) : String :=
  match String.fromUTF8? (ByteArray.mk ((codeBytes n).drop 1 |>.map (·.toUInt8)).toArray) with
  | some s => s
  | none => "?"
def toStr (s : String) : Str := s.toList.map Char.toNat
def ofStr (s : Str) : String := String.ofList (s.map Char.ofNat)

def tableArr : Array ClassDef := Gen.ClassTable.classList.toArray
def T : Nat → ClassDef := fun c => tableArr.getD c emptyClass

def optStrJ : Option Str → Json
  | some s => Json.str (ofStr s)
  | none => Json.null
def jOptStr (j : Json) (k : String) : Option Str := (str? j k).map toStr
def attrsJ (a : Attrs) : Json := jarr (a.map fun p => jarr [Json.str (ofCode p.1), Json.str (ofStr p.2)])
def jAttrs (j : Json) (k : String) : Attrs :=
  (arrD j k).filterMap fun p => match p with
    | .arr #[.str a, .str b] => some (toCode a, toStr b)
    | _ => none

partial def jExt (j : Json) : ExtEl :=
  .mk ((str? j "ns").map toCode) (toCode (strD j "tag")) (jAttrs j "a") ((arrD j "k").map jExt) (jOptStr j "t")
partial def extJ : ExtEl → Json
  | .mk ns tag a k t => Json.mkObj [("ns", match ns with | some n => Json.str (ofCode n) | none => Json.null),
      ("tag", Json.str (ofCode tag)), ("a", attrsJ a), ("k", jarr (k.map extJ)), ("t", optStrJ t)]
partial def jInst (j : Json) : Inst :=
  .mk (natD j "c") ((arrD j "a").map fun v => match v with | .str s => some (toStr s) | _ => none)
    ((arrD j "s").map fun s => (asArr s).map jInst) (jOptStr j "t") ((arrD j "ee").map jExt) (jAttrs j "ea")
partial def instJ : Inst → Json
  | .mk c a s t ee ea => Json.mkObj [("c", toJson c), ("a", jarr (a.map optStrJ)),
      ("s", jarr (s.map fun l => jarr (l.map instJ))), ("t", optStrJ t), ("ee", jarr (ee.map extJ)), ("ea", attrsJ ea)]
partial def jNode (j : Json) : XNode :=
  let q := asArr ((obj? j "q").getD Json.null)
  let ns : Option Nat := match q[0]? with | some (Json.str s) => some (toCode s) | _ => none
  let nm : Nat := match q[1]? with | some (Json.str s) => toCode s | _ => 0
  .mk ⟨ns, nm⟩ (jAttrs j "a") (jOptStr j "t") ((arrD j "k").map jNode)

def jKind (s : String) : Option TKind :=
  match s with
  | "int" => some .int | "float" => some .float | "bool" => some .bool | "date" => some .date | _ => none

/-- conversions computed by the harness with the Python builtins: [[kind, text, result|null], …] -/
def jConv (j : Json) : Conv :=
  let tbl : List (TKind × Str × Option Str) := (arrD j "conv").filterMap fun e =>
    match e with
    | .arr #[.str k, .str t, r] => (jKind k).map fun k => (k, toStr t, match r with | .str s => some (toStr s) | _ => none)
    | _ => none
  fun k t => match tbl.find? (fun e => e.1 == k && e.2.1 == t) with
    | some e => e.2.2
    | none => none

def jDtd (s : String) : Option DtdDecl :=
  match s with
  | "element" => some .element | "attlist" => some .attlist | "notation" => some .notation
  | "comment" => some .comment | "pi" => some .pi | "entity-internal" => some .entityInternal
  | "entity-external" => some .entityExternal | "entity-parameter" => some .entityParameter
  | "entity-unparsed" => some .entityUnparsed | _ => none

/-! model branches taken (for the evidence histogram) -/
partial def branchesNode (E : Env) (c : Nat) (x : XNode) (acc : List String) : List String :=
  let cd := E.T c
  let add (s : String) (acc : List String) := if acc.contains s then acc else s :: acc
  let acc := match cd.kind with
    | .plain => add "class.plain" acc
    | .attrValue =>
      let a := harvestAttrs cd.attrs x.attrs cd.attrInit [(E.K.xsiNil, sTrue)]
      let hasExt := !x.kids.isEmpty
      let t1 : Str := match x.text with | some t => if hasExt then strip t else t | none => []
      let acc := add "class.attrValue" acc
      let acc := if hasExt && x.text.isSome && x.text != some t1 then add "av.text.stripped" acc else acc
      if t1 = [] then add (if hasExt then "av.notext.ext" else "av.notext.nil") acc
      else
        let (ns, tn) := avTypeParts E.K a.2
        let kind := (typeKind tn).getD .str
        let acc := add ("av.kind." ++ (match kind with | .str => "str" | .int => "int" | .float => "float" | .bool => "bool" | .date => "date" | .none => "none")) acc
        let acc := if (typeKind tn).isNone then add "av.type.unknown->string" acc else acc
        let acc := if (dictGet a.2 E.K.xsiType).isNone then add "av.type.absent" acc else acc
        let acc := if ns = [] then add "av.type.noprefix" acc else if ns = [120, 115] then add "av.type.xs" acc else if ns = [120, 115, 100] then add "av.type.xsd" acc else add "av.type.otherprefix" acc
        if (convert E.conv kind t1).isNone then add "av.convert.raises" acc else acc
  let acc := if cd.defaults.any (fun p => !dictHas x.attrs p.1) then add "attr.default.applied" acc else acc
  let acc := if (cd.attrs.zip cd.attrInit).any (fun p => p.2.isSome && !dictHas x.attrs p.1.name) then add "attr.ctor-default.kept" acc else acc
  let acc := if cd.order.isEmpty then acc else add "order.explicit" acc
  let acc := x.attrs.foldl (fun acc p => add (if (attrIdx cd.attrs p.1).isSome then "attr.declared" else "attr.extension") acc) acc
  let acc := match x.text with | some [] => add "text.empty" acc | some _ => add "text.some" acc | none => acc
  let seen : List QName := []
  let (acc, _) := x.kids.foldl (fun (st : List String × List QName) k =>
    let (acc, seen) := st
    match findDecl cd.children k.tag with
    | some (_, d) =>
      match d.cls with
      | some c' =>
        if (E.T c').tag = k.tag then
          let acc := add (if d.isList then "child.list" else if seen.contains k.tag then "child.singleton.overwritten" else "child.singleton") acc
          (branchesNode E c' k acc, k.tag :: seen)
        else (add "child.class-tag-mismatch" acc, seen)
      | none => (add "child.class-none" acc, seen)
    | none => (add "child.extension" acc, seen)) (acc, seen)
  acc

/-- what the wire does to the serialised tree (evidence only) -/
partial def wireBranches (x : XNode) (acc : List String) : List String :=
  let add (s : String) (acc : List String) := if acc.contains s then acc else s :: acc
  let acc := if x.text == some [] then add "wire.empty-text->none" acc else acc
  let acc := match x.text with | some t => if t.contains 13 then add "wire.cr->lf" acc else acc | none => acc
  let acc := if x.attrs.any (fun p => isNsDecl p.1) then add "wire.nsdecl-consumed" acc else acc
  x.kids.foldl (fun acc k => wireBranches k acc) acc

def resJ : ParseResult → Json
  | .refused => Json.mkObj [("r", "refused")]
  | .notThisClass => Json.mkObj [("r", "none")]
  | .raised => Json.mkObj [("r", "raised")]
  | .obj i => Json.mkObj [("r", "obj"), ("o", instJ i)]
def jRes (j : Json) : ParseResult :=
  match strD j "r" with
  | "refused" => .refused
  | "none" => .notThisClass
  | "obj" => .obj (jInst ((obj? j "o").getD Json.null))
  | _ => .raised
def qnameJ (q : QName) : Json :=
  jarr [match q.ns with | some n => Json.str (ofCode n) | none => Json.null, Json.str (ofCode q.name)]
def jQName (j : Json) : QName :=
  let q := asArr j
  { ns := match q[0]? with | some (Json.str s) => some (toCode s) | _ => none,
    name := match q[1]? with | some (Json.str s) => toCode s | _ => 0 }
def rtJ : RtOut → Json
  | .raised => Json.mkObj [("r", "raised")]
  | .obj o same tags => Json.mkObj [("r", "obj"), ("o", instJ o), ("same", same), ("order", jarr (tags.map qnameJ))]
def jRt (j : Json) : RtOut :=
  match strD j "r" with
  | "obj" => .obj (jInst ((obj? j "o").getD Json.null)) (boolD j "same") ((arrD j "order").map jQName)
  | _ => .raised

def handle (line : Json) : Json :=
  let c := (obj? line "case").getD Json.null
  let impl := (obj? line "impl").getD Json.null
  let E : Env := { T := T, K := Gen.ClassTable.avConsts, conv := jConv c }
  match strD c "op" with
  | "rt" =>
    let i := jInst ((obj? c "inst").getD Json.null)
    let m := modelRoundTrip E i
    let shape := instShape T i
    let wf := treeWf T i
    let clean := wireClean E i
    let x := wire (serialise T i)
    let br := branchesNode E i.cls x (wireBranches (serialise T i) [])
    let path := "rt/" ++ (match m with | .raised => "raised" | .obj _ _ _ => if specRoundTrip T i m then "unchanged" else "changed") ++
      (if !shape then "/outside-instance-space" else if wf && clean then "/wf" else
        (if !wf then "/default-unset" else "") ++ (if !clean then "/not-wire-clean" else ""))
    Json.mkObj [("model", rtJ m), ("path", path), ("branches", jstrs br),
      ("spec_model", specRoundTrip T i m), ("spec_impl", specRoundTrip T i (jRt impl)),
      ("why", Json.mkObj [("shape", shape), ("treeWf", wf), ("wireClean", clean)])]
  | "parse" =>
    let cls := natD c "cls"
    let x := jNode ((obj? c "tree").getD Json.null)
    let dtd := (strList c "dtd").filterMap jDtd
    let m := parseDoc E cls dtd x
    let br := match m with | .obj _ => branchesNode E cls x [] | .raised => branchesNode E cls x [] | _ => []
    let path := "parse/" ++ (match m with | .refused => "refused-entities" | .notThisClass => "other-root" | .raised => "raised" | .obj _ => "object")
    Json.mkObj [("model", resJ m), ("path", path), ("branches", jstrs br),
      ("spec_model", specDoc E cls dtd x m), ("spec_impl", specDoc E cls dtd x (jRes impl))]
  | "history" =>
    -- every step judged alone; the model has no state between steps (prefix maps do not reach the tree level)
    let steps := arrD c "steps"
    let isteps := arrD impl "steps"
    let res := steps.zipIdx.map fun (st, k) =>
      let i := jInst ((obj? st "inst").getD Json.null)
      let m := modelRoundTrip E i
      let iv := jRt (isteps.getD k Json.null)
      let ext := strD st "form" == "ext"
      let sp := fun (o : RtOut) => if ext then specRoundTripExt i o else specRoundTrip T i o
      (rtJ m, sp m, sp iv, strD st "form" ++ (if (obj? st "nspair").isSome then "+nspair" else ""))
    let okM := res.all (·.2.1)
    let okI := res.all (·.2.2.1) && isteps.length == steps.length
    let br := res.foldl (fun acc r => if acc.contains ("form." ++ r.2.2.2) then acc else ("form." ++ r.2.2.2) :: acc) []
    Json.mkObj [("model", Json.mkObj [("steps", jarr (res.map (·.1)))]),
      ("path", if okM then "history/all-steps-unchanged" else "history/some-step-changed"), ("branches", jstrs br),
      ("spec_model", okM), ("spec_impl", okI),
      ("why", Json.mkObj [("failing_steps", jnats ((res.zipIdx.filter fun (r, _) => !r.2.2.1).map (·.2)))])]
  | "construct" =>
    -- the instance is the state the real constructor produced (reported by the implementation run)
    if strD impl "r" != "built" then
      Json.mkObj [("model", Json.mkObj [("r", "refused")]), ("path", "construct/refused"), ("spec_model", true), ("spec_impl", true)]
    else
      let i := jInst ((obj? impl "state").getD Json.null)
      let m := modelRoundTrip E i
      let iv := jRt ((obj? impl "rt").getD Json.null)
      let shape := instShape T i
      Json.mkObj [("model", Json.mkObj [("r", "built"), ("rt", rtJ m)]),
        ("path", "construct/" ++ (if !shape then "outside-instance-space" else if specRoundTrip T i m then "unchanged" else "changed")),
        ("branches", jstrs (branchesNode E i.cls (wire (serialise T i)) [])),
        ("spec_model", specRoundTrip T i m), ("spec_impl", shape && specRoundTrip T i iv),
        ("why", Json.mkObj [("shape", shape), ("treeWf", treeWf T i), ("wireClean", wireClean E i)])]
  | "xsdorder" =>
    let cls := natD c "cls"
    let x := jNode ((obj? c "tree").getD Json.null)
    let m := modelXsdOrder E cls x
    let iv : Option (List QName) := if strD impl "r" == "order" then some ((arrD impl "order").map jQName) else none
    let toJ : Option (List QName) → Json := fun
      | some l => Json.mkObj [("r", "order"), ("order", jarr (l.map qnameJ))]
      | none => Json.mkObj [("r", "raised")]
    Json.mkObj [("model", toJ m), ("path", if specXsdOrder x m then "xsdorder/kept" else "xsdorder/reordered"),
      ("branches", jstrs (if (T cls).order.isEmpty then ["order.implicit"] else ["order.explicit"])),
      ("spec_model", specXsdOrder x m), ("spec_impl", specXsdOrder x iv)]
  | "table" =>
    -- diagnostics for a broken table lemma: ids of the classes that are not well-formed
    let bad := (List.range tableArr.size).filter fun k =>
      !(classWf (T k) && (T k).children.all (declSound T))
    Json.mkObj [("model", Json.mkObj [("bad", jnats bad)]), ("path", "table"), ("spec_model", bad.isEmpty), ("spec_impl", true)]
  | op => Json.mkObj [("proto_error", Json.str ("unknown op " ++ op))]

def main : IO Unit := serve handle
