import PysamlModel.Core.Proto
import PysamlModel.Model.Ident
import PysamlModel.Spec.C18
open Lean Proto Ident

def toStr (s : String) : Str := s.toUTF8.toList
def ofStr (s : Str) : String :=
  match String.fromUTF8? ⟨s.toArray⟩ with
  | some x => x
  | none => "�<invalid utf-8>" ++ toString (s.map (·.toNat))

def optS (j : Json) (k : String) : Option Str := (str? j k).map toStr
def jOpt : Option Str → Json
  | some s => Json.str (ofStr s)
  | none => Json.null

def parseNid (j : Json) : NameId :=
  { nq := optS j "nq", spq := optS j "spq", fmt := optS j "fmt", spid := optS j "spid", text := optS j "text" }
def nidJson (n : NameId) : Json :=
  Json.mkObj [("nq", jOpt n.nq), ("spq", jOpt n.spq), ("fmt", jOpt n.fmt), ("spid", jOpt n.spid), ("text", jOpt n.text)]

def parsePol (j : Json) : Policy :=
  { fmt := optS j "fmt", spq := optS j "spq", allowCreate := optS j "allow_create" }

def strs (js : List Json) : List Str := (asStrList js).map toStr

def parseFlt (j : Json) : Nat × Option Str :=
  match j with
  | .arr a => ((a[0]? >>= asNat?).getD 99, (a[1]? >>= asStr?).map toStr)
  | _ => (99, none)

def parseOp (j : Json) (arg : Option Json) (cands : List Str) : Option Op :=
  let u := toStr (strD j "u")
  let n := parseNid (arg.getD ((obj? j "n").getD Json.null))   -- a "ref" is resolved by the harness and recorded with the step
  match strD j "k" with
  | "persistent" => some (.persistent u (optS j "spq") (optS j "nq") cands)
  | "transient" => some (.transient u (optS j "spq") (optS j "nq") cands)
  | "get_nameid" => some (.getNameid u (toStr (strD j "fmt")) (optS j "spq") (optS j "nq") cands)
  | "construct" => some (.construct u (optS j "local_fmt") (optS j "spq") ((obj? j "pol").map parsePol) (optS j "nq") cands)
  | "find_nameid" => some (.findNameid u ((arrD j "flt").map parseFlt))
  | "find_local_id" => some (.findLocalId n)
  | "mapping" => some (.mapping n (parsePol ((obj? j "pol").getD Json.null)) cands)
  | "manage" =>
    let m : Manage := match strD j "m" with
      | "new_id" => .newId (optS j "new_text")
      | "new_encrypted" => .newEncrypted
      | "terminate" => .terminate
      | _ => .noop
    some (.manage n m)
  | "remove_remote" => some (.removeRemote n)
  | "remove_local" => some (.removeLocal u)
  | "store_authn" => some (.storeAuthn n)
  | "authn_count" => some (.authnCount n)
  | "clean_out" => some (.cleanOut n)
  | _ => none

def resJson : Res → Json
  | .nid n => Json.mkObj [("r", "nid"), ("n", nidJson n)]
  | .nids l => Json.mkObj [("r", "nids"), ("l", jarr (l.map nidJson))]
  | .user u => Json.mkObj [("r", "user"), ("u", jOpt u)]
  | .count c => Json.mkObj [("r", "count"), ("c", toJson c)]
  | .done => Json.mkObj [("r", "done")]
  | .refused e => Json.mkObj [("r", "refused"), ("e", Json.str (reprStr e))]

def parseRes (j : Json) : Res :=
  match strD j "r" with
  | "nid" => .nid (parseNid ((obj? j "n").getD Json.null))
  | "nids" => .nids ((arrD j "l").map parseNid)
  | "user" => .user (optS j "u")
  | "count" => .count (natD j "c")
  | "done" => .done
  | _ => .refused .keyError          -- the class is not compared

def applyDelta (db : DB) (d : List Json) : DB :=
  d.foldl (fun db e =>
    match e with
    | .arr a =>
      match a[0]? >>= asStr?, a[1]? >>= asStr? with
      | some k, some v => db.set (toStr k) (toStr v)
      | some k, none => db.del (toStr k)
      | none, _ => db
    | _ => db) db

def deltaOf (P Q : DB) : List Json :=
  let keys := (P.map (·.1) ++ Q.map (·.1)).eraseDups
  keys.filterMap fun k =>
    if P.get k == Q.get k then none
    else some (jarr [Json.str (ofStr k), jOpt (Q.get k)])

def sdbOf (watch : List NameId) (counts : List Nat) : Sdb :=
  (watch.zip counts).map fun (w, c) => (code w, c)

def fmtClass (K : Consts) (f : Option Str) : String :=
  if f == some K.persistent then "persistent" else if f == some K.transient then "transient"
  else if f == some K.email then "email" else "other"

/-- model branch taken by one step -/
def stepPath (K : Consts) (P : State) (op : Op) (r : Res) (Q : State) : String :=
  let created := Q.db.length > P.db.length || (touched op r).any (fun t => !P.db.has t)
  let looped := (opCands op).any (fun c => P.db.has c)
  let issue (name : String) : String :=
    match r with
    | .nid n => name ++ (if created then "/created" ++ (if looped then "+loop" else "") else "/existing") ++ ":" ++ fmtClass K n.fmt
    | .refused e => name ++ "/refused:" ++ reprStr e
    | _ => name ++ "/?"
  match op with
  | .persistent .. => issue "persistent"
  | .transient .. => issue "transient"
  | .getNameid .. => issue "get_nameid"
  | .construct _ _ _ pol _ _ => issue (if pol.isSome then "construct+policy" else "construct")
  | .mapping .. => issue "mapping"
  | .findNameid _ flt => match r with
    | .nids l => "find_nameid/" ++ (if flt.isEmpty then "all" else "filtered") ++ (if l.isEmpty then ":none" else ":some")
    | _ => "find_nameid/refused"
  | .findLocalId _ => match r with | .user (some _) => "find_local_id/found" | _ => "find_local_id/none"
  | .manage _ m => match r with
    | .nid _ => "manage/" ++ (match m with | .newId _ => "new_id" | .newEncrypted => "new_encrypted" | .terminate => "terminate" | .noop => "noop")
    | .refused e => "manage/refused:" ++ reprStr e
    | _ => "manage/?"
  | .removeRemote n => match r with
    | .done => if ((n.text.bind P.db.get).bind (pieces P.db)).isNone then "remove_remote/removed-dangling" else "remove_remote/removed"
    | .refused e => "remove_remote/refused:" ++ reprStr e | _ => "remove_remote/?"
  | .removeLocal _ => "remove_local/noop"
  | .storeAuthn _ => "store_authn"
  | .authnCount _ => match r with | .count 0 => "authn_count/zero" | _ => "authn_count/some"
  | .cleanOut _ => match r with
    | .user (some _) => if Q.sdb.length < P.sdb.length then "clean_out/removed" else "clean_out/nothing-stored"
    | .user none => "clean_out/unknown"
    | _ => "clean_out/refused"

def hashOf (tbl : List (Str × Str)) (x : Str) : Str := (List.lookup x tbl).getD []

def handle (line : Json) : Json :=
  let c := (obj? line "case").getD Json.null
  let impl := (obj? line "impl").getD Json.null
  match strD c "op" with
  | "codec" =>
    let a := parseNid ((obj? c "a").getD Json.null)
    let b := parseNid ((obj? c "b").getD Json.null)
    let dec (n : NameId) : Option NameId := (decode (code n)).toOption
    let optN : Option NameId → Json := fun | some n => nidJson n | none => Json.null
    let m := Json.mkObj [("code_a", Json.str (ofStr (code a))), ("code_b", Json.str (ofStr (code b))),
      ("dec_a", optN (dec a)), ("dec_b", optN (dec b))]
    let iDec (k : String) : Option NameId := (obj? impl k).map parseNid
    let path := "codec/" ++ (if a.norm == b.norm then (if a == b then "same" else "same-up-to-empty") else "different") ++
      (if (codeParts a).isEmpty then "+empty" else "")
    Json.mkObj [("model", m), ("path", path),
      ("spec_model", specCodec a b (code a) (code b) (dec a) (dec b)),
      ("spec_impl", specCodec a b (toStr (strD impl "code_a")) (toStr (strD impl "code_b")) (iDec "dec_a") (iDec "dec_b"))]
  | "decode" =>
    let txt := toStr (strD c "txt")
    let r := decode txt
    let m := match r with
      | .ok n => Json.mkObj [("r", "nid"), ("n", nidJson n)]
      | .error _ => Json.mkObj [("r", "refused")]
    -- arbitrary text: the property says nothing; the model follows the code
    Json.mkObj [("model", m), ("path", match r with | .ok n => (if n == {} then "decode/empty" else "decode/fields") | .error _ => "decode/value-error"),
      ("spec_model", true), ("spec_impl", true)]
  | "hist" =>
    let kc := (obj? c "consts").getD Json.null
    let K : Consts := { persistent := toStr (strD kc "persistent"), transient := toStr (strD kc "transient"), email := toStr (strD kc "email") }
    let cc := (obj? c "cfg").getD Json.null
    let cfg : Cfg := { domain := toStr (strD cc "domain"), nameQualifier := toStr (strD cc "name_qualifier") }
    let users := strs (arrD c "users")
    let watch := (arrD impl "watch").map parseNid
    let opsJ := arrD c "ops"
    let stepsJ := arrD impl "steps"
    -- walk: model state and the implementation's observed state side by side
    let init : State := {}
    let (_, _, outRev, traceRev, mtraceRev, pathsRev, bad) :=
      (opsJ.zip stepsJ).foldl (fun (acc : State × State × List Json × List (Op × Res × State) × List (Op × Res × State) × List String × Option String) (oj, sj) =>
        let (ms, is, out, tr, mtr, ps, bad) := acc
        let cands := strs (arrD sj "cands")
        match parseOp oj (obj? sj "arg") cands with
        | none => (ms, is, out, tr, mtr, ps, some "unparsed op")
        | some op =>
          let (r, ms') := step K cfg ms op
          let counts := watch.map (fun w => cnt ms'.sdb w)
          let o := Json.mkObj [("res", resJson r), ("delta", jarr (deltaOf ms.db ms'.db)), ("counts", jnats counts)]
          let is' : State := { db := applyDelta is.db (arrD sj "delta"), sdb := sdbOf watch (natList sj "counts") }
          let ir := parseRes ((obj? sj "res").getD Json.null)
          (ms', is', o :: out, (op, ir, is') :: tr, (op, r, ms') :: mtr, stepPath K ms op r ms' :: ps, bad))
        (init, init, [], [], [], [], none)
    let trace := traceRev.reverse
    let mtrace := mtraceRev.reverse
    let constsOk := !K.persistent.isEmpty && K.persistent != K.transient
    let ended := (stepsJ.getLast?.bind (fun j => bool? j "crash" <|> bool? j "corrupt")).isSome
    -- an answer handed out earlier changed although no operation was given that object to change
    let aliased := stepsJ.findIdx? (fun j => !(arrD j "mutated").isEmpty)
    let specImpl := constsOk && bad.isNone && !ended && aliased.isNone && opsJ.length == stepsJ.length && specTrace K cfg users watch init trace
    let sameTrace := mtrace.length == trace.length &&
      (mtrace.zip trace).all fun (a, b) => (a.2.1 == b.2.1 || (match a.2.1, b.2.1 with | .refused _, .refused _ => true | _, _ => false)) && (deltaOf a.2.2.db b.2.2.db).isEmpty && watch.map (cnt a.2.2.sdb) == watch.map (cnt b.2.2.sdb)
    let specModel := if sameTrace && bad.isNone && opsJ.length == stepsJ.length then specImpl
      else constsOk && specTrace K cfg users watch init mtrace
    -- first step at which the implementation's trace fails, for the replay file
    let why : Option String :=
      if specImpl then none
      else if let some i := aliased then
        some s!"step {i}: an identifier object handed out earlier was changed behind the caller's back (aliasing): {Json.compress (jarr (arrD (stepsJ.getD i Json.null) "mutated"))}"
      else
        let rec find (P : State) (i : Nat) : List (Op × Res × State) → String
          | [] => if opsJ.length != stepsJ.length || (stepsJ.getLast?.bind (fun j => bool? j "crash" <|> bool? j "corrupt")).isSome
              then s!"the implementation's history ended at step {stepsJ.length - 1}: the call broke down or left a non-string key/value in the store"
              else "format constants unusable"
          | (op, res, Q) :: rest =>
            if opOk users cfg op && stOk K cfg P.db op then
              if specStep K users watch P op res Q then find Q (i + 1) rest
              else s!"step {i}: rev={revOk users Q.db} distinct={distinctOk users Q.db} unique={uniqueRegOk K users Q.db} frame={frameOk users P.db Q.db op res} res={resOk K users P.db Q.db op res} sdb={sdbOk watch P Q op res}"
            else "out of scope"
        some (find init 0 trace)
    let scope : String :=
      let rec lv (P : State) : List (Op × Res × State) → Bool
        | [] => true
        | (op, _, Q) :: rest => if opOk users cfg op && stOk K cfg P.db op then lv Q rest else false
      if lv init mtrace then "hist/in-scope" else "hist/leaves-scope"
    Json.mkObj ([("model", Json.mkObj [("steps", jarr outRev.reverse)]),
      ("path", Json.str scope),
      ("paths", jarr (pathsRev.reverse.map Json.str)),
      ("spec_model", specModel), ("spec_impl", specImpl)] ++
      (match why with | some w => [("why", Json.str w)] | none => []))
  | "eptid" =>
    let secret := toStr (strD c "secret")
    let idp := toStr (strD c "idp")
    let calls : List (Str × Str) := (arrD c "calls").map fun j =>
      match j with
      | .arr a => (toStr ((a[0]? >>= asStr?).getD ""), toStr ((a[1]? >>= asStr?).getD ""))
      | _ => ([], [])
    let tbl : List (Str × Str) := (arrD c "md5").map fun j =>
      match j with
      | .arr a => (toStr ((a[0]? >>= asStr?).getD ""), toStr ((a[1]? >>= asStr?).getD ""))
      | _ => ([], [])
    let vals := (eptidRun (hashOf tbl) secret idp [] calls).1
    let ivals := strs (arrD impl "vals")
    let keys := calls.map (fun c => eptidKey c.1 c.2)
    let collide := (List.range calls.length).any fun i => (List.range calls.length).any fun j =>
      calls[i]? != calls[j]? && keys[i]? == keys[j]?
    let repeat_ := (List.range calls.length).any fun i => (List.range calls.length).any fun j => i < j && calls[i]? == calls[j]?
    Json.mkObj [("model", Json.mkObj [("vals", jstrs (vals.map ofStr))]),
      ("path", Json.str ("eptid/" ++ (if collide then "key-collision" else if repeat_ then "cached" else "all-new"))),
      ("spec_model", specEptid calls vals), ("spec_impl", specEptid calls ivals)]
  | op => Json.mkObj [("proto_error", Json.str ("unknown op " ++ op))]

def main : IO Unit := serve handle
