import PysamlModel.Core.Proto
import PysamlModel.Model.Xsw
import PysamlModel.Spec.C02
open Lean Proto Xsw

partial def parseTree (j : Json) : XNode :=
  match str? j "x" with
  | some s => .text s
  | none =>
    match obj? j "d" with
    | some t => .digest (parseTree t)
    | none =>
      match obj? j "o" with
      | some t => .sigval (natD j "s") (parseTree t)
      | none =>
        match str? j "j" with
        | some s => .junk s
        | none =>
          let attrs := (arrD j "a").filterMap fun p =>
            match asStrList (asArr p) with
            | [k, v] => some (k, v)
            | _ => none
          .elem (strD j "t") attrs ((arrD j "c").map parseTree)

def handle (line : Json) : Json :=
  let impl := (obj? line "impl").getD Json.null
  let calls := arrD impl "calls"
  let results := calls.map fun c =>
    let doc := parseTree ((obj? c "tree").getD Json.null)
    match (arr? c "item_path").map (fun l => l.filterMap asNat?), nat? c "key" with
    | some p, some k => checkSignature doc p (strD c "node_name") k (boolD c "schema_ok" true)
    | _, _ => false       -- item not found in the document / no metadata key for the issuer (MissingKey)
  let outcome := (obj? impl "outcome").getD Json.null
  let origs := (arrD impl "origs").map Json.compress
  let out : Option String := if strD outcome "r" == "identity" then some (Json.compress outcome) else none
  let accepted := results.filter id
  Json.mkObj [("model", Json.mkObj [("calls", jarr (results.map Json.bool))]),
    ("path", Json.str (toString calls.length ++ "calls/" ++ toString accepted.length ++ "ok/" ++ strD outcome "r")),
    ("spec_model", true),
    ("spec_impl", specCovered origs out)]

def main : IO Unit := serve handle
