import PysamlModel.Core.Proto
import PysamlModel.Model.Xsw
import PysamlModel.Model.XswFlow
import PysamlModel.Spec.C02
open Lean Proto Xsw

partial def parseTree (j : Json) : XNode :=
  match str? j "x" with
  | some s => .text s
  | none =>
    match obj? j "d" with
    | some t => .digest (parseTree t)
    | none =>
      match obj? j "o" with
      | some t => .sigval (natD j "s") (parseTree t)
      | none =>
        match str? j "j" with
        | some s => .junk s
        | none =>
          let attrs := (arrD j "a").filterMap fun p =>
            match asStrList (asArr p) with
            | [k, v] => some (k, v)
            | _ => none
          .elem (strD j "t") attrs ((arrD j "c").map parseTree)

/-- the flow of `parse_assertion` (Model/XswFlow.lean) on the received and the decrypted document; the check is
    `Xsw.checkSignature`, its two per-call inputs (schema verdict of the re-serialised item, presence of a metadata
    key for the issuer) come from the implementation's call on the same (document, ID) where there is one -/
def handleFlow (fl : Json) : Json :=
  if (str? fl "skip").isSome then Json.mkObj [("skip", Json.bool true)] else
  let recv := parseTree ((obj? fl "recv").getD Json.null)
  let decr := match obj? fl "decr" with
    | some t => if t.isNull then recv else parseTree t
    | none => recv
  let hints := arrD fl "hints"
  let idAt := fun (d : Bool) (p : Path) => (nodeAt (if d then decr else recv) p).bind (·.attr "ID")
  let hintFor := fun (d : Bool) (p : Path) =>
    hints.find? (fun h => boolD h "decr" == d && str? h "id" == idAt d p)
  let chk := fun (d : Bool) (p : Path) =>
    let schemaOk := match hintFor d p with | some h => boolD h "schema_ok" true | none => true
    let keyOk := match hintFor d p with | some h => (nat? h "key").isSome | none => true
    keyOk && checkSignature (if d then decr else recv) p tAssertion 1 schemaOk
  let r := flow recv decr (boolD fl "require_sig" true) chk
  Json.mkObj [
    ("calls", jarr (r.calls.map fun (c : Bool × Path × Bool) => Json.mkObj [("decr", Json.bool c.1), ("id", optStr (idAt c.1 c.2.1)),
        ("path", jarr (c.2.1.map (fun (n : Nat) => toJson n))), ("result", Json.bool c.2.2)])),
    ("verdict", Json.str (if r.adopted.isSome then "adopted" else "refused")),
    ("adopted", jarr ((r.adopted.getD []).map fun (a : Adopted) => optStr (idAt a.isDecr a.path)))]

def handle (line : Json) : Json :=
  let impl := (obj? line "impl").getD Json.null
  let calls := arrD impl "calls"
  let results := calls.map fun c =>
    let doc := parseTree ((obj? c "tree").getD Json.null)
    match (arr? c "item_path").map (fun l => l.filterMap asNat?), nat? c "key" with
    | some p, some k => checkSignature doc p (strD c "node_name") k (boolD c "schema_ok" true)
    | _, _ => false       -- item not found in the document / no metadata key for the issuer (MissingKey)
  let outcome := (obj? impl "outcome").getD Json.null
  let origs := (arrD impl "origs").map Json.compress
  let out : Option String := if strD outcome "r" == "identity" then some (Json.compress outcome) else none
  let accepted := results.filter id
  let flowJ := match obj? impl "flow" with
    | some fl => if fl.isNull then Json.null else handleFlow fl
    | none => Json.null
  let fpath := match str? flowJ "verdict" with | some v => "/flow:" ++ v | none => ""
  Json.mkObj [("model", Json.mkObj [("calls", jarr (results.map Json.bool)), ("flow", flowJ)]),
    ("path", Json.str (toString calls.length ++ "calls/" ++ toString accepted.length ++ "ok/" ++ strD outcome "r" ++ fpath)),
    ("spec_model", true),
    ("spec_impl", specCovered origs out)]

def main : IO Unit := serve handle
