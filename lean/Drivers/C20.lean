/-
  C20 driver.  Input line: {"case": {threads, extra_keys, schedule, workers?, preempt?}, "impl": {allowed, signer_algs, trace, events}}.
  `workers` (which OS thread serves which logical thread) and `preempt` (statement-level preemption point) are
  harness-side execution parameters: the model's threads are the logical callers, its answer depends on neither.
  The two algorithm tables are the ones the harness read from the running pysaml2 (`SIG_ALLOWED_ALG`,
  `SIGNER_ALGS`); the property theorems hold for every table.
  Answer: the repaired-design model's trace and observable on the COMPLETED schedule ("model"), the
  shared-mutable-key design's ("model_shared"), which of the two the implementation's output equals
  ("like"), the model path, and the specification evaluated on both observables.
-/
import PysamlModel.Core.Proto
import PysamlModel.Model.Signer
import PysamlModel.Spec.C20
open Lean Proto Signer

abbrev K := String
abbrev A := String
abbrev M := Nat

def parseSig (j : Json) : Sig K A M := ⟨strD j "key", strD j "alg", natD j "msg"⟩

def parseOp (j : Json) : Option (Op K A M) :=
  match strD j "op" with
  | "sign" => some (.sign (strD j "alg") (natD j "msg"))
  | "verify" => some (.verify (strD j "alg") (natD j "msg") (parseSig ((obj? j "sig").getD Json.null))
                        (str? j "cert") (str? j "sigkey"))
  | "setup" => some (.setup (natD j "path") (strD j "content"))
  | _ => none

def parseThread (j : Json) : Thread K A M :=
  { key := strD j "key", prog := (arrD j "prog").filterMap parseOp }

def pointCode : Point → String
  | .pad => "P" | .getSigner => "G" | .sign => "S" | .verify => "V"

def branchTag : Branch → String
  | .signNotAllowed => "sign/alg-not-allowed"
  | .signNoSigner => "sign/no-signer"
  | .signGetSigner => "sign/get-signer"
  | .signSign => "sign/sign"
  | .verifyNoSigner => "verify/no-signer"
  | .verifyGetSigner => "verify/get-signer"
  | .verifyExplicitKey => "verify/explicit-key"
  | .verifySignerKey => "verify/signer-key"
  | .setupEntity => "setup/entity"

def branchCode : Branch → String
  | .signNotAllowed => "sNA" | .signNoSigner => "sNS" | .signGetSigner => "sG" | .signSign => "sS"
  | .verifyNoSigner => "vNS" | .verifyGetSigner => "vG" | .verifyExplicitKey => "vX" | .verifySignerKey => "vK"
  | .setupEntity => "sE"

def allBranches : List Branch :=
  [.signNotAllowed, .signNoSigner, .signGetSigner, .signSign,
   .verifyNoSigner, .verifyGetSigner, .verifyExplicitKey, .verifySignerKey, .setupEntity]

def traceJson (tr : List (Nat × Branch)) : Json :=
  jarr (tr.map fun (t, b) => jarr [toJson t, Json.str (pointCode b.point)])

def obsJson (t i : Nat) : Obs K → Json
  | .refused => Json.mkObj [("t", toJson t), ("i", toJson i), ("r", "refused")]
  | .crashed => Json.mkObj [("t", toJson t), ("i", toJson i), ("r", "crash")]
  | .signed vs none => Json.mkObj [("t", toJson t), ("i", toJson i), ("r", "sig"), ("verifiers", jstrs vs), ("intact", true)]
  | .signed vs (some a) => Json.mkObj [("t", toJson t), ("i", toJson i), ("r", "sig"), ("verifiers", jstrs vs), ("intact", true), ("accepted", a)]
  | .verified ok => Json.mkObj [("t", toJson t), ("i", toJson i), ("r", "verified"), ("ok", ok)]
  | .setupDone => Json.mkObj [("t", toJson t), ("i", toJson i), ("r", "setup")]

def parseObs (j : Json) : Nat × Nat × Obs K :=
  (natD j "t", natD j "i",
   match strD j "r" with
   | "refused" => .refused
   | "sig" => .signed (strList j "verifiers") (bool? j "accepted")
   | "verified" => .verified (boolD j "ok")
   | "setup" => .setupDone
   | _ => .crashed)

def parseTrace (j : Json) : List (Nat × String) :=
  (arrD j "trace").map fun e => match asArr e with
    | [a, b] => ((asNat? a).getD 0, (asStr? b).getD "?")
    | _ => (0, "?")

/-- some thread's get_signer and its following sign/verify are separated by another thread's action -/
def interleaved (tr : List (Nat × Branch)) : Bool :=
  let rec go (l : List (Nat × Branch)) (prev : Option Nat) (open_ : List Nat) : Bool :=
    match l with
    | [] => false
    | (t, b) :: rest =>
      match b with
      | .signGetSigner | .verifyGetSigner => go rest (some t) (t :: open_.filter (· != t))
      | .signSign | .verifyExplicitKey | .verifySignerKey =>
          if prev != some t then true else go rest (some t) (open_.filter (· != t))
      | _ => go rest (some t) open_
  go tr none []

def noopTags (tb : Tables A) (threads : List (Thread K A M)) (sched : List Nat) : List String :=
  let rec go (g : State K A M) (l : List Nat) (acc : List String) : List String :=
    match l with
    | [] => acc
    | t :: rest =>
      let g' := step tb g t
      let acc := if g'.trace.length == g.trace.length then
                   (if t < threads.length then "slot/finished-thread" else "slot/no-such-thread") :: acc
                 else acc
      go g' rest acc
  (go (init threads) sched []).eraseDups

def firstBad (tb : Tables A) (pub : Option (K → List K)) (threads : List (Thread K A M))
    (obs : List (Nat × Nat × Obs K)) : Option String :=
  (obs.find? fun p => !specEntry tb pub threads p).map fun p =>
    match threads[p.1]? with
    | none => s!"result attributed to unknown thread {p.1}"
    | some th =>
      let own := keyAfter th.key (th.prog.take p.2.1)
      match th.prog[p.2.1]?, p.2.2 with
      | some (.sign _ _), .signed vs acc =>
          if vs.contains own && vs.all (· == own) then
            s!"thread {p.1} op {p.2.1} (entity key {own}): receiver whose metadata publishes {(pub.map (· own)).getD []} for the issuer answered accepted={acc}"
          else
            s!"thread {p.1} op {p.2.1} (entity key {own}): signature verifies under {vs}, must verify under {own} and no other key"
      | some (.verify _ _ sig (some c) _), .verified ok =>
          s!"thread {p.1} op {p.2.1} (verifier backend {own}): signature made by {sig.key} checked against certificate {c} gives {ok}"
      | _, _ => s!"thread {p.1} op {p.2.1}: result does not belong to the operation at that index"

def handle (line : Json) : Json :=
  let c := (obj? line "case").getD Json.null
  let impl := (obj? line "impl").getD Json.null
  let threads := (arrD c "threads").map parseThread
  let extra := strList c "extra_keys"
  let sched := natList c "schedule"
  let allowed := strList impl "allowed"
  let signerAlgs := strList impl "signer_algs"
  let tb : Tables A := { allowed := fun a => allowed.contains a, hasSigner := fun a => signerAlgs.contains a }
  let full := complete threads sched
  let univ := certUniverse threads extra
  -- "published": {issuer key name: [certificate names in metadata order]} = what the receiver's metadata lists
  let pub : Option (K → List K) := (obj? c "published").map fun pj => fun k => strList pj k
  let g := run tb threads full
  let gs := runSh tb threads full
  let mObs := observe threads univ pub g.out
  let sObs := observe threads univ pub gs.out
  let mTrace := g.trace.map fun (t, b) => (t, pointCode b.point)
  let sTrace := gs.trace.map fun (t, b) => (t, pointCode b.point)
  let iObs := (arrD impl "events").map parseObs
  let iIntact := (arrD impl "events").all fun e => strD e "r" != "sig" || boolD e "intact"
  let iTrace := parseTrace impl
  -- streams: "gates" (call-boundary gates, one OS thread per logical thread), "pool" (several logical threads per
  -- OS thread; the model's threads stay the logical callers), "preempt" (one statement-level preemption: no gate
  -- trace, results compared per logical thread because the model's answer does not depend on the preemption point)
  let preempt := (obj? c "preempt").isSome
  let nWorkers := (natList c "workers").eraseDups.length
  let stream := if preempt then "preempt" else if (arr? c "workers").isSome then s!"pool{nWorkers}" else "gates"
  let canon : List (Nat × Nat × Obs K) → List (Nat × Nat × Obs K) := fun l =>
    if preempt then (List.range threads.length).flatMap (fun t => l.filter (fun p => p.1 == t)) else l
  let sameTrace : List (Nat × String) → Bool := fun tr => preempt || decide (iTrace = tr)
  let likeM := decide (canon iObs = canon mObs) && sameTrace mTrace && iIntact
  let likeS := decide (canon iObs = canon sObs) && sameTrace sTrace && iIntact
  let like := if likeM && likeS then "both" else if likeM then "per-call" else if likeS then "shared" else "neither"
  let race := !(decide (mObs = sObs))
  let cls := if preempt then (if boolD impl "held" then "held" else "not-reached")
             else if race then "race" else if interleaved g.trace then "interleaved" else "sequential"
  let hit := allBranches.filter fun b => g.trace.any fun p => p.2 == b
  let noops := noopTags tb threads sched
  let tags := hit.map branchTag ++ noops
  let codes := hit.map branchCode ++ noops.map fun s => if s == "slot/finished-thread" then "xF" else "xT"
  let path := s!"{stream}/{threads.length}t/{cls}/{"+".intercalate codes}"
  let specI := specOk tb pub threads iObs
  let base : List (String × Json) :=
    [("model", Json.mkObj [("trace", traceJson g.trace), ("events", jarr (mObs.map fun p => obsJson p.1 p.2.1 p.2.2))]),
     ("model_shared", if race || decide (mTrace ≠ sTrace) then
        Json.mkObj [("trace", traceJson gs.trace), ("events", jarr (sObs.map fun p => obsJson p.1 p.2.1 p.2.2))]
      else Json.str "same-as-model"),
     ("like", like), ("class", cls), ("stream", stream), ("tags", jstrs tags), ("path", path),
     ("spec_model", specOk tb pub threads mObs), ("spec_impl", specI)]
  let why : List (String × Json) :=
    if specI then [] else
      [("why", Json.str ((firstBad tb pub threads iObs).getD "?" ++
         (if likeS && !likeM then "; the implementation's output equals the SHARED-MUTABLE-KEY model (design before fix d2fa3ada)" else "")))]
  Json.mkObj (base ++ why)

def main : IO Unit := serve handle
