import PysamlModel.Core.Proto
import PysamlModel.Model.Sp
import PysamlModel.Spec.Sp
import PysamlModel.Gen.StatusCodes
import PysamlModel.Model.SpAttr
import PysamlModel.Model.SpFactory
import PysamlModel.Model.SpLex
open Lean Proto Sp

def parseSig (s : String) : Sig :=
  match s with
  | "valid" => .valid
  | "corrupted" => .corrupted
  | "untrusted" => .untrusted
  | _ => .absent

def parseMethod (s : String) : Method :=
  match s with
  | "bearer" => .bearer
  | "holder-of-key" => .holderOfKey
  | "sender-vouches" => .senderVouches
  | _ => .other

def parseScData (j : Json) : ScData :=
  { nb := int? j "nb", nooa := int? j "nooa", recipient := str? j "recipient", irt := str? j "irt",
    address := str? j "address", hasKeyInfo := boolD j "has_keyinfo" }

def parseSc (j : Json) : SubjConf :=
  { method := parseMethod (strD j "method"), data := (obj? j "data").map parseScData }

def parseSubject (j : Json) : Subject :=
  -- "enc_id": the identifier travels as <saml:EncryptedID> (the harness then renders no NameID element)
  match obj? j "enc_id" with
  | some e => { nameId := str? e "name_id", confs := (arrD j "confs").map parseSc, idSealed := true,
                idOpens := boolD e "decryptable" true }
  | none => { nameId := str? j "name_id", confs := (arrD j "confs").map parseSc }

def parseConditions (j : Json) : Conditions :=
  { nb := int? j "nb", nooa := int? j "nooa",
    audiences := (arrD j "audiences").map (fun r => asStrList (asArr r)),
    extra := (arrD j "extra").map (fun t => (fromJson? t : Except String String).toOption) }

def parseAuthn (j : Json) : AuthnStmt :=
  { sessionNooa := int? j "session_nooa", sessionIndex := str? j "session_index" }

def parseAssertion (j : Json) : Assertion :=
  { sig := parseSig (strD j "sig" "absent"), encrypted := boolD j "encrypted", decryptable := boolD j "decryptable" true,
    conditions := (obj? j "conditions").map parseConditions,
    authn := (arrD j "authn").map parseAuthn,
    subject := (obj? j "subject").map parseSubject }

def parseResponse (j : Json) : Response :=
  { sig := parseSig (strD j "sig" "absent"), version := strD j "version" "2.0",
    issueInstant := intD j "issue_instant", destination := str? j "destination",
    inResponseTo := str? j "in_response_to", issuer := str? j "issuer",
    statusTop := strD j "status_top" "urn:oasis:names:tc:SAML:2.0:status:Success",
    statusSecond := str? j "status_second",
    assertions := (arrD j "assertions").map parseAssertion }

def parseOpts (j : Json) : SigOpts :=
  { wantResp := bool? j "want_resp", wantAssert := bool? j "want_assert", wantEither := bool? j "want_either" }

/-- `defaults` = attribute_defaults read from the CURRENT client_base.py by the harness. -/
def parseCfg (j defaults : Json) (returnAddrs : List String) (entityId : String) : Cfg :=
  let o := parseOpts j
  { wantResp := o.wantResp.getD (boolD defaults "want_response_signed"),
    wantAssert := o.wantAssert.getD (boolD defaults "want_assertions_signed"),
    wantEither := o.wantEither.getD (boolD defaults "want_assertions_or_response_signed"),
    allowUnsolicited := (bool? j "allow_unsolicited").getD (boolD defaults "allow_unsolicited"),
    skew := natD j "skew" 0, entityId := entityId, returnAddrs := returnAddrs,
    -- namespaces of the configured `extension_schemas` modules (the harness reads each module's NAMESPACE)
    extSchemas := strList j "ext_namespaces" }

def parseEnv (j : Json) : Env :=
  let b := strD j "binding" "post"
  let conv := obj? j "conv_info"
  { now := intD j "now", bindingOk := b != "paos", asynchop := !(b == "soap" || b == "paos"),
    outstanding := (arrD j "outstanding").filterMap (fun p => match asStrList (asArr p) with | [a, b] => some (a, b) | _ => none),
    -- `if not self.conv_info`: an empty dictionary counts as no conversation information
    convInfo := (match conv with
      | some c => (str? c "entity_id").isSome || (str? c "remote_addr").isSome
      | none => false),
    convEntityId := conv.bind (fun c => str? c "entity_id"),
    remoteAddr := conv.bind (fun c => str? c "remote_addr") }

def errName : Err → String
  | .sigMissingResponse => "sigMissingResponse" | .sigBadResponse => "sigBadResponse" | .unsolicited => "unsolicited"
  | .versionLow => "versionLow" | .versionHigh => "versionHigh" | .versionGarbage => "versionGarbage"
  | .status _ => "status" | .invalidAssertionCount => "invalidAssertionCount" | .authnStmtCount => "authnStmtCount"
  | .sigMissingAssertion => "sigMissingAssertion" | .sigBadAssertion => "sigBadAssertion"
  | .expired => "expired" | .premature => "premature" | .conditionNotOk => "conditionNotOk" | .audience => "audience"
  | .unknownCondition => "unknownCondition" | .noSubject => "noSubject" | .noAttesting => "noAttesting"
  | .unknownMethod => "unknownMethod" | .noScData => "noScData" | .noRecipient => "noRecipient" | .noValidSc => "noValidSc"
  | .bearerUnknownIrt => "bearerUnknownIrt" | .cameFrom => "cameFrom" | .eitherUnsigned => "eitherUnsigned"
  | .unknownBinding => "unknownBinding"
  | .timeForm => "timeForm"
  | .idUndecryptable => "idUndecryptable"

/-- expected exception class for a second-level status code, from the regenerated table -/
def statusClass (second : Option String) : String :=
  match second with
  | none => Gen.StatusCodes.fallback
  | some s =>
    match Gen.StatusCodes.table.find? (fun row => row.2.1 == s) with
    | some row => row.2.2.1
    | none => Gen.StatusCodes.fallback

def outcomeToJson : Outcome → Json
  | .identity o => Json.mkObj [("r", "identity"), ("name_id", optStr o.nameId), ("issuer", o.issuer),
      ("came_from", optStr o.cameFrom), ("not_on_or_after", toJson o.notOnOrAfter),
      ("session_index", optStr o.sessionIndex), ("cached", o.cached)]
  | .noIdentity => Json.mkObj [("r", "none"), ("cached", false)]
  | .rejected e =>
    let base : List (String × Json) := [("r", Json.str "rejected"), ("cached", Json.bool false)]
    let extra : List (String × Json) := match e with | .status s => [("err", Json.str (statusClass s))] | _ => []
    Json.mkObj (base ++ extra)

def parseOutcome (j : Json) : Outcome :=
  match strD j "r" with
  | "identity" =>
    let o : Reported := { nameId := str? j "name_id", issuer := strD j "issuer", cameFrom := str? j "came_from",
                          notOnOrAfter := intD j "not_on_or_after", sessionIndex := str? j "session_index",
                          cached := boolD j "cached" }
    .identity o
  | "none" => .noIdentity
  | _ => .rejected .sigBadResponse   -- class irrelevant for the specs; status class names are compared as text

def handle (line : Json) : Json :=
  let c := (obj? line "case").getD Json.null
  let impl := (obj? line "impl").getD Json.null
  let cfgJ := (obj? c "cfg").getD (Json.mkObj [])
  let defaults := (obj? c "defaults").getD (Json.mkObj [])
  let cfg0 := parseCfg cfgJ defaults (strList c "return_addrs") (strD c "entity_id")
  let opts0 := parseOpts cfgJ
  let envJ := (obj? c "env").getD (Json.mkObj [])
  let env0 := parseEnv envJ
  let r0 := parseResponse ((obj? c "resp").getD (Json.mkObj []))
  -- attribute-query answers (`parse_attribute_query_response`): the reduction of Model/SpAttr.lean
  let isAttr := strD envJ "kind" == "attr"
  -- on that path the code applies none of the three signature options (Model/SpAttr.lean, `attrCfg`); C01's
  -- statement is about authentication responses, so for attribute answers the specification is evaluated with the
  -- options the code applies there: every signature present must still verify
  let opts : SigOpts := if isAttr then { wantResp := some false, wantAssert := some false, wantEither := some false }
    else if strD envJ "kind" == "factory" then
      -- the factory has no parameter for two of the three options: the specification is evaluated with what it applies
      { wantResp := some false, wantAssert := some (opts0.wantAssert.getD false), wantEither := some false }
    else opts0
  -- only `response_factory` hands the configured extension schemas to the AuthnResponse it builds (Sp.noExt)
  let viaRespFactory := strD envJ "kind" == "factory" && strD envJ "via" == "response_factory"
  let cfg0 := if viaRespFactory then cfg0 else noExt cfg0
  let cfg := if isAttr then attrCfg cfg0 else cfg0
  let env := if isAttr then attrEnv env0 else env0
  let r := if isAttr then attrView r0 else r0
  -- the factory entry point (`saml2.response.authn_response` + loads + verify): Model/SpFactory.lean
  let isFactory := strD envJ "kind" == "factory"
  -- lexical form the timestamps were rendered in (Model/SpLex.lean); the instants of `r` are the true instants
  let tform : TimeForm := match strD envJ "time_form" with
    | "fraction" => .fraction | "noZone" => .noZone | "offset" => .offset | _ => .utc
  -- what signature verification sees (schema validation of signed elements, Model/SpLex.lean `schemaView`)
  let rv := schemaView r
  let m := if isAttr then processAttrLex tform cfg0 env0 (schemaView r0)
    else if viaRespFactory then processRespFactoryLex tform cfg env rv
    else if isFactory then processFactoryLex tform cfg env rv
    else processLex tform cfg env rv
  -- "otherwise valid" of the completeness halves is defined by the model on a copy with other signatures / times: a
  -- message whose signed elements hold extension conditions is outside it (refused by schema validation; unspecified)
  let plainView := decide (rv = r)
  let io := parseOutcome impl
  -- the configuration the PROPERTY talks about: options resolved with the property's defaults
  let cfgP : Cfg := { cfg with wantResp := opts.wantResp.getD true, wantAssert := opts.wantAssert.getD false,
                                wantEither := opts.wantEither.getD false,
                                allowUnsolicited := !isAttr && (bool? cfgJ "allow_unsolicited").getD false }
  let path := match m with
    | .identity o => "identity" ++ (if o.cached then "" else "/uncached")
    | .noIdentity => "none"
    | .rejected e => "rejected/" ++ errName e
  -- status class: when the implementation raises a Status* error it must be the one the table names
  let implErr := strD impl "err"
  -- which error wins when a Response has several defects is not part of the property: the status class is demanded
  -- (and compared between model and implementation) only when the status is the only defect, i.e. the Success copy
  -- of the Response is accepted, or lacks nothing but an assertion
  let rOk : Response := { r with statusTop := "urn:oasis:names:tc:SAML:2.0:status:Success", statusSecond := none }
  let statusOnly : Bool := match process cfg env rOk with
    | .identity _ => true
    | .rejected .invalidAssertionCount => r.assertions.isEmpty
    | .noIdentity => r.assertions.isEmpty
    | _ => false
  -- independent of the regenerated table's contents: the exception classes are NAMED after the codes
  -- (constant STATUS_AUTHN_FAILED ↦ StatusAuthnFailed; lemma C06_table_names proves it of the table as it should be)
  let stPrefix := "urn:oasis:names:tc:SAML:2.0:status:"
  let camelOf (c : String) : String :=     -- STATUS_NO_SUPPORTED_IDP ↦ StatusNoSupportedIdp
    String.join ((c.splitOn "_").map (fun w => (w.take 1).toString.toUpper ++ (w.drop 1).toString.toLower))
  let byRule : Option String := match r.statusSecond with
    | some s2 => if s2.startsWith stPrefix then
        (Gen.StatusCodes.table.find? (fun row => row.2.1 == s2)).map (fun row => camelOf row.1) else none
    | none => none
  let ruleOk : Bool := match byRule, m with
    | some cls, .rejected (.status _) => !statusOnly || strD impl "r" != "rejected" || implErr == cls
    | _, _ => true
  let statusOk : Bool := ruleOk &&
    (!(strD impl "r" == "rejected" && implErr.startsWith "Status") || implErr == statusClass r.statusSecond) &&
    (match m with
     | .rejected (.status s) => strD impl "r" == "rejected" && (implErr == statusClass s || !statusOnly)
     | _ => true)
  let modelJson : Json := match m with
    | .rejected (.status _) => if statusOnly then outcomeToJson m else outcomeToJson (.rejected .unknownBinding)
    | _ => outcomeToJson m
  let spec (out : Outcome) (isImpl : Bool) : List (String × Bool) :=
    [("C01s", specC01Sound opts r out), ("C01c", !tform.read || !plainView || specC01Complete opts cfgP env r out),
     ("C04", specC04 cfgP env r out),
     ("C05s", specC05Sound cfgP env r out), ("C05c", !tform.read || !plainView || specC05Complete cfgP env r out),
     ("C06", specC06 cfgP env r out && (!isImpl || statusOk))]
  let sel := strD c "prop" "ALL"
  let pick (l : List (String × Bool)) : List (String × Bool) :=
    if sel == "ALL" then l else l.filter (fun p => p.1.startsWith sel)
  let si := pick (spec io true)
  let sm := pick (spec m false)
  let failing := (si.filter (fun p => !p.2)).map (·.1)
  Json.mkObj [("model", modelJson), ("path", path),
    ("spec_impl", si.all (·.2)), ("spec_model", sm.all (·.2)),
    ("why", jstrs failing)]

def main : IO Unit := serve handle
