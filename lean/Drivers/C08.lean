import PysamlModel.Core.Proto
import PysamlModel.Model.Routing
import PysamlModel.Spec.C08
open Lean Proto Routing

def truthyS (s : String) : Bool := s != ""
def preS (loc url : String) : Bool := url.startsWith loc

def parseEp (j : Json) : Endpoint String :=
  { binding := strD j "binding", location := strD j "location",
    responseLocation := str? j "response_location", index := str? j "index" }

def parseEps (j : Json) (k : String) : Option (List (Endpoint String)) :=
  (arr? j k).map (·.map parseEp)

def pickToJson : Pick String → Json
  | .ok b d => Json.mkObj [("r", "ok"), ("binding", b), ("dest", d)]
  | .refused => Json.mkObj [("r", "refused")]

def parsePick (j : Json) : Pick String :=
  if strD j "r" == "ok" then .ok (strD j "binding") (strD j "dest") else .refused

def svcOf : String → Svc
  | "acs" => .acs | "slo" => .slo | "mni" => .mni | "attr_cs" => .attrCs | _ => .sso
def svcName : Svc → String
  | .acs => "acs" | .slo => "slo" | .mni => "mni" | .attrCs => "attr_cs" | .sso => "sso"
def kindOf (s : String) : ReqKind :=
  if s == "authn" then .authn else if s == "logout" then .logout else if s == "attr_query" then .attrQuery
  else if s == "manage_nameid" then .manageNameId else if s.startsWith "soap_only" then .soapOnly else .unsupported

/-- The requester's endpoint tables as the harness derived them from its own metadata specification:
    `tables` null = unknown entity; `tables.<descr>` null = the entity has no such descriptor. -/
def lookupOf (c : Json) (idp : Bool) (s : Svc) : Option (List (Endpoint String)) :=
  (obj? c "tables").bind fun t => (obj? t (if idp then "idpsso" else "spsso")).map fun d =>
    (arrD d (svcName s)).map parseEp

def optPickToJson : Option (Pick String) → Json
  | none => Json.mkObj [("r", "nodest")]
  | some p => pickToJson p
def parseOptPick (j : Json) : Option (Pick String) :=
  if strD j "r" == "nodest" then none else some (parsePick j)

def handle1 (line : Json) : Json :=
  let c := (obj? line "case").getD Json.null
  let impl := (obj? line "impl").getD Json.null
  match strD c "op" with
  | "pick" =>
    let eps := parseEps c "eps"
    let soap := "urn:oasis:names:tc:SAML:2.0:bindings:SOAP"
    let arg := strList c "bindings_arg"
    let pb := str? c "protocol_binding"
    let pref := strList c "preferred"
    let url := str? c "url"
    let idx := str? c "index"
    let m := responseArgs truthyS soap "" eps arg pb pref url idx
    let path := match m with
      | .refused => if eps.isNone then "pick/unknown-entity" else "pick/refused"
      | .ok _ _ => if arg == [soap] then "pick/soap-backchannel" else if (url.filter truthyS).isSome then "pick/url" else if (idx.filter truthyS).isSome then "pick/index" else "pick/default"
    Json.mkObj [("model", pickToJson m), ("path", path),
      ("spec_model", specArgs truthyS soap "" eps arg pb pref url idx m),
      ("spec_impl", specArgs truthyS soap "" eps arg pb pref url idx (parsePick impl))]
  | "sso" =>
    let eps := parseEps c "eps"
    let b := strD c "binding"
    let m := ssoLocation eps b
    let iv := str? impl "dest"
    Json.mkObj [("model", Json.mkObj [("dest", optStr m)]), ("path", if m.isSome then "sso/found" else "sso/refused"),
      ("spec_model", specLoc eps b m), ("spec_impl", specLoc eps b iv)]
  | "slo_transport" =>
    -- what the library itself transmitted: every call must go to a registered SOAP single-logout location of the
    -- target and must not follow HTTP redirects (a redirect target is not in the metadata)
    let eps := (parseEps c "eps").getD []
    let soapB := "urn:oasis:names:tc:SAML:2.0:bindings:SOAP"
    let calls := arrD impl "calls"
    let ok := calls.all (fun cl =>
      !(boolD cl "follow") && eps.any (fun e => decide (e.binding = soapB) && decide (e.location = strD cl "url")))
    Json.mkObj [("model", Json.mkObj [("r", "done")]), ("path", Json.str ("transport/" ++ toString calls.length)),
      ("spec_model", true), ("spec_impl", ok)]
  | "negotiate" =>
    let eps := parseEps c "eps"
    let toTry := strList c "to_try"
    let m := negotiate eps toTry
    let toJ : Option (String × String) → Json := fun
      | none => Json.mkObj [("r", "refused")]
      | some (b, d) => Json.mkObj [("r", "ok"), ("binding", Json.str b), ("dest", Json.str d)]
    let iv : Option (String × String) :=
      if strD impl "r" == "ok" then some (strD impl "binding", strD impl "dest") else none
    Json.mkObj [("model", toJ m), ("path", Json.str (if m.isSome then "negotiate/found" else "negotiate/refused")),
      ("spec_model", specNeg eps toTry m), ("spec_impl", specNeg eps toTry iv)]
  | "slo" =>
    let eps := (parseEps c "eps").getD []
    let m := sloChoice truthyS eps (strList c "preferred") (str? c "expected")
    let toJ : Option (Pick String) → Json := fun
      | none => Json.mkObj [("r", "skipped")]
      | some p => pickToJson p
    let iv : Option (Pick String) := if strD impl "r" == "skipped" then none else some (parsePick impl)
    Json.mkObj [("model", toJ m), ("path", Json.str ("slo/" ++ (match m with | none => "skipped" | some (.ok _ _) => "ok" | some .refused => "refused"))),
      ("spec_model", specSlo eps m), ("spec_impl", specSlo eps iv)]
  | "slo_multi" =>
    let targets := (arrD c "targets").map (fun t => (asArr t).map parseEp)
    let m := sloAll truthyS (strList c "preferred") (str? c "expected") targets
    let toJ : Option (Pick String) → Json := fun
      | none => Json.mkObj [("r", "skipped")]
      | some p => pickToJson p
    let mj := match m with
      | none => Json.mkObj [("r", "exception")]
      | some cs => Json.mkObj [("r", "done"), ("per_entity", jarr (cs.map toJ))]
    let implOuts : List (Option (Pick String)) := (arrD impl "per_entity").map fun j =>
      if strD j "r" == "skipped" then none else some (parsePick j)
    let specI := if strD impl "r" == "done" || !(arrD impl "per_entity").isEmpty then
        -- whatever was sent before an exception must also be correctly addressed
        specSloAll (targets.take implOuts.length) implOuts
      else true
    Json.mkObj [("model", mj), ("path", Json.str ("slo_multi/" ++ (match m with | none => "exception" | some _ => "done"))),
      ("spec_model", match m with | none => true | some cs => specSloAll targets cs), ("spec_impl", specI)]
  | "verify_return" =>
    let disco := strList c "disco"
    let url := strD c "url"
    let m := verifyReturn preS disco url
    -- the specification of verify_return is the right-hand side of C08_verify_return
    let want := disco.any (fun loc => preS loc url)
    Json.mkObj [("model", Json.mkObj [("approved", m)]), ("path", if m then "vr/approved" else "vr/refused"),
      ("spec_model", m == want), ("spec_impl", boolD impl "approved" == want)]
  | "rargs" =>
    let soap := "urn:oasis:names:tc:SAML:2.0:bindings:SOAP"
    let selfIsSp := strD c "side" == "sp"
    let kind := kindOf (strD c "kind")
    let lk := lookupOf c
    let arg := strList c "bindings_arg"
    let pb := str? c "protocol_binding"
    let prefJ := (obj? c "preferred").getD Json.null
    let pref : Svc → List String := fun s => strList prefJ (svcName s)
    let url := str? c "url"
    let idx := str? c "index"
    let m := responseArgsK truthyS soap "" selfIsSp kind lk arg pb pref url idx
    let path := "rargs/" ++ strD c "side" ++ "/" ++ strD c "kind" ++ "/" ++ (match m with
      | none => "nodest" | some .refused => "refused"
      | some (.ok _ _) => if arg == [soap] then "soap-backchannel" else "ok")
    Json.mkObj [("model", optPickToJson m), ("path", Json.str path),
      ("spec_model", specArgsK truthyS soap "" selfIsSp kind lk arg pb pref url idx m),
      ("spec_impl", specArgsK truthyS soap "" selfIsSp kind lk arg pb pref url idx (parseOptPick impl))]
  | "pickdirect" =>
    let selfIsSp := strD c "side" == "sp"
    let s := svcOf (strD c "service")
    let lk := lookupOf c
    let arg := strList c "bindings_arg"
    let prefJ := (obj? c "preferred").getD Json.null
    let pref : Svc → List String := fun s => strList prefJ (svcName s)
    let m := pickDirect truthyS selfIsSp s lk arg pref
    let bs := effBindings truthyS arg none (pref s)
    Json.mkObj [("model", pickToJson m),
      ("path", Json.str ("pickdirect/" ++ strD c "side" ++ "/" ++ strD c "service" ++ (match m with | .ok _ _ => "/ok" | .refused => "/refused"))),
      ("spec_model", specPick truthyS (lk selfIsSp s) bs none none m),
      ("spec_impl", specPick truthyS (lk selfIsSp s) bs none none (parsePick impl))]
  | "sso_any" =>
    let named := parseEps c "eps"
    let idps := (arrD c "idps_eps").map (fun t => (asArr t).map parseEp)
    let ent := str? c "entity"
    let b := strD c "binding"
    let m := ssoLocationAny truthyS ent named idps b
    let iv := str? impl "dest"
    Json.mkObj [("model", Json.mkObj [("dest", optStr m)]),
      ("path", Json.str ("sso_any/" ++ toString idps.length ++ (if m.isSome then "/found" else "/refused"))),
      ("spec_model", specLocAny truthyS ent named idps b m), ("spec_impl", specLocAny truthyS ent named idps b iv)]
  | op => Json.mkObj [("proto_error", Json.str ("unknown op " ++ op))]

/-- Sub-case of a history step under metadata version `k`. -/
def atVersion (q : Json) (k : Nat) : Json :=
  let q := q.setObjVal! "eps" (((arrD q "eps_v")[k]?).getD Json.null)
  match ((arrD q "tables_v")[k]?) with
  | some t => q.setObjVal! "tables" t
  | none => q

def handle (line : Json) : Json :=
  let c := (obj? line "case").getD Json.null
  let impl := (obj? line "impl").getD Json.null
  if strD c "op" != "hist" then handle1 line else
  let steps : List (HStep Nat Json) := (arrD c "steps").map fun st =>
    match strD st "t" with
    | "write" => .write (nat? st "v")
    | "reload" => .reload
    | _ => .ask ((obj? st "q").getD Json.null)
  let answer : Nat → Json → Json := fun k q =>
    ((handle1 (Json.mkObj [("case", atVersion q k), ("impl", Json.null)])).getObjVal? "model").toOption.getD Json.null
  let spec : Nat → Json → Json → Bool := fun k q o =>
    boolD (handle1 (Json.mkObj [("case", atVersion q k), ("impl", o)])) "spec_impl"
  let v0 := natD c "init"
  let m := runHist answer (some v0) v0 steps
  let outJ : HOut Json → Json := fun
    | .reloaded ok => Json.mkObj [("reloaded", ok)]
    | .ans o => o
  let implOuts : List (HOut Json) := (arrD impl "outs").map fun j =>
    match bool? j "reloaded" with
    | some ok => .reloaded ok
    | none => .ans j
  let nrel := (m.filter (fun o => match o with | .reloaded true => true | _ => false)).length
  Json.mkObj [("model", Json.mkObj [("outs", jarr (m.map outJ))]),
    ("path", Json.str ("hist/" ++ strD c "form" ++ "/reloads=" ++ toString nrel)),
    ("spec_model", specHist spec (some v0) v0 steps m),
    ("spec_impl", specHist spec (some v0) v0 steps implOuts)]

def main : IO Unit := serve handle
