import PysamlModel.Core.Proto
import PysamlModel.Model.Routing
import PysamlModel.Spec.C08
open Lean Proto Routing

def truthyS (s : String) : Bool := s != ""
def preS (loc url : String) : Bool := url.startsWith loc

def parseEp (j : Json) : Endpoint String :=
  { binding := strD j "binding", location := strD j "location",
    responseLocation := str? j "response_location", index := str? j "index" }

def parseEps (j : Json) (k : String) : Option (List (Endpoint String)) :=
  (arr? j k).map (·.map parseEp)

def pickToJson : Pick String → Json
  | .ok b d => Json.mkObj [("r", "ok"), ("binding", b), ("dest", d)]
  | .refused => Json.mkObj [("r", "refused")]

def parsePick (j : Json) : Pick String :=
  if strD j "r" == "ok" then .ok (strD j "binding") (strD j "dest") else .refused

def handle (line : Json) : Json :=
  let c := (obj? line "case").getD Json.null
  let impl := (obj? line "impl").getD Json.null
  match strD c "op" with
  | "pick" =>
    let eps := parseEps c "eps"
    let soap := "urn:oasis:names:tc:SAML:2.0:bindings:SOAP"
    let arg := strList c "bindings_arg"
    let pb := str? c "protocol_binding"
    let pref := strList c "preferred"
    let url := str? c "url"
    let idx := str? c "index"
    let m := responseArgs truthyS soap "" eps arg pb pref url idx
    let path := match m with
      | .refused => if eps.isNone then "pick/unknown-entity" else "pick/refused"
      | .ok _ _ => if arg == [soap] then "pick/soap-backchannel" else if (url.filter truthyS).isSome then "pick/url" else if (idx.filter truthyS).isSome then "pick/index" else "pick/default"
    Json.mkObj [("model", pickToJson m), ("path", path),
      ("spec_model", specArgs truthyS soap "" eps arg pb pref url idx m),
      ("spec_impl", specArgs truthyS soap "" eps arg pb pref url idx (parsePick impl))]
  | "sso" =>
    let eps := parseEps c "eps"
    let b := strD c "binding"
    let m := ssoLocation eps b
    let iv := str? impl "dest"
    Json.mkObj [("model", Json.mkObj [("dest", optStr m)]), ("path", if m.isSome then "sso/found" else "sso/refused"),
      ("spec_model", specLoc eps b m), ("spec_impl", specLoc eps b iv)]
  | "slo_transport" =>
    -- what the library itself transmitted: every call must go to a registered SOAP single-logout location of the
    -- target and must not follow HTTP redirects (a redirect target is not in the metadata)
    let eps := (parseEps c "eps").getD []
    let soapB := "urn:oasis:names:tc:SAML:2.0:bindings:SOAP"
    let calls := arrD impl "calls"
    let ok := calls.all (fun cl =>
      !(boolD cl "follow") && eps.any (fun e => decide (e.binding = soapB) && decide (e.location = strD cl "url")))
    Json.mkObj [("model", Json.mkObj [("r", "done")]), ("path", Json.str ("transport/" ++ toString calls.length)),
      ("spec_model", true), ("spec_impl", ok)]
  | "negotiate" =>
    let eps := parseEps c "eps"
    let toTry := strList c "to_try"
    let m := negotiate eps toTry
    let toJ : Option (String × String) → Json := fun
      | none => Json.mkObj [("r", "refused")]
      | some (b, d) => Json.mkObj [("r", "ok"), ("binding", Json.str b), ("dest", Json.str d)]
    let iv : Option (String × String) :=
      if strD impl "r" == "ok" then some (strD impl "binding", strD impl "dest") else none
    Json.mkObj [("model", toJ m), ("path", Json.str (if m.isSome then "negotiate/found" else "negotiate/refused")),
      ("spec_model", specNeg eps toTry m), ("spec_impl", specNeg eps toTry iv)]
  | "slo" =>
    let eps := (parseEps c "eps").getD []
    let m := sloChoice truthyS eps (strList c "preferred") (str? c "expected")
    let toJ : Option (Pick String) → Json := fun
      | none => Json.mkObj [("r", "skipped")]
      | some p => pickToJson p
    let iv : Option (Pick String) := if strD impl "r" == "skipped" then none else some (parsePick impl)
    Json.mkObj [("model", toJ m), ("path", Json.str ("slo/" ++ (match m with | none => "skipped" | some (.ok _ _) => "ok" | some .refused => "refused"))),
      ("spec_model", specSlo eps m), ("spec_impl", specSlo eps iv)]
  | "slo_multi" =>
    let targets := (arrD c "targets").map (fun t => (asArr t).map parseEp)
    let m := sloAll truthyS (strList c "preferred") (str? c "expected") targets
    let toJ : Option (Pick String) → Json := fun
      | none => Json.mkObj [("r", "skipped")]
      | some p => pickToJson p
    let mj := match m with
      | none => Json.mkObj [("r", "exception")]
      | some cs => Json.mkObj [("r", "done"), ("per_entity", jarr (cs.map toJ))]
    let implOuts : List (Option (Pick String)) := (arrD impl "per_entity").map fun j =>
      if strD j "r" == "skipped" then none else some (parsePick j)
    let specI := if strD impl "r" == "done" || !(arrD impl "per_entity").isEmpty then
        -- whatever was sent before an exception must also be correctly addressed
        specSloAll (targets.take implOuts.length) implOuts
      else true
    Json.mkObj [("model", mj), ("path", Json.str ("slo_multi/" ++ (match m with | none => "exception" | some _ => "done"))),
      ("spec_model", match m with | none => true | some cs => specSloAll targets cs), ("spec_impl", specI)]
  | "verify_return" =>
    let disco := strList c "disco"
    let url := strD c "url"
    let m := verifyReturn preS disco url
    -- the specification of verify_return is the right-hand side of C08_verify_return
    let want := disco.any (fun loc => preS loc url)
    Json.mkObj [("model", Json.mkObj [("approved", m)]), ("path", if m then "vr/approved" else "vr/refused"),
      ("spec_model", m == want), ("spec_impl", boolD impl "approved" == want)]
  | op => Json.mkObj [("proto_error", Json.str ("unknown op " ++ op))]

def main : IO Unit := serve handle
