import PysamlModel.Core.Proto
import PysamlModel.Model.Release
import PysamlModel.Spec.C10
import PysamlModel.Gen.EntityCategories
open Lean Proto Release

/-! Line-protocol driver of C10.  `α := String`, `ρ := String` (the pattern text).  The string
    operations and the `re.match` matrix come from the harness (`impl.env`, computed with the real
    Python functions on the strings of the case); the entity-category tables come from
    `Gen/EntityCategories.lean` (regenerated from the source) or, for a harness-injected module,
    from the case itself. -/

def asciiLower (s : String) : String := s.map Char.toLower

def pairTable (j : Json) (k : String) : List (String × String) :=
  (arrD j k).filterMap fun e =>
    match asArr e with
    | [.str a, .str b] => some (a, b)
    | _ => none

def tripleTable (j : Json) (k : String) : List ((String × String) × Bool) :=
  (arrD j k).filterMap fun e =>
    match asArr e with
    | [.str a, .str b, .bool c] => some ((a, b), c)
    | _ => none

def mkOps (env : Json) : StrOps String :=
  let low := pairTable env "lower"
  { lower := fun s => (low.lookup s).getD (asciiLower s)
    truthy := fun s => s != ""
    empty := "" }

def mkMatch (env : Json) : String → String → Bool :=
  let m := tripleTable env "match"
  fun p v => (m.lookup (p, v)).getD false

def strPair? (j : Json) : Option (String × String) :=
  match asArr j with
  | [.str k, .str v] => some (k, v)
  | _ => none

def mkAcs (env : Json) : List (Conv String) :=
  (arrD env "acs").filterMap fun e =>
    match asArr e with
    | [.str nf, tbl] => some ({ nameFormat := nf, fro := (asArr tbl).filterMap strPair? } : Conv String)
    | _ => none

/-- a non-`str` (int) identity value is a token no `str` value can equal -/
def valItem? : Json → Option String
  | .str s => some s
  | .num n => some ("\x01int:" ++ toString n)
  | _ => none

def parseVal (j : Json) : Val String :=
  match str? j "s" with
  | some s => .scalar s
  | none => .list ((arrD j "l").filterMap valItem?)

def parseAva (js : List Json) : Ava String :=
  js.filterMap fun e =>
    match asArr e with
    | [.str k, v] => some (k, parseVal v)
    | _ => none

def valToJson : Val String → Json
  | .scalar s => Json.mkObj [("s", s)]
  | .list l => Json.mkObj [("l", jstrs l)]

def avaToJson (a : Ava String) : Json :=
  jarr (a.map fun p => jarr [Json.str p.1, valToJson p.2])

def unspecified : String := "urn:oasis:names:tc:SAML:2.0:attrname-format:unspecified"
def uriFormat : String := "urn:oasis:names:tc:SAML:2.0:attrname-format:uri"

/-- `fromMd`: the metadata parser supplies the class default for an absent NameFormat and drops
    an empty FriendlyName. -/
def strip (s : String) : String := s.trimAscii.toString

def parseReq (fromMd : Bool) (j : Json) : ReqAttr String :=
  -- the metadata parser strips surrounding white space of XML attribute values and element text
  let norm := fun (s : String) => if fromMd then strip s else s
  let vals := (strList j "values").map norm
  let nf := (str? j "name_format").map norm
  { name := norm (strD j "name"),
    nameFormat := if fromMd then some (nf.getD unspecified) else nf,
    friendlyName := if fromMd then ((str? j "friendly_name").map norm).filter (· != "") else str? j "friendly_name",
    values := vals.filter (· != ""),
    noText := vals.any (· == "") }

def parseReqs (fromMd : Bool) (j : Json) (k : String) : List (ReqAttr String) :=
  (arrD j k).map (parseReq fromMd)

def parseEntry (j : Json) : Option (CatEntry String) :=
  match asArr j with
  | [kind, keys, attrs, .bool o, .bool n] =>
    let ks := asStrList (asArr keys)
    let key : CatKey String := match asNat? kind with
      | some 0 => .always
      | some 1 => .single (ks.headD "")
      | _ => .all ks
    some { key := key, attrs := asStrList (asArr attrs), onlyRequired := o, noAggregation := n }
  | _ => none

def genEntry (e : Nat × List String × List String × Bool × Bool) : CatEntry String :=
  let (kind, ks, attrs, o, n) := e
  { key := (match kind with | 0 => .always | 1 => .single (ks.headD "") | _ => .all ks),
    attrs := attrs, onlyRequired := o, noAggregation := n }

/-- `RELEASE` table of one configured module name. -/
def moduleTable (custom : Json) (name : String) : List (CatEntry String) :=
  match arr? custom name with
  | some es => es.filterMap parseEntry
  | none =>
    match Gen.EntityCategories.tables.lookup name with
    | some es => es.map genEntry
    | none => []

def parseRestr (j : Json) : RawRestr String String :=
  (asArr j).filterMap fun e =>
    match asArr e with
    | [.str k, .null] => some (k, none)
    | [.str k, .arr ps] => some (k, some (asStrList ps.toList))
    | _ => none

def parseSection (custom : Json) (j : Json) : Section String String :=
  { attrRestr := (obj? j "ar").map parseRestr,
    failOnMissing := bool? j "fomr",
    entCats := (strList j "ec").map (moduleTable custom),
    nonEmpty := boolD j "nonempty" true }

def parseSections (custom : Json) (c : Json) : Sections String String :=
  (arrD c "policy").filterMap fun e =>
    match asArr e with
    | [.str who, .null] => some (who, none)
    | [.str who, s] => some (who, some (parseSection custom s))
    | _ => none

def errStr : Err → String
  | .missing => "missing"
  | .crash => "crash"

def outToJson : Except Err (Ava String) → Json
  | .ok a => Json.mkObj [("r", "ok"), ("ava", avaToJson a)]
  | .error e => Json.mkObj [("r", errStr e)]

def parseOut (j : Json) : Except Err (Ava String) :=
  match strD j "r" with
  | "ok" => .ok (parseAva (arrD j "ava"))
  | "missing" => .error .missing
  | _ => .error .crash

def relToJson : Release.Release String → Json
  | .assertion a => Json.mkObj [("r", "assertion"), ("ava", avaToJson a)]
  | .errorResponse => Json.mkObj [("r", "error_response")]
  | .raised e => Json.mkObj [("r", "raised"), ("e", errStr e)]

def parseRel (j : Json) : Release.Release String :=
  match strD j "r" with
  | "assertion" => .assertion (parseAva (arrD j "ava"))
  | "error_response" => .errorResponse
  | _ => .raised (if strD j "e" == "missing" then .missing else .crash)

/-- `subject_id_requirement`: the RequestedAttribute entries for the first value of the
    `urn:oasis:names:tc:SAML:profiles:subject-id:req` entity attribute. -/
def subjReqs (kind : Option String) : List (ReqAttr String) :=
  let mk := fun (n : String) => ({ name := "urn:oasis:names:tc:SAML:attribute:" ++ n, nameFormat := some uriFormat,
                                   friendlyName := some n } : ReqAttr String)
  match kind with
  | some "any" => [mk "pairwise-id", mk "subject-id"]
  | some "pairwise-id" => [mk "pairwise-id"]
  | some "subject-id" => [mk "subject-id"]
  | _ => []

/-- The Code-of-Conduct categories whose items are pinned as ONLY_REQUIRED (Spec/C10.lean). -/
def coco (k : String) : Bool :=
  k == "http://www.geant.net/uri/dataprotection-code-of-conduct/v1" ||
  k == "https://refeds.org/category/code-of-conduct/v2"

/-- The only attribute the always-released items may list (Spec/C10.lean). -/
def keepAlways (a : String) : Bool := asciiLower a == "edupersontargetedid"

def secName (c : Ctx String String) : String :=
  let g := secOf c.secs
  if (g c.sp).isSome then "sp"
  else if (c.ra.bind g).isSome then "ra"
  else if ((g c.dflt).filter (·.nonEmpty)).isSome then "default"
  else if (g c.S.empty).isSome then "empty"
  else "none"

/-- Which branches of the model the case exercises (for the evidence histogram). -/
def features (c : Ctx String String) (identity : Ava String) (required optional : List (ReqAttr String)) : List String :=
  let S := c.S
  let entR := entityRestr c required
  let cats := match entR with | .ok l => !l.isEmpty | .error _ => false
  let reqs := required ++ optional
  let branch : List String :=
    match entR with
    | .error _ => ["cats-crash"] ++
        (if required.any (fun d => (d.friendlyName.filter S.truthy).isNone && d.nameFormat.isNone) then ["cats-crash-no-name-format"] else [])
    | .ok _ =>
      if cats then
        let entries := (entCatsOf c.section).getD [] |>.flatten
        let rn := reqNames S c.acs required
        ["cats"] ++
        (if entries.any (fun e => e.key == .always && !e.attrs.isEmpty) then ["cat-always"] else []) ++
        (if required.any (fun d => (d.friendlyName.filter S.truthy).isNone) then ["cat-required-name-via-map"] else []) ++
        (if entries.any (fun e => e.onlyRequired && e.key != .always && e.key.applies c.spCats) then ["cat-only-required"] else []) ++
        (if entries.any (fun e => entryResets S c.spCats rn e) then ["cat-no-aggregation"] else []) ++
        (if entries.any (fun e => match e.key with | .all _ => e.key.applies c.spCats | _ => false) then ["cat-tuple"] else []) ++
        (if entries.any (fun e => match e.key with | .single _ => e.key.applies c.spCats | _ => false) then ["cat-single"] else [])
      else if !reqs.isEmpty then
        let ms := reqs.map (fun q => (q, matchAttrName S c.acs q identity))
        let fns := ms.filterMap (·.2)
        ["request"] ++
        (if (entCatsOf c.section).isSome then ["cats-configured-not-in-effect"] else []) ++
        (if required.any (fun q => (matchAttrName S c.acs q identity).isNone) then ["req-unmatched-required"] else []) ++
        (if optional.any (fun q => (matchAttrName S c.acs q identity).isNone) then ["req-unmatched-optional"] else []) ++
        (if fns.any (fun f => fns.count f > 1) then ["req-repeat"] else []) ++
        (if ms.any (fun m => !m.1.values.isEmpty && m.2.isSome) then ["req-values"] else []) ++
        (if ms.any (fun m => m.1.noText && m.2.isSome) then ["req-notext"] else []) ++
        (if ms.any (fun m => match m.2 with
            | some f => !m.1.values.isEmpty && (match dget identity f with | some (.scalar _) => true | _ => false)
            | none => false) then ["req-scalar-values"] else []) ++
        (if ms.any (fun m => m.2.isSome && m.1.values.any (fun v => m.1.values.count v > 1)) then ["req-dup-values"] else []) ++
        (if fns.any (fun f => fns.count f > 1 && (match dget identity f with | some (.scalar _) => true | _ => false)) then ["req-scalar-repeat"] else []) ++
        (if ms.any (fun m => match m.2 with
            | some f => f != localName S c.acs m.1 && f != S.lower m.1.name
            | none => false) then ["req-case-insensitive-match"] else []) ++
        (if reqs.any (fun q => ((getLocalName c.acs (S.lower q.name) q.nameFormat).filter S.truthy).isSome) then ["req-name-via-map"] else []) ++
        (if reqs.any (fun q => ((getLocalName c.acs (S.lower q.name) q.nameFormat).filter S.truthy).isNone &&
            (q.friendlyName.filter S.truthy).isSome) then ["req-name-via-friendly"] else []) ++
        (if ms.any (fun m => m.2.isSome && ((matchKey S (localName S c.acs m.1) identity).filter S.truthy).isNone) then ["req-match-by-name"] else []) ++
        (if ms.any (fun m => m.2.isSome && (identity.any (fun p => p.1 == localName S c.acs m.1))) then ["match-exact"] else []) ++
        (if ms.any (fun m => m.2.isSome && !(identity.any (fun p => p.1 == localName S c.acs m.1)) &&
            identity.any (fun p => p.1 == S.lower (localName S c.acs m.1))) then ["match-lower"] else []) ++
        (if (failOnOf c.section) then ["fail-on-missing"] else ["no-fail-on-missing"])
      else ["nofilter"] ++ (if (entCatsOf c.section).isSome && !c.hasMds then ["cats-configured-no-mds"] else [])
  let restr : List String :=
    match c.section.bind (Section.compiledRestr S) with
    | none => ["norestr"]
    | some r =>
      ["restr"] ++
      (if identity.any (fun p => (dget r (S.lower p.1)).isNone) then ["restr-unlisted"] else []) ++
      (if identity.any (fun p => dget r (S.lower p.1) == some none) then ["restr-open"] else []) ++
      (if identity.any (fun p => match dget r (S.lower p.1) with
          | some (some rs) => p.2.values.any (fun v => rs.any (fun x => c.M x v))
          | _ => false) then ["restr-regex-keep"] else []) ++
      (if identity.any (fun p => match dget r (S.lower p.1) with
          | some (some rs) => p.2.values.any (fun v => !rs.any (fun x => c.M x v))
          | _ => false) then ["restr-regex-drop"] else [])
  ["sec-" ++ secName c] ++ branch ++ restr

def handleOne (cs impl : Json) : Json :=
  let env := (obj? impl "env").getD Json.null
  let custom := (obj? cs "custom").getD Json.null
  let S := mkOps env
  let op := strD cs "op"
  let sp := strD cs "sp"
  let mdSp : Option Json := (arrD cs "sps").find? (fun e => strD e "entity_id" == sp)
  let hasMds := boolD cs "has_mds" true
  let md := if hasMds then mdSp.getD Json.null else Json.null
  let c : Ctx String String :=
    { S := S, M := mkMatch env, acs := mkAcs env, secs := parseSections custom cs, dflt := "default",
      sp := sp, ra := (str? md "ra").map strip, hasMds := hasMds, spCats := (strList md "cats").map strip }
  let identity := parseAva (arrD cs "identity")
  let unchanged := boolD impl "unchanged" true
  let secN := secName c
  if op == "filter" then
    let required := parseReqs false cs "req"
    let optional := parseReqs false cs "opt"
    let m := policyFilter c identity required optional
    let iv := parseOut impl
    let feats := features c identity required optional
    let branch := feats.getD 1 "?"
    Json.mkObj [("model", Json.mkObj [("out", outToJson m), ("unchanged", true)]),
      ("path", Json.str (op ++ "/" ++ secN ++ "/" ++ branch ++ "/" ++ (match m with | .ok _ => "ok" | .error e => errStr e))),
      ("features", jstrs feats),
      ("spec_model", specFilter c identity required optional m && pinnedOk coco keepAlways c required m),
      ("spec_impl", specFilter c identity required optional iv && pinnedOk coco keepAlways c required iv && unchanged)]
  else
    -- `attribute_requirement`: isRequired="true" entries are required, all others optional
    let ras := arrD md "ras"
    let required := (ras.filter (fun j => boolD j "required" false)).map (parseReq true)
    let optional := (ras.filter (fun j => !boolD j "required" false)).map (parseReq true)
    let subj := subjReqs (str? md "subj")
    let req' := addSubjectReqs required subj
    let feats := features c identity req' optional
    let branch := feats.getD 1 "?"
    if op == "restrict" || op == "apply_policy" then
      let m := policyRestrict c identity required optional subj
      let iv := parseOut impl
      -- apply_policy: what the Assertion dictionary holds afterwards is judged as well
      let selfM : Json := match m with | .ok a => avaToJson (selfAfter identity a) | .error _ => avaToJson identity
      let selfOk := if op == "apply_policy" then
          (match iv with
           | .ok _ => specRestrict c identity required optional subj (.ok (parseAva (arrD impl "self"))) &&
                      pinnedOk coco keepAlways c req' (.ok (parseAva (arrD impl "self")))
           | .error _ => true)
        else true
      let mj := if op == "apply_policy" then Json.mkObj [("out", outToJson m), ("self", selfM), ("unchanged", true)]
                else Json.mkObj [("out", outToJson m), ("unchanged", true)]
      Json.mkObj [("model", mj),
        ("path", Json.str (op ++ "/" ++ secN ++ "/" ++ branch ++ "/" ++ (match m with | .ok _ => "ok" | .error e => errStr e))),
        ("features", jstrs feats),
        ("spec_model", specRestrict c identity required optional subj m && pinnedOk coco keepAlways c req' m),
        ("spec_impl", specRestrict c identity required optional subj iv && pinnedOk coco keepAlways c req' iv && selfOk && unchanged)]
    else if op == "authn_response" || op == "attribute_response" || op == "setup_assertion" then
      let m := if op == "authn_response" then authnRelease c identity required optional subj (boolD cs "best_effort" false)
               else if op == "setup_assertion" then setupAssertion c identity required optional subj (boolD cs "best_effort" false)
               else attributeRelease c identity required optional subj
      let iv := parseRel impl
      let inner := policyRestrict c identity required optional subj
      let pinnedRel : Release.Release String → Bool := fun o =>
        match o with
        | .assertion a => pinnedOk coco keepAlways c req' (.ok a)
        | _ => true
      let outcome := match m, inner with
        | .assertion _, .error .missing => "unfiltered"
        | .assertion _, _ => "assertion"
        | .errorResponse, _ => "error-response"
        | .raised e, _ => "raised-" ++ errStr e
      Json.mkObj [("model", Json.mkObj [("out", relToJson m), ("unchanged", true)]),
        ("path", Json.str (op ++ "/" ++ secN ++ "/" ++ branch ++ "/" ++ outcome)),
        ("features", jstrs feats),
        ("inner", outToJson inner),
        ("spec_model", specResponse c identity required optional subj m && pinnedRel m),
        ("spec_impl", specResponse c identity required optional subj iv && pinnedRel iv && unchanged)]
    else Json.mkObj [("proto_error", Json.str ("unknown op " ++ op))]

/-- A sequence answered by ONE long-lived Policy / Server: the model is stateless, so the expected
    answer of every step is the single-step answer for that step alone (the step's fields override
    the shared ones); the spec is evaluated per step on the implementation's output. -/
def handle (line : Json) : Json :=
  let cs := (obj? line "case").getD Json.null
  let impl := (obj? line "impl").getD Json.null
  if strD cs "op" == "sequence" then
    let steps := arrD cs "steps"
    let impls := arrD impl "steps"
    let impls' := impls ++ List.replicate (steps.length - impls.length) Json.null
    -- a `reload` step replaces the requester metadata in force for the steps after it
    let reloadAnswer := fun (im : Json) =>
      Json.mkObj [("model", Json.mkObj [("out", Json.mkObj [("r", "reloaded")]), ("unchanged", true)]),
        ("path", "reload/-/-/reloaded"), ("features", jstrs ["reload"]),
        ("spec_model", true), ("spec_impl", strD im "r" == "reloaded")]
    let folded := (steps.zip impls').foldl (fun (acc : List Json × Json) (p : Json × Json) =>
      if strD p.1 "op" == "reload" then
        (reloadAnswer p.2 :: acc.1, acc.2.mergeObj (Json.mkObj [("sps", jarr (arrD p.1 "sps"))]))
      else (handleOne (acc.2.mergeObj p.1) p.2 :: acc.1, acc.2)) (([] : List Json), cs)
    let answers := folded.1.reverse
    let okOf := fun (k : String) (a : Json) => boolD a k false
    let firstBad := (answers.zipIdx.find? (fun (a, _) => !okOf "spec_impl" a)).map (·.2)
    Json.mkObj [("model", Json.mkObj [("steps", jarr (answers.map fun a => (obj? a "model").getD Json.null))]),
      ("path", Json.str ("sequence/" ++ toString steps.length ++ "/" ++
        String.intercalate "+" (answers.map fun a => ((strD a "path").splitOn "/").getD 3 "?"))),
      ("features", jstrs (answers.flatMap fun a => strList a "features").eraseDups),
      ("steps", jarr answers),
      ("spec_model", answers.all (okOf "spec_model")),
      ("spec_impl", answers.all (okOf "spec_impl") && impls.length == steps.length),
      ("why", match firstBad with | some i => Json.str ("step " ++ toString i) | none => Json.null)]
  else handleOne cs impl

def main : IO Unit := serve handle
