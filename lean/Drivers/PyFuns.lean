import PysamlModel.Core.Proto
import PysamlModel.Model.MiniPy
import PysamlModel.Model.PyEnc
import PysamlModel.Gen.PyFuns

/-! Line-protocol driver: runs the REGENERATED MiniPy terms of pysaml2's small decision functions (Gen/PyFuns.lean)
    under the interpreter on the inputs the harness also gives to the real functions under CPython, and reports next
    to it what the hand-written model function answers (`model`). -/

open Lean Proto MiniPy PyTie

def valJson : Val → Json
  | .none => Json.null
  | .bool b => Json.bool b
  | .int i => toJson i
  | .str s => Json.str s
  | .list _ => Json.str "<list>"
  | .obj _ => Json.str "<object>"

def resJson : Result → Json
  | .value v => Json.mkObj [("r", "value"), ("v", valJson v)]
  | .raised c => Json.mkObj [("r", "raised"), ("cls", c)]
  | .stuck w => Json.mkObj [("r", "stuck"), ("why", w)]

def optStrs (j : Json) : List (Option String) :=
  match j.getArr? with
  | .ok a => a.toList.map (fun x => match x.getStr? with | .ok s => some s | .error _ => none)
  | .error _ => []

def handle (line : Json) : Json :=
  let fn := strD line "fn"
  match fn with
  | "for_me" =>
    let rs : List (List (Option String)) := match (line.getObjVal? "rs").bind (·.getArr?) with
      | .ok a => a.toList.map optStrs
      | .error _ => []
    let me := strD line "me"
    let r := run Sp.pyStrip noExt Gen.PyFuns.for_me [encC rs, .str me]
    Json.mkObj [("interp", resJson r), ("model", resJson (.value (.bool (Sp.forMe me (toModel rs)))))]
  | "validate_on_or_after" | "validate_before" =>
    let t : Option String := str? line "t"
    let tm := intD line "tm"
    let now := intD line "now"
    let skew := (intD line "skew").toNat
    let arg : Val := match t with | some s => .str s | none => .none
    let f := if fn == "validate_on_or_after" then Gen.PyFuns.validate_on_or_after else Gen.PyFuns.validate_before
    let r := run Sp.pyStrip (timeExt now (fun _ => tm)) f [arg, .int skew]
    let model : Result :=
      match t with
      | none => .value (.bool (fn != "validate_on_or_after"))
      | some s =>
        if s == "" then .value (.bool (fn != "validate_on_or_after"))
        else if fn == "validate_on_or_after" then
          (if Sp.onOrAfterOk now skew tm then .value (.int tm) else .raised "ResponseLifetimeExceed")
        else (if Sp.beforeOk now skew tm then .value (.bool true) else .raised "ToEarly")
    Json.mkObj [("interp", resJson r), ("model", resJson model)]
  | "authn_statement_ok" =>
    -- stmts: the lexical SessionNotOnOrAfter of each AuthnStatement (null = absent); tmtab: what each lexical value denotes
    let stmts : List (Option String) := optStrs ((line.getObjVal? "stmts").toOption.getD Json.null)
    let tab : List (String × Int) := match (line.getObjVal? "tmtab").bind (·.getArr?) with
      | .ok a => a.toList.filterMap (fun x => match x.getArr? with
          | .ok p => match p.toList with
            | [k, v] => match k.getStr?, v.getInt? with
              | .ok ks, .ok vi => some (ks, vi)
              | _, _ => none
            | _ => none
          | .error _ => none)
      | .error _ => []
    let tm : String → Int := fun x => ((tab.find? (fun p => p.1 == x)).map (·.2)).getD 0
    let now := intD line "now"
    let skew := (intD line "skew").toNat
    let sess := intD line "sess"
    let out := runMethod Sp.pyStrip (pyExt0 now tm) Gen.PyFuns.AuthnResponse_authn_statement_ok
      [selfAuthn stmts skew sess, .bool false]
    let sessOut : Json := match sessionOf out.2 with | some v => valJson v | none => Json.null
    let cfg : Sp.Cfg := { skew := skew }
    let env : Sp.Env := { now := now }
    let st : Sp.St := { sessionNooa := sess }
    let a : Sp.Assertion := { authn := authnOf tm (stmts.map (fun s => (s, none))) }
    let model : Json := match Sp.authnStatementOk cfg env st a with
      | .ok st' => Json.mkObj [("r", "value"), ("session", toJson st'.sessionNooa)]
      | .error e => Json.mkObj [("r", "raised"), ("cls", errClass e)]
    let interp : Json := match out.1 with
      | .value _ => Json.mkObj [("r", "value"), ("session", sessOut)]
      | .raised c => Json.mkObj [("r", "raised"), ("cls", c)]
      | .stuck w => Json.mkObj [("r", "stuck"), ("why", w)]
    Json.mkObj [("interp", interp), ("model", model), ("returned", resJson out.1)]
  | "_verify" =>
    let asy := boolD line "asynchop"
    let dest : Option String := str? line "dest"
    let addrs := strList line "addrs"
    let ii := boolD line "ii"
    let stOk := boolD line "st_ok"
    let statusTop := if stOk then successUri else "urn:oasis:names:tc:SAML:2.0:status:Responder"
    let r := run Sp.pyStrip (pyExt 0 (fun _ => 0) ii (statusExt statusTop "StatusError")) Gen.PyFuns.StatusResponse__verify
      [selfVerify asy dest addrs]
    let cfg : Sp.Cfg := { returnAddrs := addrs, skew := 0 }
    let env : Sp.Env := { now := 0, asynchop := asy }
    let resp : Sp.Response := { destination := dest, issueInstant := if ii then 0 else 1000000000, statusTop := statusTop }
    let model : Result := match Sp.verifyEnvelope cfg env resp with
      | .ok true => .value (.bool true)
      | .ok false =>
        if asy && Sp.truthy dest && !(addrs.contains (dest.getD "")) then .value .none else .value (.bool false)
      | .error _ => .raised "StatusError"
    Json.mkObj [("interp", resJson r), ("model", resJson model)]
  | "condition_ok" =>
    let nb : Option String := str? line "nb"
    let nooa : Option String := str? line "nooa"
    let tab : List (String × Int) := match (line.getObjVal? "tmtab").bind (·.getArr?) with
      | .ok a => a.toList.filterMap (fun x => match x.getArr? with
          | .ok p => match p.toList with
            | [k, v] => match k.getStr?, v.getInt? with
              | .ok ks, .ok vi => some (ks, vi)
              | _, _ => none
            | _ => none
          | .error _ => none)
      | .error _ => []
    let tm : String → Int := fun x => ((tab.find? (fun p => p.1 == x)).map (·.2)).getD 0
    let auds : List (List (Option String)) := match (line.getObjVal? "auds").bind (·.getArr?) with
      | .ok a => a.toList.map optStrs
      | .error _ => []
    let extra : List (Option String) := optStrs ((line.getObjVal? "extra").toOption.getD Json.null)
    let hasConds := boolD line "has_conditions" true
    let now := intD line "now"
    let skew := (intD line "skew").toNat
    let me := strD line "me"
    let schemas := strList line "schemas"
    let nooa0 := intD line "nooa0"
    let cv : Val := if hasConds then condV nb nooa auds extra else .none
    let out := runMethod Sp.pyStrip (pyExt0 now tm) Gen.PyFuns.AuthnResponse_condition_ok
      [.obj (selfCondFields cv skew me schemas nooa0), .bool false]
    let nOut : Json := match nooaOf out.2 with | some v => valJson v | none => Json.null
    let cfg : Sp.Cfg := { skew := skew, entityId := me, extSchemas := schemas }
    let env : Sp.Env := { now := now }
    let st : Sp.St := { notOnOrAfter := nooa0 }
    let conds : Sp.Conditions := { nb := lexTime tm nb, nooa := lexTime tm nooa, audiences := toModel auds, extra := extra }
    let a : Sp.Assertion := { conditions := if hasConds then some conds else none }
    let model : Json := match Sp.conditionOk cfg env st a with
      | .ok st' => Json.mkObj [("r", "value"), ("v", true), ("nooa", toJson st'.notOnOrAfter)]
      | .error .conditionNotOk => Json.mkObj [("r", "value"), ("v", false)]
      | .error e => Json.mkObj [("r", "raised"), ("cls", errClass e)]
    let interp : Json := match out.1 with
      | .value (.bool true) => Json.mkObj [("r", "value"), ("v", true), ("nooa", nOut)]
      | .value v => Json.mkObj [("r", "value"), ("v", valJson v)]
      | .raised c => Json.mkObj [("r", "raised"), ("cls", c)]
      | .stuck w => Json.mkObj [("r", "stuck"), ("why", w)]
    Json.mkObj [("interp", interp), ("model", model)]
  | "correctly_signed_response" =>
    let s : Sp.Sig := match strD line "sig" with
      | "valid" => .valid | "corrupted" => .corrupted | "untrusted" => .untrusted | _ => .absent
    let req := boolD line "req"
    let must := boolD line "must"
    let r := run Sp.pyStrip (csrExt s.present (s == .valid)) Gen.PyFuns.SecurityContext_correctly_signed_response
      [.obj [], .str "<xml>", .bool must, .none, .bool false, .bool req, .obj []]
    let model : Result := match sigGate s req with
      | some _ => .raised "SignatureError"
      | none => .value (respV s.present)
    Json.mkObj [("interp", resJson r), ("model", resJson model)]
  | "loads" =>
    let s : Sp.Sig := match strD line "sig" with
      | "valid" => .valid | "corrupted" => .corrupted | "untrusted" => .untrusted | _ => .absent
    let req := boolD line "req"
    let asy := boolD line "asynchop"
    let irt : Option String := str? line "irt"
    let outs : List (String × String) := match (line.getObjVal? "outs").bind (·.getArr?) with
      | .ok a => a.toList.filterMap (fun x => match x.getArr? with
          | .ok p => match p.toList with
            | [k, v] => match k.getStr?, v.getStr? with
              | .ok ks, .ok vs => some (ks, vs)
              | _, _ => none
            | _ => none
          | .error _ => none)
      | .error _ => []
    let uns := boolD line "allow_uns"
    let attrErr := boolD line "attr_err"
    let mis := boolD line "mis" && !attrErr
    let sigR : R Val := match sigGate s req with | some _ => .raise "SignatureError" | none => .ok .none
    let chk : R Val := if attrErr then .raise "AttributeError" else .ok (.bool (!mis))
    let out := runMethod Sp.pyStrip (loadsExt sigR chk) Gen.PyFuns.AuthnResponse_loads
      [.obj (selfLoads asy irt outs uns), .str "<xml>", .bool false, .none]
    let cfOut : Json := match cameFromOf out.2 with | some v => valJson v | none => Json.null
    let interp : Json := match out.1 with
      | .value _ => Json.mkObj [("r", "value"), ("came_from", cfOut)]
      | .raised c => Json.mkObj [("r", "raised"), ("cls", c)]
      | .stuck w => Json.mkObj [("r", "stuck"), ("why", w)]
    -- a Response whose clear assertions give the model's scan the same answer
    let other : Sp.Assertion := { subject := some { nameId := none, confs := [{ method := .bearer, data := some { irt := some "\u0000other" } }] } }
    let noSubj : Sp.Assertion := { subject := none }
    let resp : Sp.Response := { sig := s, inResponseTo := irt, assertions := if attrErr then [noSubj] else if mis then [other] else [] }
    let cfg : Sp.Cfg := { allowUnsolicited := uns }
    let env : Sp.Env := { asynchop := asy, outstanding := outs }
    let model : Json := match Sp.loads cfg env req resp with
      | .ok cf => Json.mkObj [("r", "value"), ("came_from", match cf with | some c => Json.str c | none => Json.null)]
      | .error .unsolicited => Json.mkObj [("r", "raised"), ("cls", "UnsolicitedResponse")]
      | .error _ => Json.mkObj [("r", "raised"), ("cls", "SignatureError")]
    Json.mkObj [("interp", interp), ("model", model)]
  | "scan" =>
    -- as: one entry per assertion: null (no Subject) or the list of its confirmations: null (no data) or {"irt": str|null}
    let confOf (j : Json) : ConfD := match j with
      | Json.null => none
      | _ => some (str? j "irt")
    let assOf (j : Json) : AssD := match j.getArr? with
      | .ok a => some (a.toList.map confOf)
      | .error _ => none
    let as : List AssD := match (line.getObjVal? "as").bind (·.getArr?) with
      | .ok a => a.toList.map assOf
      | .error _ => []
    let irp : Option String := str? line "irp"
    let r := run Sp.pyStrip noExt Gen.PyFuns.AuthnResponse_check_subject_confirmation_in_response_to [selfScan as, optStr irp, .none]
    let mis := Sp.scanAssertions irp (as.map toAssertion)
    -- the model's scan says "mismatch or not"; whether the not-mismatch is a clean True or the AttributeError of an
    -- assertion without Subject is told by scan3
    let model : Result := if mis then .value (.bool false) else
      (match scan3 irp as with | .attrErr => .raised "AttributeError" | _ => .value (.bool true))
    Json.mkObj [("interp", resJson r), ("model", resJson model)]
  | _ => Json.mkObj [("interp", Json.mkObj [("r", "stuck"), ("why", "unknown function")])]

def main : IO Unit := serve handle
