import PysamlModel.Core.Proto
import PysamlModel.Model.MiniPy
import PysamlModel.Model.PyEnc
import PysamlModel.Gen.PyFuns

/-! Line-protocol driver: runs the REGENERATED MiniPy terms of pysaml2's small decision functions (Gen/PyFuns.lean)
    under the interpreter on the inputs the harness also gives to the real functions under CPython, and reports next
    to it what the hand-written model function answers (`model`). -/

open Lean Proto MiniPy PyTie

def valJson : Val → Json
  | .none => Json.null
  | .bool b => Json.bool b
  | .int i => toJson i
  | .str s => Json.str s
  | .list _ => Json.str "<list>"
  | .obj _ => Json.str "<object>"

def resJson : Result → Json
  | .value v => Json.mkObj [("r", "value"), ("v", valJson v)]
  | .raised c => Json.mkObj [("r", "raised"), ("cls", c)]
  | .stuck w => Json.mkObj [("r", "stuck"), ("why", w)]

def optStrs (j : Json) : List (Option String) :=
  match j.getArr? with
  | .ok a => a.toList.map (fun x => match x.getStr? with | .ok s => some s | .error _ => none)
  | .error _ => []

def handle (line : Json) : Json :=
  let fn := strD line "fn"
  match fn with
  | "for_me" =>
    let rs : List (List (Option String)) := match (line.getObjVal? "rs").bind (·.getArr?) with
      | .ok a => a.toList.map optStrs
      | .error _ => []
    let me := strD line "me"
    let r := run Sp.pyStrip noExt Gen.PyFuns.for_me [encC rs, .str me]
    Json.mkObj [("interp", resJson r), ("model", resJson (.value (.bool (Sp.forMe me (toModel rs)))))]
  | "validate_on_or_after" | "validate_before" =>
    let t : Option String := str? line "t"
    let tm := intD line "tm"
    let now := intD line "now"
    let skew := (intD line "skew").toNat
    let arg : Val := match t with | some s => .str s | none => .none
    let f := if fn == "validate_on_or_after" then Gen.PyFuns.validate_on_or_after else Gen.PyFuns.validate_before
    let r := run Sp.pyStrip (timeExt now (fun _ => tm)) f [arg, .int skew]
    let model : Result :=
      match t with
      | none => .value (.bool (fn != "validate_on_or_after"))
      | some s =>
        if s == "" then .value (.bool (fn != "validate_on_or_after"))
        else if fn == "validate_on_or_after" then
          (if Sp.onOrAfterOk now skew tm then .value (.int tm) else .raised "ResponseLifetimeExceed")
        else (if Sp.beforeOk now skew tm then .value (.bool true) else .raised "ToEarly")
    Json.mkObj [("interp", resJson r), ("model", resJson model)]
  | _ => Json.mkObj [("interp", Json.mkObj [("r", "stuck"), ("why", "unknown function")])]

def main : IO Unit := serve handle
