import PysamlModel.Core.Proto
import PysamlModel.Model.Codec
import PysamlModel.Model.HtmlScan
import PysamlModel.Model.Bindings
import PysamlModel.Spec.C14
open Lean Proto Codec HtmlScan Bindings C14Spec

/-! Line-protocol driver of C14.  Text travels as JSON strings (UTF-8 bytes / code points are taken
    here), arbitrary bytes as lower-case hex strings. -/

def hexNib (n : Nat) : Char := Char.ofNat (if n < 10 then 48 + n else 87 + n)
def toHex (bs : Bytes) : String := String.ofList (bs.flatMap fun b => [hexNib (b / 16), hexNib (b % 16)])
def nibVal (c : Char) : Nat :=
  let n := c.toNat
  if 48 ≤ n ∧ n ≤ 57 then n - 48 else if 97 ≤ n ∧ n ≤ 102 then n - 87 else if 65 ≤ n ∧ n ≤ 70 then n - 55 else 0
def ofHexL : List Char → Bytes
  | a :: b :: rest => (nibVal a * 16 + nibVal b) :: ofHexL rest
  | _ => []
def ofHex (s : String) : Bytes := ofHexL s.toList

def points (s : String) : List Nat := s.toList.map (·.toNat)
def ofPoints (l : List Nat) : String := String.ofList (l.map Char.ofNat)

def jhex (b : Bytes) : Json := Json.str (toHex b)
def jhexOpt : Option Bytes → Json
  | some b => jhex b
  | none => Json.null
def hex? (j : Json) (k : String) : Option Bytes := (str? j k).map ofHex
def text (j : Json) (k : String) : Bytes := bytesOf (strD j k)

/-- A finite function table `[[hex in, hex out | null], …]`; anything else is `none`. -/
def tableFn (j : Json) (k : String) : Bytes → Option Bytes :=
  let rows := (arrD j k).filterMap fun r =>
    match r with
    | .arr a => match a.toList with
      | [.str i, .str o] => some (ofHex i, some (ofHex o))
      | [.str i, _] => some (ofHex i, none)
      | _ => none
    | _ => none
  fun b => match rows.find? (fun r => r.1 == b) with
    | some r => r.2
    | none => none

def pairsToJson (ps : List (Bytes × Bytes)) : Json := jarr (ps.map fun kv => jarr [jhex kv.1, jhex kv.2])
def pairsOf (j : Json) (k : String) : Option (List (Bytes × Bytes)) :=
  (arr? j k).map fun l => l.filterMap fun r =>
    match r with
    | .arr a => match a.toList with
      | [.str x, .str y] => some (ofHex x, ofHex y)
      | _ => none
    | _ => none

def res (model : Json) (path : String) (specModel specImpl : Bool) (why : String := "") : Json :=
  Json.mkObj ([("model", model), ("path", Json.str path), ("spec_model", Json.bool specModel),
    ("spec_impl", Json.bool specImpl)] ++ (if why.isEmpty then [] else [("why", Json.str why)]))

def refForm (hasRelay : Bool) : Bytes := render (fun _ => []) (formTemplate hasRelay)

def fieldsUnesc (html : Bytes) : List (Bytes × Bytes) :=
  (rawFields (tags html)).map fun nv => (htmlUnescape nv.1, htmlUnescape nv.2)

def qsFirstLast (ps : List (Bytes × Bytes)) (k : Bytes) : Option Bytes :=
  ((ps.reverse).find? (fun kv => kv.1 == k)).map (·.2)

/-- Which branch of `add_query` a destination takes (model path id). -/
def locPath (loc : Bytes) : String :=
  let base := loc.takeWhile (· != 35)
  (if !base.contains 63 then "/no-query"
   else if (queryOf loc).isEmpty then "/empty-query"
   else if (queryOf loc).getLast? == some 38 then "/trailing-amp"
   else if (queryOf loc).getLast? == some 63 then "/trailing-qmark" else "/query") ++ (if loc.contains 35 then "+fragment" else "")

/-- The form controls as the harness's own HTML parser saw them. -/
def implFieldsOk (typ rs : Bytes) (f : Option (List (Bytes × Bytes))) : Bool :=
  match f with
  | some [(n, _)] => rs.isEmpty && n == typ
  | some [(n, _), (n2, v2)] => !rs.isEmpty && n == typ && n2 == sRelayState && v2 == rs
  | _ => false

def partToJson : Part String → Json
  | .header cs => Json.mkObj [("kind", "header"), ("children", jstrs cs)]
  | .body cs => Json.mkObj [("kind", "body"), ("children", jstrs cs)]
  | .other => Json.mkObj [("kind", "other")]
def envToJson (e : Envelope String) : Json :=
  Json.mkObj [("tag_ok", Json.bool e.tagOk), ("parts", jarr (e.parts.map partToJson))]
def parsePart (j : Json) : Part String :=
  match strD j "kind" with
  | "header" => .header (strList j "children")
  | "body" => .body (strList j "children")
  | _ => .other
def parseEnv (j : Json) : Envelope String := { tagOk := boolD j "tag_ok", parts := (arrD j "parts").map parsePart }
def unwToJson : Unwrapped String → Json
  | .elem e => Json.mkObj [("r", "elem"), ("e", Json.str e)]
  | .empty => Json.mkObj [("r", "empty")]
  | .refused => Json.mkObj [("r", "refused")]
def parseUnw (j : Json) : Unwrapped String :=
  match strD j "r" with
  | "elem" => .elem (strD j "e")
  | "empty" => .empty
  | _ => .refused

def openedToJson : Opened String → Json
  | .ok hs b => Json.mkObj [("r", "ok"), ("header", jstrs hs), ("body", match b with | some e => Json.str e | none => Json.null)]
  | .refused => Json.mkObj [("r", "refused")]
def parseOpened (j : Json) : Opened String :=
  match strD j "r" with
  | "ok" => .ok (strList j "header") (str? j "body")
  | _ => .refused

def destToJson : ArtDest String → Json
  | .dest l => Json.mkObj [("r", "dest"), ("loc", Json.str l)]
  | .noEndpoint => Json.mkObj [("r", "none")]
  | .refused => Json.mkObj [("r", "refused")]
def parseDest (j : Json) : ArtDest String :=
  match strD j "r" with
  | "dest" => .dest (strD j "loc")
  | "none" => .noEndpoint
  | _ => .refused
def parseStore (j : Json) : List (ArtEntity String) :=
  (arrD j "store").map fun e =>
    { sourceId := (hex? e "sourceid").getD [],
      descriptors := (arrD e "descriptors").map fun d =>
        match d with
        | .arr eps => some (eps.toList.filterMap fun ep =>
            match ep with
            | .arr a => match a.toList with
              | [.str i, .str l] => some (i, l)
              | _ => none
            | _ => none)
        | _ => none }
def showInt (i : Int) : String := toString i

/-! Histories (`art_history`): steps and observations as JSON. -/
def parseStep (j : Json) : ArtStep String :=
  match strD j "k" with
  | "issue" => .issue (text j "entity_id") ((hex? j "sourceid").getD []) ((hex? j "handle").getD []) (intD j "idx")
  | "reload" => .reload (parseStore j)
  | _ => .resolve (natD j "i")

def obsToJson : ArtObs String → Json
  | .issued art dest =>
    Json.mkObj [("art", match art with | some a => Json.str (ofPoints a) | none => Json.null),
      ("dest", match dest with | some d => destToJson d | none => Json.null),
      ("carried", match art with | some a => Json.str (ofPoints a) | none => Json.null),
      ("stored", Json.bool art.isSome)]
  | .reloaded => Json.mkObj [("reloaded", Json.bool true)]
  | .resolved dest => Json.mkObj [("dest", match dest with | some d => destToJson d | none => Json.null)]

/-- The per-step specification on a list of observations (the model's or the implementation's):
    an issued artifact decodes to the index and issuer it was created with, travels unchanged,
    is remembered by its issuer, and every resolution answers from the table in force. -/
def specHistory (store : List (ArtEntity String)) (seen : List Bytes) : List (ArtStep String) → List Json → Bool
  | [], [] => true
  | .issue _ sid _ idx :: steps, o :: obs =>
    let art := (str? o "art").map bytesOf
    let dest := (obj? o "dest").map parseDest
    specArtifact sid idx art &&
    (match art with
     | none => true
     | some a => (str? o "carried").map bytesOf == some a && boolD o "stored" &&
        (match dest with | some d => specArtDest showInt store sid idx d | none => false)) &&
    specHistory store (match art with | some a => seen ++ [a] | none => seen) steps obs
  | .reload st :: steps, _ :: obs => specHistory st seen steps obs
  | .resolve i :: steps, o :: obs =>
    (match seen[i]? with
     | none => true
     | some a =>
       match decodeArtifact a, (obj? o "dest").map parseDest with
       | some info, some d => specArtDest showInt store info.sourceId info.index d
       | none, some d => d == .refused
       | _, none => false) &&
    specHistory store seen steps obs
  | _, _ => false

def handle (line : Json) : Json :=
  let c := (obj? line "case").getD Json.null
  let impl := (obj? line "impl").getD Json.null
  match strD c "op" with
  | "b64enc" =>
    let d := (hex? c "data").getD []
    let m := b64encode d
    let iv := (hex? impl "enc").getD []
    res (Json.mkObj [("enc", jhex m)]) ("b64enc/len%3=" ++ toString (d.length % 3)) (specB64 d m) (specB64 d iv)
  | "b64dec" =>
    let t := text c "text"
    let m := b64decodeStr t
    res (Json.mkObj [("dec", jhexOpt m)])
      (if !t.all (· < 128) then "b64dec/non-ascii" else if m.isNone then "b64dec/error"
       else if t.all (fun x => (b64val x).isSome || x == 61) then "b64dec/clean" else "b64dec/lenient") true true
  | "escape" =>
    let t := text c "text"
    let m := htmlEscape t
    let iv := (hex? impl "esc").getD []
    res (Json.mkObj [("esc", jhex m)]) (if m == t then "escape/plain" else "escape/special") (specEscape t m) (specEscape t iv)
  | "quote" =>
    let t := text c "text"
    let m := quotePlus t
    let iv := (hex? impl "q").getD []
    res (Json.mkObj [("q", jhex m)]) (if m == t then "quote/plain" else "quote/special") (specQuote t m) (specQuote t iv)
  | "unquote" =>
    let t := text c "text"
    let m := unquotePlus t
    res (Json.mkObj [("u", jhex m)]) (if m == t then "unquote/plain" else "unquote/changed") true true
  | "urlencode" =>
    let ps := (arrD c "params").filterMap fun r =>
      match r with
      | .arr a => match a.toList with
        | [.str k, .str v] => some (bytesOf k, bytesOf v)
        | _ => none
      | _ => none
    let m := urlencode ps
    let iv := (hex? impl "q").getD []
    res (Json.mkObj [("q", jhex m)]) ("urlencode/n=" ++ toString (min ps.length 3)) (specUrlencode ps m) (specUrlencode ps iv)
  | "parse_qs" =>
    let t := text c "text"
    let qsl := parseQsl t
    let qs := parseQs t
    res (Json.mkObj [("qsl", pairsToJson qsl),
        ("qs", jarr (qs.map fun kv => jarr [jhex kv.1, jarr (kv.2.map jhex)]))])
      (if qsl.isEmpty then "parse_qs/empty" else if qs.length < qsl.length then "parse_qs/repeated" else "parse_qs/distinct") true true
  | "query" =>
    let t := text c "text"
    let q := queryOf (t.filter (fun x => x != 9 && x != 10 && x != 13))
    res (Json.mkObj [("query", jhex q), ("truthy", Json.bool (locQueryTruthy t))])
      (if t.contains 35 then "query/fragment" else if !t.contains 63 then "query/none" else if q.isEmpty then "query/empty" else "query/some")
      true true
  | "post" =>
    let typ := text c "typ"; let msg := text c "msg"; let loc := text c "loc"; let rs := text c "rs"
    let inflate := tableFn c "inflate"
    let saml := typ == sSAMLRequest || typ == sSAMLResponse
    match formPost typ msg loc rs with
    | none =>
      res (Json.mkObj [("html", Json.null)]) "post/refused" true true
    | some html =>
      let fields := fieldsUnesc html
      let payload := (fields.head?.map (·.2)).getD []
      let unr := if saml then unravelPost inflate payload else some payload
      let viaEntity := strD c "via" == "apply_binding"     -- `Entity.apply_binding` also reports where to send
      let model := Json.mkObj ([("html", jhex html), ("fields", pairsToJson fields),
        ("action", jhexOpt ((rawActions (tags html)).head?.map htmlUnescape)), ("unraveled", jhexOpt unr)] ++
        (if viaEntity then [("info_url", jhex loc), ("method", Json.str "POST")] else []))
      let ref := refForm (!rs.isEmpty)
      let ihtml := hex? impl "html"
      let specM := specForm inflate ref typ msg loc rs html && unr == some msg
      let specImpl := match ihtml with
        | none => false
        | some h => (if h == html then specM else specForm inflate ref typ msg loc rs h) &&
            implFieldsOk typ rs (pairsOf impl "fields") && hex? impl "action" == some loc &&
            hex? impl "unraveled" == some msg &&
            (!viaEntity || (hex? impl "info_url" == some loc && str? impl "method" == some "POST"))
      let path := "post/" ++ (if saml then "saml" else "other-typ") ++ (if rs.isEmpty then "" else "+relay") ++
        (if htmlEscape loc != loc || htmlEscape rs != rs then "+escaped" else "")
      res model path specM specImpl
  | "unravel" =>
    let t := text c "txt"
    let inflate := tableFn c "inflate"
    let b := strD c "binding"
    let kind : BindingKind := if b == "redirect" then .redirect else if b == "post" then .post
      else if b == "artifact" then .artifact else if b == "uri" || b == "none" then .plain else .unknown
    let m := unravel inflate kind t
    let want := hex? c "expect"
    let iv := hex? impl "out"
    let ok (o : Option Bytes) : Bool := match want with | some w => o == some w | none => true
    res (Json.mkObj [("out", jhexOpt m)])
      ("unravel/" ++ b ++ (if kind == .unknown then "/unknown-binding/refused" else if m.isNone then "/refused" else if b == "post" then
        (if ((b64decodeStr t).bind inflate).isSome then "/inflated" else "/plain") else "/ok")) (ok m) (ok iv)
  | "redirect" =>
    let typ := text c "typ"; let msg := text c "msg"; let loc := text c "loc"; let rs := text c "rs"
    let deflated := (hex? c "deflated").getD []
    let inflate : Bytes → Option Bytes := fun b => if b == deflated then some msg else none
    match redirectUrl (fun _ => deflated) typ msg loc rs with
    | none => res (Json.mkObj [("url", Json.null)]) "redirect/unknown-typ" true true
    | some url =>
      let ps := parseQsl (queryOf url)
      let v := qsFirstLast ps typ
      let unr := if typ == sSAMLart then v else v.bind (unravelRedirect inflate)
      let viaEntity := strD c "via" == "apply_binding"
      let model := Json.mkObj ([("url", jhex url), ("params", pairsToJson ps), ("unraveled", jhexOpt unr),
        ("relay", jhexOpt (qsFirstLast ps sRelayState))] ++
        (if viaEntity then [("info_url", jhex loc), ("method", Json.str "GET")] else []))
      let specOf (u : Bytes) := specRedirect inflate typ msg loc rs u
      let specM := specOf url
      -- the destination's own query already carries a parameter of the same name: the harness's
      -- receiver (last value wins) is not compared then
      let own := parseQsl (queryOf loc)
      let clash := own.any (fun kv => kv.1 == typ || kv.1 == sRelayState)
      let specImpl := match hex? impl "url" with
        | none => false
        | some u => (if u == url then specM else specOf u) &&
            (!viaEntity || (hex? impl "info_url" == some loc && str? impl "method" == some "GET")) &&
            (clash || (typ == sSAMLart && msg.isEmpty) || (hex? impl "unraveled" == some msg &&
              hex? impl "relay" == (if rs.isEmpty then none else some rs)))
      let path := "redirect/" ++ (if typ == sSAMLart then "art" else "saml") ++ (if rs.isEmpty then "" else "+relay") ++
        locPath loc ++ (if clash then "+clash" else "")
      res model path specM specImpl
  | "artifact_url" =>
    let art := text c "art"; let loc := text c "loc"; let rs := text c "rs"
    match some (artifactUrl art loc rs) with
    | none => res (Json.mkObj [("url", Json.null)]) "arturl/none" true true
    | some url =>
      let ps := parseQsl (queryOf url)
      let model := Json.mkObj [("url", jhex url), ("params", pairsToJson ps)]
      let specM := specArtifactUrl art loc rs url
      let specImpl := match hex? impl "url" with
        | none => false
        | some u => if u == url then specM else specArtifactUrl art loc rs u
      let path := "arturl" ++ (if rs.isEmpty then "" else "+relay") ++ locPath loc
      res model path specM specImpl
  | "soap" =>
    let thingy := points (strD c "thingy")
    let wrapped := soapWrapStr thingy
    let tree := str? c "tree"
    let tag := strD c "tag"
    let expected := strList c "expected"
    let hdrs := strList c "headers"
    let declPath := if (thingy.take 5).map asciiLower == sXmlDeclStart then
        (if (afterDeclEnd thingy).isSome then "decl" else "decl-unterminated") else "no-decl"
    match tree with
    | none =>
      res (Json.mkObj [("wrapped", Json.str (ofPoints wrapped)), ("env", Json.null), ("out", Json.null)])
        ("soap/str-only/" ++ declPath) true true
    | some t =>
      let tagOf : String → String := fun e => if e == t then tag else ""
      let env := soapWrapTree hdrs t
      let out := soapUnwrapTree tagOf expected env
      let model := Json.mkObj [("wrapped", if (obj? c "as_object").isSome then Json.null else Json.str (ofPoints wrapped)),
        ("env", envToJson env), ("out", unwToJson out)]
      let ienv := (obj? impl "env").map parseEnv
      let iout := parseUnw ((obj? impl "out").getD Json.null)
      let specImpl := match ienv with
        | none => false
        | some e => specSoapTree tagOf expected t e iout
      res model ("soap/" ++ (if (obj? c "as_object").isSome then "object" else declPath) ++
          (if hdrs.isEmpty then "" else "+headers") ++ (match out with | .elem _ => "/ok" | .empty => "/empty" | .refused => "/wrong-tag"))
        (specSoapTree tagOf expected t env out) specImpl
  | "soap_unwrap" =>
    let env := parseEnv ((obj? c "env").getD Json.null)
    let tagTable := (arrD c "tags").filterMap fun r =>
      match r with
      | .arr a => match a.toList with
        | [.str e, .str t] => some (e, t)
        | _ => none
      | _ => none
    let tagOf : String → String := fun e => ((tagTable.find? (fun r => r.1 == e)).map (·.2)).getD ""
    let out := soapUnwrapTree tagOf (strList c "expected") env
    res (Json.mkObj [("out", unwToJson out)])
      ("soap_unwrap/" ++ (if !env.tagOk then "wrong-root" else if env.parts.isEmpty then "no-parts"
        else match firstBody env.parts with
          | none => "no-body"
          | some [_] => (match out with | .elem _ => "ok" | _ => "wrong-tag")
          | some _ => "children!=1")) true true
  | "soap_open" =>
    -- header-carrying SOAP: wrap an element + header blocks, open with `parse_soap_message`
    let t := strD c "tree"
    let hdrs := strList c "headers"
    let unknown := strList c "unknown"
    let known : String → Bool := fun e => !unknown.contains e
    let env := soapWrapTree hdrs t
    let out := soapOpenTree known env
    let model := Json.mkObj [("env", envToJson env), ("opened", openedToJson out)]
    let ienv := (obj? impl "env").map parseEnv
    let iout := parseOpened ((obj? impl "opened").getD Json.null)
    let specImpl := match ienv with
      | none => false
      | some e => specSoapOpen known hdrs t e iout
    res model ("soap_open/" ++ (if hdrs.isEmpty then "no-header" else "headers=" ++ toString (min hdrs.length 3)) ++
        (match out with | .ok _ _ => "/ok" | .refused => "/unknown-class"))
      (specSoapOpen known hdrs t env out) specImpl
  | "soap_open_foreign" =>
    -- no envelope tree at all (the text is not XML): `XmlParseError`
    if (obj? c "env").isNone then res (Json.mkObj [("opened", openedToJson (.refused : Opened String))]) "soap_open_foreign/not-xml/refused" true true else
    let env := parseEnv ((obj? c "env").getD Json.null)
    let unknown := strList c "unknown"
    let known : String → Bool := fun e => !unknown.contains e
    let out := soapOpenTree known env
    let nBody := (env.parts.filter fun p => match p with | .body _ => true | _ => false).length
    let nHeader := (env.parts.filter fun p => match p with | .header _ => true | _ => false).length
    res (Json.mkObj [("opened", openedToJson out)])
      ("soap_open_foreign/" ++ (if !env.tagOk then "wrong-root" else if env.parts.isEmpty then "no-parts"
        else match out with
          | .refused => "refused/bodies=" ++ toString (min nBody 2)
          | .ok _ b => "ok/bodies=" ++ toString (min nBody 2) ++ "/headers=" ++ toString (min nHeader 2) ++
              (if b.isNone then "/no-body" else "")))
      (specSoapOpenForeign env out) (specSoapOpenForeign env (parseOpened ((obj? impl "opened").getD Json.null)))
  | "uri" =>
    let typ := text c "typ"; let msg := text c "msg"; let loc := text c "loc"
    let viaEntity := strD c "via" == "apply_binding"      -- `apply_binding(BINDING_URI, …)` hands no relay state on
    let rs := if viaEntity then [] else text c "rs"
    let pts := points (strD c "msg")
    match useHttpUri typ pts msg loc rs with
    | none => res (Json.mkObj [("r", Json.null)]) "uri/unknown-typ" true true
    | some (.response data) =>
      let model := Json.mkObj [("r", "response"), ("data", Json.str (ofPoints data)), ("unraveled", Json.str (ofPoints data))]
      let idata := (str? impl "data").map points
      let specImpl := match idata with
        | none => false
        | some d => specUriResponse pts d && (str? impl "unraveled").map points == some d
      res model ("uri/response/" ++ (if pts.contains 10 then "second-line" else if data == pts then "whole" else "stripped"))
        (specUriResponse pts data) specImpl
    | some (.request url) =>
      let ps := parseQsl (queryOf url)
      let model := Json.mkObj [("r", "request"), ("url", jhex url), ("params", pairsToJson ps)]
      let specImpl := match hex? impl "url" with
        | none => false
        | some u => (if u == url then specUriRequest msg loc rs url else specUriRequest msg loc rs u) &&
            (msg.isEmpty || pairsOf impl "params" == some (parseQsl (queryOf loc) ++ withRelay (sID, msg) rs))
      res model ("uri/request" ++ (if rs.isEmpty then "" else "+relay") ++ locPath loc)
        (specUriRequest msg loc rs url) specImpl
  | "artifact" =>
    let eid := text c "entity_id"
    let handle := (hex? c "handle").getD []
    let idx := intD c "idx"
    let sid := (hex? c "sourceid").getD []
    let store := parseStore c
    let art := createArtifact (fun _ => sid) eid handle idx
    let dest := art.map (artifact2destination showInt store)
    let model := Json.mkObj [("art", match art with | some a => Json.str (ofPoints a) | none => Json.null),
      ("dest", match dest with | some d => destToJson d | none => Json.null)]
    let iart := (str? impl "art").map bytesOf
    let idest := (obj? impl "dest").map parseDest
    let specOf (a : Option Bytes) (d : Option (ArtDest String)) : Bool :=
      specArtifact sid idx a && (match a, d with
        | some _, some d => specArtDest showInt store sid idx d
        | some _, none => false
        | none, _ => true)
    res model (match art, dest with
        | none, _ => "artifact/index-refused"
        | some _, some (.dest _) => "artifact/resolved"
        | some _, some .noEndpoint => "artifact/no-endpoint"
        | some _, _ => "artifact/unknown-issuer")
      (specOf art dest) (specOf iart idest)
  | "art_dest" =>
    let art := text c "art"
    let store := parseStore c
    let m := artifact2destination showInt store art
    res (Json.mkObj [("dest", destToJson m)])
      ("art_dest/" ++ (match decodeArtifact art with
        | none => "undecodable"
        | some _ => match m with | .dest _ => "resolved" | .noEndpoint => "no-endpoint" | .refused => "unknown-issuer")) true true
  | "art_history" =>
    let store := parseStore c
    let steps := (arrD c "steps").map parseStep
    let m := (runArt showInt { store := store } steps).map obsToJson
    let iv := arrD impl "obs"
    let nReload := (steps.filter fun s => match s with | .reload _ => true | _ => false).length
    let nIssued := (m.filter fun o => (str? o "art").isSome).length
    res (Json.mkObj [("obs", jarr m)])
      ("art_history/reloads=" ++ toString (min nReload 2) ++ (if nIssued == 0 then "/none-issued" else "/issued"))
      (specHistory store [] steps m) (specHistory store [] steps iv)
  | "art_fields" =>
    let hi := natD c "hi"
    let m := (List.range 256).map fun lo => showInt (decodeIndex [hi, lo])
    res (Json.mkObj [("idx", jstrs m)]) "art_fields" true true
  | op => Json.mkObj [("proto_error", Json.str ("unknown op " ++ op))]

def main : IO Unit := serve handle
