import PysamlModel.Core.Proto
import PysamlModel.Model.MdStore
import PysamlModel.Spec.C11
open Lean Proto MdStore

/-! JSON -> model input -/

def kindOf : String → Kind
  | "spsso" => .spsso | "idpsso" => .idpsso | "authn_authority" => .authn
  | "attribute_authority" => .aa | "pdp" => .pdp | _ => .affiliation

def optKind (j : Json) (k : String) : Option Kind := (str? j k).map kindOf

def parseEp (j : Json) : Endpoint String :=
  { svc := strD j "svc", binding := strD j "binding", location := strD j "location", index := str? j "index" }

def parseRole (j : Json) : Role String :=
  { kind := kindOf (strD j "kind"), protocols := strList j "protocols",
    endpoints := (arrD j "endpoints").map parseEp,
    keys := (arrD j "keys").map (fun k => { use := str? k "use", cert := strD k "cert", nocert := (str? k "nocert").isSome }),
    reqAttrs := (arrD j "req_attrs").map (fun r => { acs := strD r "acs", name := strD r "name", required := str? r "required" }) }

def parsePair (j : Json) : String × String :=
  match asArr j with
  | [a, b] => ((asStr? a).getD "", (asStr? b).getD "")
  | _ => ("", "")

def parseReg (j : Json) : Reg String :=
  { authority := str? j "authority", instant := str? j "instant", policies := (arrD j "policies").map parsePair }

def parseAttr (j : Json) : String × List String :=
  match asArr j with
  | [a, b] => ((asStr? a).getD "", asStrList (asArr b))
  | _ => ("", [])

def parseEnt (j : Json) : Ent String :=
  { id := strD j "id", tag := strD j "tag", validUntil := int? j "valid_until",
    roles := (arrD j "roles").map parseRole, attrs := (arrD j "attrs").map parseAttr,
    regs := (arrD j "regs").map parseReg }

def sigOf : String → Sig
  | "valid" => .valid | "tampered" => .tampered | "wrongkey" => .wrongKey | _ => .unsigned

def parseDocJ (j : Json) : Doc String :=
  { group := boolD j "group", validUntil := int? j "valid_until", sig := sigOf (strD j "sig"),
    entities := (arrD j "entities").map parseEnt }

def parseFetch (j : Json) : Fetch String :=
  match strD j "t" with
  | "doc" => .doc (parseDocJ ((obj? j "doc").getD Json.null))
  | "malformed" => .malformed
  | _ => .unavailable

def srcKindOf : String → SrcKind
  | "file" => .file | "inline" => .inline | "loader" => .loader | "remote" => .remote | _ => .mdq

def parseFilt (j : Json) : Filt String :=
  { drop := strList j "drop",
    need := match (arr? j "need").map (·.map (fun x => (asStr? x).getD "")) with
      | some [n, v] => some (n, v)
      | _ => none,
    strip := (strList j "strip").map kindOf }

def parseSpec (j : Json) : SrcSpec String :=
  { key := strD j "key", kind := srcKindOf (strD j "kind"), cert := boolD j "cert", chk := boolD j "chk" true,
    fresh := natD j "fresh", fetch := parseFetch ((obj? j "fetch").getD Json.null),
    filt := (obj? j "filt").map parseFilt }

def parseQuery (j : Json) : Query String :=
  let eid := strD j "eid"
  match strD j "t" with
  | "get" => .get eid
  | "service" => .service eid (kindOf (strD j "kind")) (strD j "svc") (str? j "binding")
  | "certs" => .certs eid (optKind j "kind") (strD j "use")
  | "attr_req" => .attrReq eid (str? j "index")
  | "cats" => .cats eid
  | "reg" => .reg eid
  | "keys" => .keys
  | "items" => .items
  | _ => .withDesc (kindOf (strD j "kind"))

def parseOp (j : Json) : Op String :=
  match strD j "t" with
  | "imp" => .imp ((arrD j "specs").map parseSpec)
  | "reload" => .reload ((arrD j "specs").map parseSpec)
  | _ => .q (parseQuery ((obj? j "q").getD Json.null))

def parseMdq (j : Json) : Option (List (MdqResp String)) :=
  (arr? j "mdq").map (·.map (fun r => { src := strD r "src", eid := strD r "eid", fetch := parseFetch ((obj? r "fetch").getD Json.null) }))

/-- a step without an "mdq" entry keeps the MDQ servers' answers of the step before -/
def parseSteps : List Json → List (MdqResp String) → List (Step String)
  | [], _ => []
  | j :: rest, prev =>
    let mdq := (parseMdq j).getD prev
    { now := intD j "now", mdq := mdq, op := parseOp ((obj? j "op").getD Json.null) } :: parseSteps rest mdq

/-! observations <-> JSON -/

def epToJson (e : Endpoint String) : Json :=
  Json.mkObj [("svc", e.svc), ("binding", e.binding), ("location", e.location), ("index", optStr e.index)]

def regToJson (r : Reg String) : Json :=
  Json.mkObj [("authority", optStr r.authority), ("instant", optStr r.instant),
    ("policies", jarr (r.policies.map (fun p => jarr [Json.str p.1, Json.str p.2])))]

def ansToJson : Ans String → Json
  | .done ok => Json.mkObj [("a", "done"), ("ok", ok)]
  | .ent t k => Json.mkObj [("a", "ent"), ("tag", t), ("kinds", jnats k)]
  | .missing => Json.mkObj [("a", "missing")]
  | .unsupported => Json.mkObj [("a", "unsupported")]
  | .raised => Json.mkObj [("a", "raised")]
  | .eps l => Json.mkObj [("a", "eps"), ("l", jarr (l.map epToJson))]
  | .strs l => Json.mkObj [("a", "strs"), ("l", jstrs l)]
  | .req a b => Json.mkObj [("a", "req"), ("required", jstrs a), ("optional", jstrs b)]
  | .reg r => Json.mkObj [("a", "reg"), ("r", match r with | some r => regToJson r | none => Json.null)]
  | .ents l => Json.mkObj [("a", "ents"), ("l", jarr (l.map (fun p => jarr [Json.str p.1, Json.str p.2])))]

def parseAns (j : Json) : Ans String :=
  match strD j "a" with
  | "done" => .done (boolD j "ok")
  | "ent" => .ent (strD j "tag") (natList j "kinds")
  | "missing" => .missing
  | "unsupported" => .unsupported
  | "eps" => .eps ((arrD j "l").map parseEp)
  | "strs" => .strs (strList j "l")
  | "req" => .req (strList j "required") (strList j "optional")
  | "reg" => .reg ((obj? j "r").map parseReg)
  | "ents" => .ents ((arrD j "l").map parsePair)
  | _ => .raised

/-! branch labels (evidence only): which branches of the model a history goes through -/

def kindName : SrcKind → String
  | .file => "file" | .inline => "inline" | .loader => "loader" | .remote => "remote" | .mdq => "mdq"

def entLabel (g : Ent String → Option (Ent String)) (chk : Bool) (now : Int) (p2 : String) (m : EntMap String) (e : Ent String) : String :=
  if chk && expired now e.validUntil then "ent/expired"
  else if has m e.id then "ent/duplicate-id"
  else match prepEnt p2 e with
    | none => "ent/no-saml2-role"
    | some d =>
      if (g d).isNone then "ent/filter-refused"
      else if g d != some d then
        (if ((g d).map (fun x => x.roles.isEmpty)).getD false then "ent/stored-filter-stripped-every-descriptor" else "ent/stored-filter-rewritten")
      else if d.roles.length < e.roles.length then
        (if e.roles.any (fun r => !saml2 p2 r && d.roles.any (fun r' => decide (r'.kind = r.kind)))
         then "ent/stored-non-saml2-sibling-role-dropped" else "ent/stored-some-roles-dropped")
      else "ent/stored"

def entLabels (g : Ent String → Option (Ent String)) (chk : Bool) (now : Int) (p2 : String) : EntMap String → List (Ent String) → List String
  | _, [] => []
  | m, e :: rest => entLabel g chk now p2 m e :: entLabels g chk now p2 (doEntityF g chk now p2 m e) rest

def sigLabel (k : SrcKind) (cert : Bool) (s : Sig) : String :=
  if !cert then "sig/no-cert"
  else match s with
    | .unsigned => "sig/unsigned-with-cert"
    | .valid => if k.hasSec then "sig/valid" else "sig/valid-but-no-security-context"
    | .tampered => "sig/tampered"
    | .wrongKey => "sig/wrong-key"

def docLabels (g : Ent String → Option (Ent String)) (chk : Bool) (now : Int) (p2 : String) (m : EntMap String) (k : SrcKind) (cert : Bool) (d : Doc String) : List String :=
  if d.group && chk && expired now d.validUntil then ["doc/group-too-old"]
  else
    (if d.group then ["doc/group"] else ["doc/single"]) ++
    entLabels g chk now p2 m (if d.group then d.entities else d.entities.take 1) ++ [sigLabel k cert d.sig]

def loadLabels (p2 : String) (now : Int) (sp : SrcSpec String) : List String :=
  let res := match loadSource Policy.code p2 now sp with
    | .ok _ => "ok"
    | .error .unavailable => "unavailable"
    | .error .parse => "malformed"
    | .error .tooOld => "too-old"
    | .error .signature => "signature"
  ["load/" ++ kindName sp.kind ++ "/" ++ res] ++
  (match sp.kind, sp.fetch with
   | .loader, _ => []
   | .mdq, _ => []
   | k, .doc d =>
     (match sp.filt with
      | none => docLabels some sp.chk now p2 [] k (effCert k sp.cert) d
      | some f => "load/with-filter" :: docLabels (applyFilt f) sp.chk now p2 [] k (effCert k sp.cert) d)
   | _, _ => [])

/-- labels of the specs `imp` actually reaches (it stops at the first failure) -/
def impLabels (p2 : String) (now : Int) : List (SrcSpec String) → List String
  | [] => []
  | sp :: rest =>
    loadLabels p2 now sp ++
    (match loadSource Policy.code p2 now sp with
     | .ok _ => impLabels p2 now rest
     | .error _ => ["imp/stopped-at-" ++ (if rest.isEmpty then "last" else "inner")])

def mdqLabels (env : Env String) (st : Store String) (eid : String) : List String :=
  st.flatMap fun s =>
    if s.kind = .mdq then
      let resp := env.mdq s.key eid
      let fetchL : List String :=
        match resp with
        | .unavailable => ["mdq/fetch-http-error"]
        | .malformed => ["mdq/fetch-malformed"]
        | .doc d =>
          match parseDoc s.chk env.now env.c.p2 s.entities d with
          | .error _ => ["mdq/fetch-too-old"]
          | .ok m =>
            docLabels some s.chk env.now env.c.p2 (erase s.entities eid) .mdq s.cert d ++
            (if checkSig Policy.code .mdq s.cert d.sig then
               (if (lookup m eid).isSome then ["mdq/fetch-ok"] else ["mdq/fetch-ok-entity-absent"])
             else ["mdq/fetch-signature-error"])
      if !has s.entities eid then "mdq/not-cached" :: fetchL
      else match getKV s.expiry eid with
        | none => ["mdq/listed-without-expiry"]
        | some t => if env.now ≤ t then ["mdq/cached-fresh"] else "mdq/stale-refetch" :: fetchL
    else []

def ansClass : Ans String → String
  | .done ok => if ok then "ok" else "failed"
  | .ent _ _ => "found"
  | .missing => "missing"
  | .unsupported => "unsupported"
  | .raised => "raised"
  | .eps _ => "endpoints"
  | .strs l => if l.isEmpty then "empty" else "values"
  | .req a b => if a.isEmpty && b.isEmpty then "empty" else "values"
  | .reg r => if r.isSome then "info" else "none"
  | .ents l => if l.isEmpty then "empty" else "listed"

def queryName : Query String → String × Option String
  | .get e => ("get", some e)
  | .service e _ _ b => (if b.isSome then "service" else "service-any-binding", some e)
  | .certs e k _ => (if k.isSome then "certs" else "certs-any", some e)
  | .attrReq e i => (if i.isSome then "attr-req-index" else "attr-req", some e)
  | .cats e => ("cats", some e)
  | .reg e => ("reg", some e)
  | .keys => ("keys", none)
  | .items => ("items", none)
  | .withDesc _ => ("with-descriptor", none)

def stepLabels (c : Consts String) (st : Store String) (s : Step String) (a : Ans String) : List String :=
  match s.op with
  | .imp specs =>
    ["imp/" ++ ansClass a] ++ impLabels c.p2 s.now specs ++
    (if specs.any (fun sp => st.any (fun x => x.key == sp.key)) then ["imp/key-already-registered-replaced-in-place"] else []) ++
    (if st.isEmpty then [] else ["imp/on-top-of-loaded-store"])
  | .reload specs => ["reload/" ++ (if a == .done true then "ok" else "rolled-back")] ++ impLabels c.p2 s.now specs
  | .q qu =>
    let (n, e) := queryName qu
    let holders := match e with
      | some e => (st.filter (fun x => has x.entities e)).length
      | none => 0
    let ks := keysOf st
    ["q/" ++ n ++ "/" ++ ansClass a] ++
    (if holders ≥ 2 then ["q/" ++ n ++ "/entity-in-several-sources"] else []) ++
    (if e.isNone && ks.eraseDups.length < ks.length then ["q/" ++ n ++ "/some-entity-in-several-sources"] else []) ++
    (match e with
     | some e => (match qu with
        | .attrReq _ _ => []
        | _ => mdqLabels (s.env Policy.code c) st e)
     | none => [])

def labelsRun (c : Consts String) : Store String → List (Step String) → List String
  | _, [] => []
  | st, s :: rest =>
    let (a, st') := step Policy.code c st s
    stepLabels c st s a ++ labelsRun c st' rest

def handle (line : Json) : Json :=
  let cs := (obj? line "case").getD Json.null
  let impl := (obj? line "impl").getD Json.null
  let cj := (obj? cs "consts").getD Json.null
  let c : Consts String := { p2 := strD cj "p2", ecName := strD cj "ec", trueStr := strD cj "true" "true" }
  let h := parseSteps (arrD cs "steps") []
  let implObs := (arrD impl "obs").map parseAns
  let m := (run Policy.code c [] h).1
  let labels := (labelsRun c [] h).eraseDups
  let specImpl := specRun c h implObs
  -- which single departure of the code from the property (if any) explains the observations
  let withF9 := specRunWith ⟨true, false⟩ c h implObs
  -- the behaviour before fix 85b6178b (F11), alone and together with F9: tells the classifier when
  -- exactly that old defect is back
  let withF11 := specRunWith ⟨false, true⟩ c h implObs || specRunWith ⟨true, true⟩ c h implObs
  let clean := cleanRun c [] h
  let path :=
    (if h.any (fun s => match s.op with | .reload _ => true | _ => false) then "reload" else "load") ++
    (if labels.any (fun l => l.startsWith "mdq/") then "+mdq" else "") ++
    (if labels.any (fun l => l == "reload/rolled-back" || l.startsWith "imp/stopped") then "+failed-load" else "") ++
    (if clean then "" else "+known-departure-input")
  let why : Json :=
    if specImpl then Json.null
    else Json.mkObj [("first_bad_step", match firstBad (run Policy.ideal c [] h).1 implObs 0 with | some n => toJson n | none => Json.null),
                     ("holds_if_unsigned_passes", withF9), ("holds_if_mdq_stores_first", withF11)]
  Json.mkObj [("model", Json.mkObj [("obs", jarr (m.map ansToJson))]), ("path", path),
    ("branches", jstrs labels), ("clean", clean),
    ("spec_model", specRun c h m), ("spec_impl", specImpl), ("why", why)]

def main : IO Unit := serve handle
