"""C13 translator (b): the rows of pysaml2's class tables that decide the order and number of child
elements (`c_child_order`, `c_children`, `c_cardinality`)  ->  lean/PysamlModel/Gen/ClassRows.lean.

One row per element class of saml, samlp, md, xmldsig, xmlenc whose qualified tag is a global element
of the regenerated schema set and whose type has element content.  Name ids are those of Gen/Schema.lean
(same interning table), so both files are produced together.
"""
import importlib

from translate import schema as TS

MODULES = ["saml2.saml", "saml2.samlp", "saml2.md", "saml2.xmldsig", "saml2.xmlenc"]

# Rows for which OrderCompat is NOT claimed (hand-maintained; everything else must pass `C13_order_table`,
# so a class table that stops following its XSD sequence breaks the build instead of dropping out silently).
EXCLUDED = {
    "saml.AttributeStatement": "XSD: choice(Attribute|EncryptedAttribute)+ ; the class lets both members be empty",
    "saml.AuthnContext": "nested choice/sequence content model",
    "saml.Evidence": "XSD: choice(...)+ ; the class lets all members be empty",
    "saml.Subject": "nested choice/sequence content model",
    "saml.SubjectConfirmation": "optional choice of three identifiers (at most one); the class allows one of each",
    "samlp.Extensions": "XSD: any ##other, at least one; the class has no members (extension elements only)",
    "md.Extensions": "XSD: any ##other, at least one; the class has no members (extension elements only)",
    "samlp.LogoutRequest": "choice(BaseID|NameID|EncryptedID) exactly one; the class allows one of each",
    "samlp.ManageNameIDRequest": "two exactly-one choices; the class allows one of each member",
    "samlp.NameIDMappingRequest": "choice(BaseID|NameID|EncryptedID) exactly one; the class allows one of each",
    "samlp.NameIDMappingResponse": "choice(NameID|EncryptedID) exactly one; the class allows one of each",
    "samlp.RequestedAuthnContext": "choice(AuthnContextClassRef+ | AuthnContextDeclRef+)",
    "md.EntitiesDescriptor": "XSD: choice(EntityDescriptor|EntitiesDescriptor)+ ; the class lets both be empty",
    "md.EntityDescriptor": "choice(role descriptors+ | AffiliationDescriptor)",
    "xmldsig.DSAKeyValue": "nested optional sequences", "xmldsig.KeyValue": "choice with wildcard, exactly one",
    "xmldsig.Object": "wildcard-only content", "xmldsig.PGPData": "choice of sequences", "xmldsig.SPKIData": "repeated sequence with wildcard",
    "xmldsig.SignatureProperty": "choice with wildcard, at least one", "xmldsig.X509Data": "repeated choice, at least one",
    "xmlenc.AgreementMethod": "wildcards between members", "xmlenc.CipherData": "choice(CipherValue|CipherReference) exactly one",
    "xmlenc.CipherReference": "optional choice", "xmlenc.EncryptionProperty": "wildcard choice, at least one",
    "xmlenc.ReferenceList": "choice(DataReference|KeyReference)+",
}


def split_tag(tag):
    if tag.startswith("{"):
        ns, local = tag[1:].split("}", 1)
        return ns, local
    return "", tag


def class_rows(t):
    """-> list of dicts(label, module, cls, elem, type_idx, members=[dict(member, tag, ns, local, list, min, max)])"""
    rows = []
    glob = dict(t.globals)  # name id -> decl idx
    for mname in MODULES:
        mod = importlib.import_module(mname)
        short = mname.split(".")[-1]
        for cname in sorted(n for n in dir(mod) if isinstance(getattr(mod, n), type)):
            cls = getattr(mod, cname)
            if getattr(cls, "__module__", None) != mname or not getattr(cls, "c_tag", None):
                continue
            if not hasattr(cls, "c_children") or cname.endswith("_"):
                continue
            key = (cls.c_namespace, cls.c_tag)
            nid = t.name_id.get(key)
            if nid is None or nid not in glob:
                continue
            ty = t.elems[glob[nid]]["ty"]
            if not ty.startswith(".complex "):
                continue
            ti = int(ty.split()[1])
            if t.types[ti]["content"][0] != "elems":
                continue
            by_member = {}
            for tag, (member, klass) in cls.c_children.items():
                by_member.setdefault(member, []).append((tag, klass))
            order = list(cls.c_child_order) if len(cls.c_child_order) > 0 else [v[0] for v in cls.c_children.values()]
            members, seen = [], set()
            for member in order:
                if member in seen:
                    continue  # written once per occurrence in the list; a repeated name would repeat the items
                seen.add(member)
                for tag, klass in by_member.get(member, []):
                    ns, local = split_tag(tag)
                    is_list = isinstance(klass, list)
                    card = cls.c_cardinality.get(member)
                    lo = card.get("min", 1) if card is not None else 1
                    hi = card.get("max") if card is not None else None
                    if not is_list:
                        hi = 1 if hi is None else min(hi, 1)
                    members.append({"member": member, "tag": tag, "ns": ns, "local": local, "list": is_list,
                                    "min": int(lo), "max": None if hi is None else int(hi)})
            rows.append({"label": "%s.%s" % (short, cname), "module": mname, "cls": cname, "elem": nid,
                         "type_idx": ti, "members": members})
    return rows


def qn_term(t, ns, local):
    nid = t.name_id.get((ns, local), 0)
    nsid = t.ns_id.get(ns, 1)
    return "⟨%d, %d⟩" % (nsid, nid)


def render_rows(t, rows):
    L = ["/-", "  GENERATED by harness/translate/classrows.py from the class tables of %s — do not edit." % ", ".join(MODULES),
         "-/", "import PysamlModel.Model.ClassOrder", "import PysamlModel.Gen.Schema", "namespace Gen.ClassRows",
         "open Validate", ""]

    def item(r):
        ms = ", ".join("{ tag := %s, min := %d, max := %s }" % (
            qn_term(t, m["ns"], m["local"]), m["min"], "none" if m["max"] is None else "some %d" % m["max"])
            for m in r["members"])
        return "  { label := %s, elem := %d, ps := Gen.Schema.p%d, members := [%s] }" % (
            TS.lean_str(r["label"]), r["elem"], r["type_idx"], ms)

    L.append("/-- rows for which OrderCompat is claimed (checked by `C13_order_table`) -/")
    L.append("def rows : List ClassRow := [")
    L.append(",\n".join(item(r) for r in rows if r["label"] not in EXCLUDED))
    L += ["]", "", "/-- rows outside the claim (content model is not a plain sequence, or the class is laxer than the XSD) -/",
          "def excluded : List ClassRow := ["]
    L.append(",\n".join("  /- %s -/\n%s" % (EXCLUDED[r["label"]], item(r)) for r in rows if r["label"] in EXCLUDED))
    L += ["]", "", "end Gen.ClassRows", ""]
    return "\n".join(L)


def gen_all():
    t = TS.translate()
    rows = class_rows(t)
    # rendering the schema after the rows keeps names interned by the rows (none are added: unknown = 0)
    return {"PysamlModel/Gen/Schema.lean": TS.render(t), "PysamlModel/Gen/ClassRows.lean": render_rows(t, rows)}


if __name__ == "__main__":
    import sys

    sys.stdout.write(gen_all()["PysamlModel/Gen/ClassRows.lean"])
