"""C14 translator: saml2.pack.HTML_FORM_SPEC / HTML_INPUT_ELEMENT_SPEC -> Gen/FormSpec.lean.

The two `str.format` templates are split with `string.Formatter().parse` (the parser `str.format`
itself uses) into (literal text, replacement field) pairs; literal text is emitted as UTF-8 byte
lists, replacement fields as small codes:

    0 = none (trailing text)   1 = action   2 = saml_response_input   3 = relay_state_input
    4 = type                   5 = name     6 = val                   99 = anything else

A field with a conversion or format spec cannot be modelled and makes the translator fail (the
runner reports that as a broken obligation).  Also emitted: the SOAP envelope namespace and the
`PREFIX` string (the declaration text `make_soap_enveloped_saml_thingy` used to remove everywhere; now only
used by a regression example), as code point lists.  Deterministic.
"""
import string

from .common import HEADER

REL = "PysamlModel/Gen/FormSpec.lean"
CODES = {"action": 1, "saml_response_input": 2, "relay_state_input": 3, "type": 4, "name": 5, "val": 6}


def _bytes(s):
    return "[" + ", ".join(str(b) for b in s.encode("utf-8")) + "]"


def _points(s):
    return "[" + ", ".join(str(ord(c)) for c in s) + "]"


def split_template(tmpl):
    rows = []
    for lit, field, spec, conv in string.Formatter().parse(tmpl):
        if field is None:
            rows.append((lit, 0))
            continue
        if spec or conv:
            raise ValueError("replacement field {%s} carries a conversion/format spec: not modelled" % field)
        rows.append((lit, CODES.get(field, 99)))
    if not rows or rows[-1][1] != 0:
        rows.append(("", 0))
    return rows


def generate():
    from saml2 import pack

    out = [HEADER % "formspec.py", "namespace Gen.FormSpec\n"]
    for name, tmpl in (("formSpec", pack.HTML_FORM_SPEC), ("inputSpec", pack.HTML_INPUT_ELEMENT_SPEC)):
        rows = split_template(tmpl)
        out.append("/-- `saml2.pack.%s`: (literal bytes, code of the replacement field that follows) -/" % (
            "HTML_FORM_SPEC" if name == "formSpec" else "HTML_INPUT_ELEMENT_SPEC"))
        out.append("def %s : List (List Nat × Nat) := [" % name)
        out.append(",\n".join("  (%s, %d)" % (_bytes(lit), code) for lit, code in rows))
        out.append("]\n")
    out.append("/-- `saml2.pack.NAMESPACE` (SOAP envelope namespace), code points -/")
    out.append("def soapNamespace : List Nat := %s\n" % _points(pack.NAMESPACE))
    out.append("/-- `saml2.pack.PREFIX`, the declaration text (regression witness of d02e146f), code points -/")
    out.append("def xmlPrefix : List Nat := %s\n" % _points(getattr(pack, "PREFIX", '<?xml version="1.0" encoding="UTF-8"?>')))
    out.append("end Gen.FormSpec\n")
    return {REL: "\n".join(out)}


if __name__ == "__main__":
    for k, v in generate().items():
        print(v)
