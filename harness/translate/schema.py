"""C13 translator (a): the XSD documents pysaml2 validates against  ->  lean/PysamlModel/Gen/Schema.lean.

Which documents: exactly the ones the library's default validator (`saml2.xml.schema`) has loaded
(read from the live validator object, so a change of the `locations` table is followed), minus the
XSD meta-schema and the XMLSchema-instance schema (built-in types and `xsi:*` attributes are part of
the Lean model).  The XSD files themselves are parsed here with ElementTree, independently of
`xmlschema`: element declarations, complex types (sequence / choice / any / extension / restriction /
simpleContent), attribute uses, attribute groups, attribute wildcards, simple types (restriction with
enumeration / maxLength / finite pattern, list, union).  Anything outside that fragment raises: the
run then reports a broken translator instead of silently approximating.

Names are interned (the Lean side never compares strings):
  namespace ids: 0 = no namespace, 1 = unknown namespace, 2.. = `nss`
  name ids:      0 = unknown name, 1.. = `names` (element and attribute names, as (ns id, local name))
"""
import os
import re
import xml.etree.ElementTree as ET

XS = "http://www.w3.org/2001/XMLSchema"
XSI = "http://www.w3.org/2001/XMLSchema-instance"
XMLNS = "http://www.w3.org/XML/1998/namespace"

BUILTINS = {
    "anySimpleType": "anySimple", "anyAtomicType": "anySimple", "string": "string", "normalizedString": "normalizedString",
    "token": "token", "language": "language", "Name": "name", "NCName": "ncName", "ID": "id", "IDREF": "idref",
    "ENTITY": "entity", "NMTOKEN": "nmtoken", "anyURI": "anyURI", "QName": "qname", "boolean": "boolean",
    "decimal": "decimal", "float": "float", "double": "double", "integer": "integer",
    "nonNegativeInteger": "nonNegativeInteger", "positiveInteger": "positiveInteger",
    "nonPositiveInteger": "nonPositiveInteger", "negativeInteger": "negativeInteger", "long": "long", "int": "int",
    "short": "short", "byte": "byte", "unsignedLong": "unsignedLong", "unsignedInt": "unsignedInt",
    "unsignedShort": "unsignedShort", "unsignedByte": "unsignedByte", "dateTime": "dateTime", "date": "date",
    "time": "time", "duration": "duration", "base64Binary": "base64Binary", "hexBinary": "hexBinary",
}


class TranslateError(Exception):
    pass


def q(tag):
    return "{%s}%s" % (XS, tag)


def clark(ns, local):
    return "{%s}%s" % (ns, local) if ns else local


class Doc:
    def __init__(self, path):
        self.path = path
        self.nsmap = {}  # element -> prefix map in scope
        stack = [{"xml": XMLNS}]
        pending = []
        self.root = None
        for ev, x in ET.iterparse(path, events=("start-ns", "start", "end")):
            if ev == "start-ns":
                pending.append(x)
            elif ev == "start":
                m = dict(stack[-1])
                m.update(dict(pending))
                pending = []
                stack.append(m)
                self.nsmap[x] = m
                if self.root is None:
                    self.root = x
            else:
                stack.pop()
        r = self.root
        if r.tag != q("schema"):
            raise TranslateError("%s: not an XSD schema" % path)
        self.tns = r.get("targetNamespace", "")
        self.efd = r.get("elementFormDefault", "unqualified") == "qualified"
        self.afd = r.get("attributeFormDefault", "unqualified") == "qualified"

    def resolve(self, el, name):
        """QName text -> (ns uri, local)"""
        name = name.strip()
        if ":" in name:
            p, l = name.split(":", 1)
            if p not in self.nsmap[el]:
                raise TranslateError("%s: undeclared prefix %r" % (self.path, p))
            return self.nsmap[el][p], l
        return self.nsmap[el].get("", ""), name


def schema_files():
    """Files the library's validator has loaded, in a deterministic order."""
    import saml2.xml.schema as sx

    v = sx._schema_validator_default
    out = []
    for ns, schemas in v.maps.namespaces.items():
        if ns in (XS, XSI):
            continue
        for s in schemas:
            url = s.url or ""
            if url.startswith("file://"):
                url = url[len("file://"):]
            out.append((ns, url))
    return sorted(out)


class Translator:
    def __init__(self, files):
        self.docs = [Doc(p) for _, p in files]
        self.files = files
        self.g_elem, self.g_type, self.g_attr, self.g_agroup = {}, {}, {}, {}
        for d in self.docs:
            for ch in d.root:
                if not isinstance(ch.tag, str):
                    continue
                name = ch.get("name")
                key = clark(d.tns, name) if name else None
                if ch.tag == q("element"):
                    self.g_elem[key] = (d, ch)
                elif ch.tag in (q("complexType"), q("simpleType")):
                    self.g_type[key] = (d, ch)
                elif ch.tag == q("attribute"):
                    self.g_attr[key] = (d, ch)
                elif ch.tag == q("attributeGroup"):
                    self.g_agroup[key] = (d, ch)
                elif ch.tag in (q("import"), q("annotation"), q("include")):
                    if ch.tag == q("include"):
                        raise TranslateError("xs:include not supported")
                elif ch.tag in (q("group"), q("notation"), q("redefine")):
                    raise TranslateError("unsupported top-level component %s in %s" % (ch.tag, d.path))
        # interning
        nsset = {d.tns for d in self.docs if d.tns} | {XSI, XMLNS}
        rest = sorted(nsset - {XSI, XMLNS})
        self.nss = [XSI, XMLNS] + rest
        self.ns_id = {u: i + 2 for i, u in enumerate(self.nss)}
        self.ns_id[""] = 0
        self.names = [(XSI, "type"), (XSI, "nil"), (XSI, "schemaLocation"), (XSI, "noNamespaceSchemaLocation")]
        self.name_id = {n: i + 1 for i, n in enumerate(self.names)}
        # complex types / element declarations
        self.types = []  # compiled dicts
        self.type_idx = {}  # key -> idx
        self.elems = []
        self.elem_idx = {}
        self.simple_cache = {}
        self.globals = []
        for key in sorted(self.g_elem):
            self.elem_decl(("g", key))
        self.globals = sorted((self.elems[i]["name"], i) for k, i in self.elem_idx.items() if k[0] == "g")
        self.gattrs = []
        for key in sorted(self.g_attr):
            d, el = self.g_attr[key]
            nid = self.intern(d.tns, el.get("name"))
            self.gattrs.append((nid, self.attr_type(d, el)))
        # named types for xsi:type
        self.type_names = []
        for key in sorted(self.g_type):
            d, el = self.g_type[key]
            if el.tag == q("complexType"):
                self.type_names.append((key, ".complex %d" % self.complex_type(("n", key))))
            else:
                self.type_names.append((key, ".simple (%s)" % self.simple_type_named(key)))
        for b in sorted(BUILTINS):
            self.type_names.append((clark(XS, b), ".simple (.prim .%s)" % BUILTINS[b]))
        self.type_names.append((clark(XS, "anyType"), ".anyType"))

    # ---------------------------------------------------------------- interning
    def intern(self, ns, local):
        k = (ns, local)
        if k not in self.name_id:
            if ns and ns not in self.ns_id:
                self.nss.append(ns)
                self.ns_id[ns] = len(self.nss) + 1
            self.names.append(k)
            self.name_id[k] = len(self.names)
        return self.name_id[k]

    # ---------------------------------------------------------------- simple types
    def simple_type_ref(self, d, el, qname):
        ns, local = d.resolve(el, qname)
        if ns == XS:
            if local not in BUILTINS:
                raise TranslateError("built-in simple type xs:%s is not modelled" % local)
            return ".prim .%s" % BUILTINS[local]
        return self.simple_type_named(clark(ns, local))

    def simple_type_named(self, key):
        if key in self.simple_cache:
            return self.simple_cache[key]
        if key not in self.g_type:
            raise TranslateError("unknown type %s" % key)
        d, el = self.g_type[key]
        if el.tag != q("simpleType"):
            raise TranslateError("%s is not a simple type" % key)
        r = self.simple_type_inline(d, el)
        if r.startswith(".restrict") or r.startswith(".prim"):
            # a named type is a type of its own, also when it adds no facet to its base
            r = ".restrict (%s) (.named %d)" % (r, len(self.simple_cache))
        self.simple_cache[key] = r
        return r

    def simple_type_inline(self, d, el):
        kids = [c for c in el if isinstance(c.tag, str) and c.tag != q("annotation")]
        if len(kids) != 1:
            raise TranslateError("simpleType with %d children" % len(kids))
        c = kids[0]
        if c.tag == q("restriction"):
            if c.get("base"):
                base = self.simple_type_ref(d, c, c.get("base"))
            else:
                inner = c.find(q("simpleType"))
                base = self.simple_type_inline(d, inner)
            return self.apply_facets(base, c)
        if c.tag == q("list"):
            if c.get("itemType"):
                item = self.simple_type_ref(d, c, c.get("itemType"))
            else:
                item = self.simple_type_inline(d, c.find(q("simpleType")))
            return ".list (%s)" % item
        if c.tag == q("union"):
            members = [self.simple_type_ref(d, c, m) for m in (c.get("memberTypes") or "").split()]
            members += [self.simple_type_inline(d, s) for s in c.findall(q("simpleType"))]
            if not members:
                raise TranslateError("empty union")
            r = members[-1]
            for m in reversed(members[:-1]):
                r = ".union (%s) (%s)" % (m, r)
            return r
        raise TranslateError("unsupported simpleType child %s" % c.tag)

    def apply_facets(self, base, restr):
        enums, out = [], base
        for f in restr:
            if not isinstance(f.tag, str) or f.tag in (q("annotation"), q("simpleType"), q("attribute"),
                                                       q("attributeGroup"), q("anyAttribute")):
                continue
            if f.tag == q("enumeration"):
                enums.append(f.get("value"))
            elif f.tag == q("maxLength"):
                out = ".restrict (%s) (.maxLength %d)" % (out, int(f.get("value")))
            elif f.tag == q("pattern"):
                out = ".restrict (%s) (.pattern %s)" % (out, lean_pattern(f.get("value")))
            else:
                raise TranslateError("facet %s is not modelled" % f.tag)
        if enums:
            out = ".restrict (%s) (.enum [%s])" % (out, ", ".join(lean_chars(v) for v in enums))
        return out

    def attr_type(self, d, el):
        if el.get("type"):
            return self.simple_type_ref(d, el, el.get("type"))
        st = el.find(q("simpleType"))
        if st is not None:
            return self.simple_type_inline(d, st)
        return ".prim .anySimple"

    # ---------------------------------------------------------------- attributes
    def attr_uses(self, d, parent):
        """-> (dict name_id -> use-dict | None for prohibited, wildcard or None)"""
        uses, wild = {}, None
        for c in parent:
            if c.tag == q("attribute"):
                if c.get("ref"):
                    ns, local = d.resolve(c, c.get("ref"))
                    key = clark(ns, local)
                    if key not in self.g_attr:
                        raise TranslateError("unknown attribute %s" % key)
                    gd, gel = self.g_attr[key]
                    nid = self.intern(ns, local)
                    ty = self.attr_type(gd, gel)
                    fixed = c.get("fixed") or gel.get("fixed")
                else:
                    form = c.get("form")
                    qualified = d.afd if form is None else form == "qualified"
                    nid = self.intern(d.tns if qualified else "", c.get("name"))
                    ty = self.attr_type(d, c)
                    fixed = c.get("fixed")
                use = c.get("use", "optional")
                if use == "prohibited":
                    uses[nid] = None
                else:
                    uses[nid] = {"name": nid, "required": use == "required", "ty": ty, "fixed": fixed}
            elif c.tag == q("attributeGroup"):
                ns, local = d.resolve(c, c.get("ref"))
                key = clark(ns, local)
                if key not in self.g_agroup:
                    raise TranslateError("unknown attributeGroup %s" % key)
                gd, gel = self.g_agroup[key]
                u2, w2 = self.attr_uses(gd, gel)
                uses.update(u2)
                wild = wild or w2
            elif c.tag == q("anyAttribute"):
                wild = self.wildcard(d, c)
        return uses, wild

    def wildcard(self, d, el):
        ns = el.get("namespace", "##any").strip()
        pc = el.get("processContents", "strict")
        if ns == "##any":
            c = ".any"
        elif ns == "##other":
            c = ".other %d" % self.ns_id.get(d.tns, 0)
        else:
            ids = []
            for t in ns.split():
                if t == "##local":
                    ids.append(0)
                elif t == "##targetNamespace":
                    ids.append(self.ns_id.get(d.tns, 0))
                else:
                    if t not in self.ns_id:
                        self.nss.append(t)
                        self.ns_id[t] = len(self.nss) + 1
                    ids.append(self.ns_id[t])
            c = ".oneOf [%s]" % ", ".join(map(str, ids))
        return (c, "." + pc)

    # ---------------------------------------------------------------- element declarations
    def elem_decl(self, key):
        """key = ("g", clark) for a global declaration, ("l", id(el)) for a local one (el passed via self._local)"""
        if key in self.elem_idx:
            return self.elem_idx[key]
        if key[0] == "g":
            if key[1] not in self.g_elem:
                raise TranslateError("unknown element %s" % key[1])
            d, el = self.g_elem[key[1]]
            ns = d.tns
        else:
            d, el = self._local[key[1]]
            form = el.get("form")
            qualified = d.efd if form is None else form == "qualified"
            ns = d.tns if qualified else ""
        idx = len(self.elems)
        self.elem_idx[key] = idx
        rec = {"name": self.intern(ns, el.get("name")), "ty": None,
               "nillable": el.get("nillable") in ("true", "1"), "abstract": el.get("abstract") in ("true", "1"),
               "label": clark(ns, el.get("name")) + ("" if key[0] == "g" else " (local)")}
        self.elems.append(rec)
        if el.get("substitutionGroup"):
            raise TranslateError("substitution groups are not modelled")
        if el.get("type"):
            tns, tl = d.resolve(el, el.get("type"))
            rec["ty"] = self.type_ref(clark(tns, tl), tns, tl)
        else:
            ct, st = el.find(q("complexType")), el.find(q("simpleType"))
            if ct is not None:
                rec["ty"] = ".complex %d" % self.complex_type(("a", id(ct)), (d, ct))
            elif st is not None:
                rec["ty"] = ".simple (%s)" % self.simple_type_inline(d, st)
            else:
                rec["ty"] = ".anyType"
        return idx

    def type_ref(self, key, ns, local):
        if ns == XS:
            if local == "anyType":
                return ".anyType"
            if local not in BUILTINS:
                raise TranslateError("built-in type xs:%s is not modelled" % local)
            return ".simple (.prim .%s)" % BUILTINS[local]
        if key not in self.g_type:
            raise TranslateError("unknown type %s" % key)
        d, el = self.g_type[key]
        if el.tag == q("simpleType"):
            return ".simple (%s)" % self.simple_type_named(key)
        return ".complex %d" % self.complex_type(("n", key))

    # ---------------------------------------------------------------- complex types
    _local = {}

    def complex_type(self, key, anon=None):
        if key in self.type_idx:
            return self.type_idx[key]
        d, el = anon if anon else self.g_type[key[1]]
        idx = len(self.types)
        self.type_idx[key] = idx
        rec = {"label": key[1] if key[0] == "n" else "anonymous@%s" % os.path.basename(d.path)}
        self.types.append(rec)
        mixed = el.get("mixed") in ("true", "1")
        abstract = el.get("abstract") in ("true", "1")
        kids = [c for c in el if isinstance(c.tag, str) and c.tag != q("annotation")]
        uses, wild, content, ancestors = {}, None, None, []
        # content: ("empty",) | ("simple", ty) | ("elems", particles)   particles = list of particle dicts
        if kids and kids[0].tag == q("simpleContent"):
            inner = [c for c in kids[0] if isinstance(c.tag, str) and c.tag != q("annotation")][0]
            bns, bl = d.resolve(inner, inner.get("base"))
            bkey = clark(bns, bl)
            if bns == XS or (bkey in self.g_type and self.g_type[bkey][1].tag == q("simpleType")):
                st = self.simple_type_ref(d, inner, inner.get("base"))
            else:
                bi = self.complex_type(("n", bkey))
                b = self.types[bi]
                if b["content"][0] != "simple":
                    raise TranslateError("simpleContent over non-simple base %s" % bkey)
                st = b["content"][1]
                uses.update(b["uses"])
                wild = b["wild"]
                ancestors = [bi] + b["ancestors"]
            if inner.tag == q("restriction"):
                st = self.apply_facets(st, inner)
            u2, w2 = self.attr_uses(d, inner)
            uses.update(u2)
            wild = w2 or wild
            content = ("simple", st)
        elif kids and kids[0].tag == q("complexContent"):
            if kids[0].get("mixed") is not None:
                mixed = kids[0].get("mixed") in ("true", "1")
            inner = [c for c in kids[0] if isinstance(c.tag, str) and c.tag != q("annotation")][0]
            bns, bl = d.resolve(inner, inner.get("base"))
            bkey = clark(bns, bl)
            own = self.model_group(d, inner)
            u2, w2 = self.attr_uses(d, inner)
            if bns == XS and bl == "anyType":
                if inner.tag != q("restriction"):
                    raise TranslateError("extension of anyType is not modelled")
                content = ("elems", own) if own is not None else ("empty",)
                uses, wild = u2, w2
            else:
                bi = self.complex_type(("n", bkey))
                b = self.types[bi]
                ancestors = [bi] + b["ancestors"]
                if inner.tag == q("extension"):
                    if b["content"][0] == "simple":
                        raise TranslateError("complexContent extension of simple content")
                    base_ps = b["content"][1] if b["content"][0] == "elems" else []
                    ps = list(base_ps) + (own or [])
                    content = ("elems", ps) if (ps or b["content"][0] == "elems" or own is not None) else ("empty",)
                    uses = dict(b["uses"])
                    uses.update(u2)
                    wild = w2 or b["wild"]
                    mixed = mixed or b["mixed"]
                else:
                    content = ("elems", own) if own is not None else ("empty",)
                    uses = dict(b["uses"])
                    uses.update(u2)
                    wild = w2
        else:
            own = self.model_group(d, el)
            uses, wild = self.attr_uses(d, el)
            content = ("elems", own) if own is not None else ("empty",)
        if content[0] == "empty" and mixed:
            content = ("elems", [])
        rec.update({"uses": uses, "wild": wild, "content": content, "mixed": mixed, "abstract": abstract,
                    "ancestors": ancestors})
        return idx

    def model_group(self, d, parent):
        """The (at most one) model group child of a complexType / extension / restriction,
        as a list of top-level particles, or None when there is none."""
        for c in parent:
            if c.tag in (q("sequence"), q("choice")):
                lo, hi = occurs(c)
                if c.tag == q("sequence") and (lo, hi) == (1, 1):
                    return [self.particle(d, k) for k in c if k.tag in PARTICLES]
                return [self.particle(d, c)]
            if c.tag in (q("all"), q("group")):
                raise TranslateError("xs:all / xs:group are not modelled")
        return None

    def particle(self, d, c):
        """-> {"kind": "leaf", syms, lo, hi} | {"kind": "group", "re": lean term}"""
        lo, hi = occurs(c)
        if c.tag in (q("element"), q("any")):
            return {"kind": "leaf", "syms": [self.symbol(d, c)], "lo": lo, "hi": hi}
        if c.tag == q("choice"):
            kids = [k for k in c if k.tag in PARTICLES]
            if kids and all(k.tag in (q("element"), q("any")) and occurs(k) == (1, 1) for k in kids):
                return {"kind": "leaf", "syms": [self.symbol(d, k) for k in kids], "lo": lo, "hi": hi}
        return {"kind": "group", "re": self.regex(d, c)}

    def symbol(self, d, c):
        if c.tag == q("any"):
            ns, pc = self.wildcard(d, c)
            return ".any (%s) %s" % (ns, pc)
        if c.get("ref"):
            ns, local = d.resolve(c, c.get("ref"))
            di = self.elem_decl(("g", clark(ns, local)))
        else:
            self._local[id(c)] = (d, c)
            di = self.elem_decl(("l", id(c)))
        return ".el %d %d" % (self.elems[di]["name"], di)

    def regex(self, d, c):
        lo, hi = occurs(c)
        if c.tag in (q("element"), q("any")):
            body = ".sym (%s)" % self.symbol(d, c)
        elif c.tag == q("sequence"):
            body = "Re.seqL [%s]" % ", ".join(self.regex(d, k) for k in c if k.tag in PARTICLES)
        elif c.tag == q("choice"):
            body = "Re.altL [%s]" % ", ".join(self.regex(d, k) for k in c if k.tag in PARTICLES)
        else:
            raise TranslateError("unsupported particle %s" % c.tag)
        if (lo, hi) == (1, 1):
            return body
        return "Re.rep (%s) %d %s" % (body, lo, "none" if hi is None else "(some %d)" % hi)


PARTICLES = (q("element"), q("any"), q("sequence"), q("choice"), q("group"), q("all"))


def occurs(c):
    lo = int(c.get("minOccurs", "1"))
    hi = c.get("maxOccurs", "1")
    hi = None if hi == "unbounded" else int(hi)
    return lo, hi


def lean_str(s):
    out = []
    for ch in s:
        o = ord(ch)
        if ch == '"':
            out.append('\\"')
        elif ch == "\\":
            out.append("\\\\")
        elif 32 <= o < 127:
            out.append(ch)
        else:
            out.append("\\u{%x}" % o)
    return '"' + "".join(out) + '"'


def lean_chars(s):
    return "%s.toList" % lean_str(s) if s else "[]"


def lean_pattern(p):
    """Finite patterns only: alternatives of sequences of literals / simple character classes."""
    alts = []
    for alt in p.split("|"):
        seq, i = [], 0
        while i < len(alt):
            ch = alt[i]
            if ch == "[":
                j = alt.index("]", i)
                body, cls, k = alt[i + 1:j], [], 0
                if body.startswith("^") or "\\" in body or "[" in body:
                    raise TranslateError("pattern %r is not modelled" % p)
                while k < len(body):
                    if k + 2 < len(body) and body[k + 1] == "-":
                        cls.append((ord(body[k]), ord(body[k + 2])))
                        k += 3
                    else:
                        cls.append((ord(body[k]), ord(body[k])))
                        k += 1
                seq.append(cls)
                i = j + 1
            elif ch in "\\.*+?(){}^$":
                raise TranslateError("pattern %r is not modelled" % p)
            else:
                seq.append([(ord(ch), ord(ch))])
                i += 1
        alts.append(seq)
    return "[%s]" % ", ".join("[%s]" % ", ".join("[%s]" % ", ".join("(%d, %d)" % r for r in cls) for cls in seq)
                              for seq in alts)


_SAML = "urn:oasis:names:tc:SAML:2.0:assertion"
_SAMLP = "urn:oasis:names:tc:SAML:2.0:protocol"
WELL_KNOWN = [
    ("Response", _SAMLP, "Response"), ("Status", _SAMLP, "Status"), ("StatusCode", _SAMLP, "StatusCode"),
    ("AuthzDecisionQuery", _SAMLP, "AuthzDecisionQuery"), ("Assertion", _SAML, "Assertion"), ("Issuer", _SAML, "Issuer"),
    ("Subject", _SAML, "Subject"), ("NameID", _SAML, "NameID"), ("Action", _SAML, "Action"),
    ("aID", "", "ID"), ("aVersion", "", "Version"), ("aIssueInstant", "", "IssueInstant"), ("aValue", "", "Value"),
    ("aResource", "", "Resource"), ("aNamespace", "", "Namespace"),
]


def particle_term(p):
    if p["kind"] == "leaf":
        return ".leaf [%s] %d %s" % (", ".join(p["syms"]), p["lo"], "none" if p["hi"] is None else "(some %d)" % p["hi"])
    return ".group (%s)" % p["re"]


def render(t):
    L = []
    w = L.append
    w("/-")
    w("  GENERATED by harness/translate/schema.py from the XSD documents loaded by saml2.xml.schema — do not edit.")
    for ns, path in t.files:
        w("    %s  <-  %s" % (ns, os.path.basename(path)))
    w("-/")
    w("import PysamlModel.Model.Validate")
    w("set_option maxRecDepth 100000")
    w("namespace Gen.Schema")
    w("open Validate")
    w("")
    w("/-- namespace URIs; id = index + 2 (0 = no namespace, 1 = unknown) -/")
    w("def nss : List String := [%s]" % ", ".join(lean_str(u) for u in t.nss))
    w("")
    w("/-- element / attribute names as (namespace id, local name); id = index + 1 (0 = unknown) -/")
    w("def names : List (Nat × String) := [")
    w(",\n".join("  (%d, %s)" % (t.ns_id[ns], lean_str(l)) for ns, l in t.names))
    w("]")
    w("")
    for i, T in enumerate(t.types):
        c = T["content"]
        if c[0] == "elems":
            w("/-- content model of %s -/" % T["label"])
            w("def p%d : List Particle := [%s]" % (i, ",\n    ".join(particle_term(p) for p in c[1])))
    w("")
    for i, T in enumerate(t.types):
        c = T["content"]
        if c[0] == "empty":
            cont = ".empty"
        elif c[0] == "simple":
            cont = ".simple (%s)" % c[1]
        else:
            cont = ".elems %s (contentRe p%d)" % ("true" if T["mixed"] else "false", i)
        uses = [u for u in T["uses"].values() if u is not None]
        uses.sort(key=lambda u: u["name"])
        ut = ", ".join("{ name := %d, required := %s, ty := %s, fixed := %s }" % (
            u["name"], "true" if u["required"] else "false", u["ty"],
            "none" if u["fixed"] is None else "some (%s)" % lean_chars(u["fixed"])) for u in uses)
        wild = "none" if T["wild"] is None else "some (%s, %s)" % T["wild"]
        w("/-- %s -/" % T["label"])
        w("def t%d : TypeDef := { attrs := [%s], anyAttr := %s, content := %s, abstract := %s, ancestors := [%s] }" % (
            i, ut, wild, cont, "true" if T["abstract"] else "false", ", ".join(map(str, T["ancestors"]))))
    w("")
    w("def types : Array TypeDef := #[%s]" % ", ".join("t%d" % i for i in range(len(t.types))))
    w("")
    w("def elems : Array ElemDecl := #[")
    w(",\n".join("  /- %d %s -/ { name := %d, ty := %s, nillable := %s, abstract := %s }" % (
        i, e["label"], e["name"], e["ty"], "true" if e["nillable"] else "false", "true" if e["abstract"] else "false")
        for i, e in enumerate(t.elems)))
    w("]")
    w("")
    w("def globals : List (Nat × Nat) := [%s]" % ", ".join("(%d, %d)" % g for g in t.globals))
    w("")
    w("def gattrs : List (Nat × SimpleTy) := [%s]" % ", ".join("(%d, %s)" % g for g in t.gattrs))
    w("")
    w("def typeNames : List (List Char × TypeRef) := [")
    w(",\n".join("  (%s, %s)" % (lean_chars(k), v) for k, v in t.type_names))
    w("]")
    w("")
    w("/- interned names of a few well-known elements / attributes, for hand-written example documents -/")
    w("namespace WK")
    for label, ns, local in WELL_KNOWN:
        w("def %s : QN := ⟨%d, %d⟩" % (label, t.ns_id.get(ns, 1), t.name_id.get((ns, local), 0)))
    w("end WK")
    w("")
    w("def schema : Schema :=")
    w("  { types := types, elems := elems, globals := globals, gattrs := gattrs, typeNames := typeNames,")
    w("    xsiNs := 2, xsiType := 1, xsiNil := 2 }")
    w("")
    w("end Gen.Schema")
    return "\n".join(L) + "\n"


def translate():
    files = schema_files()
    if not files:
        raise TranslateError("the library's validator has no schema documents loaded")
    return Translator(files)


def gen_schema():
    return {"PysamlModel/Gen/Schema.lean": render(translate())}


if __name__ == "__main__":
    import sys

    sys.stdout.write(gen_schema()["PysamlModel/Gen/Schema.lean"])
