"""Translator for C12: the element-class table of pysaml2 -> lean/PysamlModel/Gen/ClassTable.lean.

Everything is read from the *imported* saml2 package (whatever PYTHONPATH / the editable install
resolves to), never from a hard-coded path:

* classes: every SamlBase subclass defined in saml2.saml, samlp, md, xmldsig, xmlenc and in every
  module of the packages saml2.extension, saml2.ws, saml2.schema (the bundled extension schemas);
* per class: c_namespace/c_tag, c_children (dict order: key -> member, class, list?),
  c_attributes (dict order: xml name -> member), c_child_order, and which (de)serialisation
  methods the class resolves to.  Only three method sets are modelled in Lean
  (Model/ObjModel.lean): the generic SamlBase ones, AttributeValueBase's, and AttributeType_'s
  `tree.attrib.setdefault(NAME, VALUE)` prologue (recognised by its AST).  Any other override makes
  the translator fail, which the runner reports as a broken obligation.

Strings are emitted as one Nat literal each (0x01 || utf-8, big endian); class ids are positions in
the deterministic enumeration below.  Output is deterministic."""
import ast
import importlib
import inspect
import pkgutil
import textwrap

CORE = ["saml2.saml", "saml2.samlp", "saml2.md", "saml2.xmldsig", "saml2.xmlenc"]
PACKAGES = ["saml2.extension", "saml2.ws", "saml2.schema"]
CHUNK = 48

# methods that take part in serialisation / parsing
METHODS = [
    "harvest_element_tree", "_convert_element_tree_to_member", "_convert_element_attribute_to_member",
    "_add_members_to_element_tree", "_to_element_tree", "to_string", "become_child_element_of",
    "__str__", "_get_all_c_children_with_order",
]


def code(s):
    """One Nat per string: injective (sentinel byte keeps leading zero bytes)."""
    return int.from_bytes(b"\x01" + s.encode("utf-8"), "big")


def lit(s):
    return hex(code(s))


def modules():
    mods = [importlib.import_module(m) for m in CORE]
    for pkg in PACKAGES:
        p = importlib.import_module(pkg)
        for m in sorted(pkgutil.iter_modules(p.__path__), key=lambda m: m.name):
            mods.append(importlib.import_module(pkg + "." + m.name))
    return mods


_cache = {}


def enumerate_classes():
    """[(id, module, name, class)] in a deterministic order (module list order, then class name)."""
    import saml2

    key = id(saml2)
    if key in _cache:
        return _cache[key]
    out = []
    for m in modules():
        for n, c in sorted(inspect.getmembers(m, inspect.isclass), key=lambda t: t[0]):
            if issubclass(c, saml2.SamlBase) and c.__module__ == m.__name__ and c.__name__ == n and c.c_tag:
                out.append((len(out), m.__name__, n, c))
    _cache[key] = out
    return out


def split_clark(tag):
    if tag.startswith("{"):
        ns, _, local = tag[1:].partition("}")
        return ns, local
    return None, tag


def _definer(cls, meth):
    for k in cls.__mro__:
        if meth in k.__dict__:
            return k
    return None


def _setdefault_prologue(func):
    """AttributeType_.harvest_element_tree: `tree.attrib.setdefault(K, V); SamlBase.harvest_element_tree(self, tree)`
    -> [(K, V)] or None when the body has another shape."""
    try:
        src = textwrap.dedent(inspect.getsource(func))
        fn = ast.parse(src).body[0]
    except (OSError, SyntaxError, IndexError):
        return None
    body = [s for s in fn.body if not (isinstance(s, ast.Expr) and isinstance(s.value, ast.Constant))]
    if not body:
        return None
    defaults = []
    glob = func.__globals__
    for st in body[:-1]:
        ok = (isinstance(st, ast.Expr) and isinstance(st.value, ast.Call)
              and ast.unparse(st.value.func) == "tree.attrib.setdefault" and len(st.value.args) == 2
              and not st.value.keywords)
        if not ok:
            return None
        try:
            k = eval(compile(ast.Expression(st.value.args[0]), "<k>", "eval"), glob)  # constants of the module
            v = eval(compile(ast.Expression(st.value.args[1]), "<v>", "eval"), glob)
        except Exception:
            return None
        if not (isinstance(k, str) and isinstance(v, str)):
            return None
        defaults.append((k, v))
    last = body[-1]
    if not (isinstance(last, ast.Expr) and ast.unparse(last.value) == "SamlBase.harvest_element_tree(self, tree)"):
        return None
    return defaults


def describe():
    """The table as plain Python data (also used by the harness):
    [{id, module, name, ns, tag, children:[(key_ns,key_local,member,cls_id|None,is_list)], attrs:[(xml,member)],
      order:[member], defaults:[(xml,value)], kind}]"""
    import saml2
    from saml2 import saml

    classes = enumerate_classes()
    ids = {c: i for i, _, _, c in classes}
    generic = (saml2.SamlBase, saml2.ExtensionContainer)
    res = []
    for i, mod, name, c in classes:
        kind = "plain"
        defaults = []
        for meth in METHODS:
            d = _definer(c, meth)
            if d in generic:
                continue
            if meth == "harvest_element_tree" and d is getattr(saml, "AttributeValueBase", None):
                kind = "attrValue"
                continue
            if meth == "harvest_element_tree":
                dd = _setdefault_prologue(d.__dict__[meth])
                if dd is not None:
                    defaults = dd
                    continue
            raise ValueError("unmodelled override of %s in %s.%s (defined by %s)" % (meth, mod, name, d))
        if kind == "attrValue":
            # the Lean model of AttributeValueBase assumes exactly this shape
            if c.c_children or c.c_attributes:
                raise ValueError("AttributeValueBase subclass %s.%s declares children/attributes" % (mod, name))
            for meth in ("__setattr__", "set_text", "set_type", "get_type", "__init__"):
                if _definer(c, meth) is not saml.AttributeValueBase:
                    raise ValueError("unmodelled override of %s in %s.%s" % (meth, mod, name))
        else:
            for meth in ("__setattr__",):
                if _definer(c, meth) is not object:
                    raise ValueError("unmodelled override of %s in %s.%s" % (meth, mod, name))
        children = []
        for key, val in c.c_children.items():
            member, klass = val[0], val[1]
            is_list = isinstance(klass, list)
            k = klass[0] if is_list else klass
            if k is not None and k not in ids:
                raise ValueError("%s.%s: child class %r outside the enumerated modules" % (mod, name, k))
            kns, klocal = split_clark(key)
            children.append((kns, klocal, member, None if k is None else ids[k], is_list))
        attrs = [(xml, info[0]) for xml, info in c.c_attributes.items()]
        # what a fresh instance holds (parsing starts from `target_class()`)
        fresh = c()
        init = []
        for xml, member in attrs:
            v = getattr(fresh, member, None)
            if not (v is None or isinstance(v, str)):
                raise ValueError("%s.%s: constructor default of %s is %r" % (mod, name, member, v))
            init.append(v)
        missing = [member for _k, _l, member, _c, _il in children if not hasattr(fresh, member)]
        for _k, _l, member, _c, _il in children:
            if getattr(fresh, member, None):
                raise ValueError("%s.%s: a fresh instance already has children in %s" % (mod, name, member))
        if fresh.extension_elements or (kind == "plain" and (fresh.extension_attributes or fresh.text)):
            raise ValueError("%s.%s: a fresh instance already has text/extensions" % (mod, name))
        res.append({"id": i, "module": mod, "name": name, "ns": c.c_namespace, "tag": c.c_tag,
                    "children": children, "attrs": attrs, "order": list(c.c_child_order),
                    "defaults": defaults, "init": init, "kind": kind,
                    # child members the constructor never creates (to_string raises AttributeError until they are assigned)
                    "missing": missing})
    return res


def av_constants():
    from saml2 import saml

    return {"xsiType": saml.XSI_TYPE, "xsiNil": saml.XSI_NIL, "xsNs": saml.XS_NAMESPACE, "xsd": saml.XSD}


def _qname(ns, local, nsids):
    return "⟨%s, %s⟩" % ("none" if ns is None else "some ns%d" % nsids[ns], lit(local))


def _str_lit(s):
    """A Str (list of code points) literal."""
    return "[" + ", ".join(str(ord(ch)) for ch in s) + "]"


def generate():
    table = describe()
    consts = av_constants()
    nss = []
    for cd in table:
        for ns in [cd["ns"]] + [ch[0] for ch in cd["children"]]:
            if ns is not None and ns not in nss:
                nss.append(ns)
    nsids = {ns: i for i, ns in enumerate(nss)}
    out = []
    w = out.append
    w("/- GENERATED by harness/translate/classtable.py from the imported saml2 package — do not edit. -/")
    w("import PysamlModel.Model.ObjModel")
    w("set_option maxRecDepth 100000")
    w("namespace Gen.ClassTable")
    w("open ObjModel")
    w("")
    for ns, i in nsids.items():
        w("def ns%d : Nat := %s -- %s" % (i, lit(ns), ns))
    w("")
    for cd in table:
        ch = ", ".join("⟨%s, %s, %s, %s⟩" % (_qname(k[0], k[1], nsids), lit(k[2]),
                                          "none" if k[3] is None else "some %d" % k[3],
                                          "true" if k[4] else "false") for k in cd["children"])
        at = ", ".join("⟨%s, %s⟩" % (lit(a[0]), lit(a[1])) for a in cd["attrs"])
        od = ", ".join(lit(o) for o in cd["order"])
        df = ", ".join("(%s, %s)" % (lit(k), _str_lit(v)) for k, v in cd["defaults"])
        w("/-- %s.%s -/" % (cd["module"], cd["name"]))
        ini = ", ".join("none" if v is None else "some %s" % _str_lit(v) for v in cd["init"])
        w("def c%d : ClassDef := { tag := %s, children := [%s], attrs := [%s], order := [%s], defaults := [%s], attrInit := [%s], kind := .%s }"
          % (cd["id"], _qname(cd["ns"], cd["tag"], nsids), ch, at, od, df, ini, cd["kind"]))
    w("")
    nchunks = (len(table) + CHUNK - 1) // CHUNK
    for k in range(nchunks):
        ids = range(k * CHUNK, min(len(table), (k + 1) * CHUNK))
        w("def chunk%d : List ClassDef := [%s]" % (k, ", ".join("c%d" % i for i in ids)))
    w("def chunks : List (List ClassDef) := [%s]" % ", ".join("chunk%d" % k for k in range(nchunks)))
    w("def classList : List ClassDef := chunks.flatten")
    w("def classCount : Nat := %d" % len(table))
    w("def chunkCount : Nat := %d" % nchunks)
    w("")
    w("/-- names of the classes by id (documentation / driver diagnostics) -/")
    for cd in table:
        ident = "cid_%s_%s" % (cd["module"].replace("saml2.", "").replace(".", "_"), cd["name"])
        w("def %s : Nat := %d" % (ident, cd["id"]))
    w("")
    w("/-- constants of saml2.saml used by AttributeValueBase -/")
    w("def avConsts : AvConsts := { xsiType := %s, xsiNil := %s, xmlnsXs := %s, xmlnsXsd := %s, xsNs := %s, xsd := %s }"
      % (lit(consts["xsiType"]), lit(consts["xsiNil"]), lit("xmlns:xs"), lit("xmlns:xsd"), _str_lit(consts["xsNs"]),
         _str_lit(consts["xsd"])))
    w("")
    w("end Gen.ClassTable")
    return {"PysamlModel/Gen/ClassTable.lean": "\n".join(out) + "\n"}


if __name__ == "__main__":
    files = generate()
    for k, v in files.items():
        print(k, len(v))
