"""C07 translator: request-class dispatch table -> lean/PysamlModel/Gen/RequestTable.lean.

Regenerated from the *imported* saml2 (whatever PYTHONPATH makes current) on every run:

* `saml2.request.SERVICE2REQUEST`           service -> request class (and its `msgtype`)
* each class's `signature_check`            probed: which msgtype it hands to `correctly_signed_message`,
                                            and whether `must` / `only_valid_cert` reach it
* `samlp.<msgtype>_from_string`             probed on a minimal element named like the class
* `soap.parse_soap_enveloped_saml_<msgtype>`  existence (what `Entity.unravel` looks up for SOAP)
* `sigver.SIGNER_ALGS`                      the SigAlg values `verify_redirect_signature` supports

Strings the kernel looks at are single Nat literals (0x01 || utf8, big endian)."""


def code(s):
    return int.from_bytes(b"\x01" + s.encode("utf-8"), "big")


def lean_str(s):
    return '"' + s.replace("\\", "\\\\").replace('"', '\\"') + '"'


def rows():
    from saml2 import saml, samlp, soap
    from saml2.request import SERVICE2REQUEST
    from saml2.sigver import SecurityContext

    class Probe(SecurityContext):
        """records what the request class's signature_check asks of correctly_signed_message"""

        def __init__(self):  # no crypto backend: nothing is verified here
            self.seen = None

        def correctly_signed_message(self, decoded_xml, msgtype, must=False, origdoc=None, only_valid_cert=False):
            self.seen = (msgtype, must, only_valid_cert)
            return None

    out = []
    for service in sorted(SERVICE2REQUEST):
        cls = SERVICE2REQUEST[service]
        probe = Probe()
        req = cls(probe, [], None)
        seen = {}
        for must in (False, True):
            for ovc in (False, True):
                probe.seen = None
                try:
                    req.signature_check("<x/>", origdoc=None, must=must, only_valid_cert=ovc)
                except Exception:
                    probe.seen = None
                seen[(must, ovc)] = probe.seen
        checked = sorted({v[0] for v in seen.values() if v})
        checked_msgtype = checked[0] if len(checked) == 1 else ""
        forwards_must = all(v is not None and bool(v[1]) == k[0] for k, v in seen.items())
        forwards_ovc = all(v is not None and bool(v[2]) == k[1] for k, v in seen.items())
        # does <checked>_from_string produce the element the class is named after?
        func = getattr(saml, checked_msgtype + "_from_string", None)
        func = getattr(samlp, checked_msgtype + "_from_string", func)
        parses = False
        if func is not None:
            xml = ('<samlp:%s xmlns:samlp="urn:oasis:names:tc:SAML:2.0:protocol" ID="id-1" Version="2.0" '
                   'IssueInstant="2020-01-01T00:00:00Z"/>' % cls.__name__)
            try:
                inst = func(xml)
                parses = inst is not None and getattr(inst, "c_tag", None) == cls.__name__ \
                    and getattr(inst, "c_namespace", None) == samlp.NAMESPACE
            except Exception:
                parses = False
        out.append({
            "service": service,
            "cls": cls.__name__,
            "msgtype": cls.msgtype,
            "checked_msgtype": checked_msgtype,
            "parses_own_element": bool(parses),
            "soap_parser": hasattr(soap, "parse_soap_enveloped_saml_" + cls.msgtype),
            "forwards_must": bool(forwards_must),
            "forwards_cert_only": bool(forwards_ovc),
        })
    return out


def signer_algs():
    from saml2.sigver import SIGNER_ALGS

    return sorted(SIGNER_ALGS)


def generate():
    b = lambda x: "true" if x else "false"  # noqa: E731
    lines = [
        "/- REGENERATED on every run by harness/translate/request_table.py from the imported saml2",
        "   (request.SERVICE2REQUEST, the request classes' signature_check, samlp.*_from_string,",
        "   soap.parse_soap_enveloped_saml_*, sigver.SIGNER_ALGS).  Do not edit. -/",
        "import PysamlModel.Model.Request",
        "",
        "namespace Gen.RequestTable",
        "open Request",
        "",
        "def table : List TableEntry := [",
    ]
    rs = rows()
    for i, r in enumerate(rs):
        lines.append("  -- %s: %s, msgtype %s, signature_check -> %s" % (r["service"], r["cls"], r["msgtype"], r["checked_msgtype"] or "?"))
        lines.append(
            "  { service := %d, cls := %d, msgtype := %d, checkedMsgtype := %d,\n"
            "    parsesOwnElement := %s, soapParser := %s, forwardsMust := %s, forwardsCertOnly := %s }%s"
            % (code(r["service"]), code(r["cls"]), code(r["msgtype"]), code(r["checked_msgtype"]),
               b(r["parses_own_element"]), b(r["soap_parser"]), b(r["forwards_must"]), b(r["forwards_cert_only"]),
               "," if i + 1 < len(rs) else ""))
    lines.append("]")
    lines.append("")
    lines.append("/-- service names in table order (for the driver; not looked at by the kernel) -/")
    lines.append("def services : List String := [%s]" % ", ".join(lean_str(r["service"]) for r in rs))
    lines.append("")
    lines.append("/-- `sigver.SIGNER_ALGS` keys -/")
    lines.append("def signerAlgs : List String := [%s]" % ", ".join(lean_str(a) for a in signer_algs()))
    lines.append("")
    lines.append("end Gen.RequestTable")
    lines.append("")
    return {"PysamlModel/Gen/RequestTable.lean": "\n".join(lines)}


if __name__ == "__main__":
    import json

    print(json.dumps(rows(), indent=1))
    print(signer_algs())
