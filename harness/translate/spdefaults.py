"""client_base.Base.__init__ attribute_defaults (+ config default only_use_keys_in_metadata) -> Gen/SpDefaults.lean"""
import ast

from .common import HEADER


def read_defaults():
    import saml2.client_base as cb

    tree = ast.parse(open(cb.__file__, encoding="utf-8").read())
    for node in ast.walk(tree):
        if isinstance(node, ast.Assign) and any(isinstance(t, ast.Name) and t.id == "attribute_defaults" for t in node.targets):
            return ast.literal_eval(node.value)
    raise RuntimeError("attribute_defaults not found in client_base.py")


def generate():
    d = read_defaults()
    b = lambda v: "true" if v is True or v == "true" else "false"
    out = [HEADER % "spdefaults.py", "namespace Gen.SpDefaults\n"]
    for k in ("want_response_signed", "want_assertions_signed", "want_assertions_or_response_signed", "allow_unsolicited"):
        name = "".join(p.capitalize() if i else p for i, p in enumerate(k.split("_")))
        out.append("def %s : Bool := %s" % (name, b(d.get(k))))
    out.append("\nend Gen.SpDefaults\n")
    return {"PysamlModel/Gen/SpDefaults.lean": "\n".join(out)}
