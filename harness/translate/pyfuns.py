"""Translator: the CURRENT source text of selected small pysaml2 decision functions -> MiniPy terms (Gen/PyFuns.lean).

The translation is syntax-directed, one Lean constructor per Python `ast` node (lean/PysamlModel/Model/MiniPy.lean).
Nothing is evaluated or simplified, with three documented exceptions that concern text no property talks about:
  * a docstring and every expression statement that is a call on `logger` / `logging` / `print` is dropped,
  * `raise Cls(args...)` keeps the class name only (the arguments are message text),
  * an assignment whose target name ends in `_str` or `_msg` and whose value is only used by such messages is kept
    as written (it is an ordinary assignment; externals such as time.strftime are parameters of the interpreter).
Every construct outside the fragment becomes `unsupported "<node>"`, on which the interpreter is stuck, so that the
refinement theorems of Props/PyTie.lean cannot hold of it by accident.

FUNCTIONS lists (module, qualified name); the Lean names are derived (`for_me`, `validate_on_or_after`, …)."""
import ast
import inspect
import os
import textwrap

FUNCTIONS = [
    ("saml2.response", "for_me"),
    ("saml2.validate", "validate_on_or_after"),
    ("saml2.validate", "validate_before"),
    ("saml2.response", "AuthnResponse.condition_ok"),
    ("saml2.response", "AuthnResponse.authn_statement_ok"),
    ("saml2.response", "StatusResponse._verify"),
    ("saml2.response", "AuthnResponse.loads"),
    ("saml2.sigver", "SecurityContext.correctly_signed_response"),
    ("saml2.response", "AuthnResponse.check_subject_confirmation_in_response_to"),
]

LOGGERS = ("logger", "logging", "print")


def lstr(s):
    out = ['"']
    for ch in s:
        o = ord(ch)
        if ch == '"':
            out.append('\\"')
        elif ch == "\\":
            out.append("\\\\")
        elif ch == "\n":
            out.append("\\n")
        elif o < 32 or o > 126:
            out.append("\\u{%x}" % o)
        else:
            out.append(ch)
    out.append('"')
    return "".join(out)


def dotted(node):
    if isinstance(node, ast.Name):
        return node.id
    if isinstance(node, ast.Attribute):
        d = dotted(node.value)
        return None if d is None else d + "." + node.attr
    return None


CMP = {ast.Eq: "eq", ast.NotEq: "ne", ast.Lt: "lt", ast.LtE: "le", ast.Gt: "gt", ast.GtE: "ge", ast.In: "isIn",
       ast.NotIn: "notIn"}
STR_METHODS = ("strip", "lower")


class T:
    def __init__(self, params, globs=None):
        self.locals = set(params)
        self.globs = globs or {}

    def const_of(self, d):
        """A module-level constant (`samlp.STATUS_SUCCESS`, `XSI_TYPE`) is written with its CURRENT value."""
        obj = self.globs
        try:
            parts = d.split(".")
            obj = self.globs[parts[0]]
            for part in parts[1:]:
                obj = getattr(obj, part)
        except (KeyError, AttributeError):
            return None
        if obj is None:
            return ".none"
        if isinstance(obj, bool):
            return "(.bool %s)" % ("true" if obj else "false")
        if isinstance(obj, int):
            return "(.int (%d))" % obj
        if isinstance(obj, str):
            return "(.str %s)" % lstr(obj)
        return None

    # ---- expressions
    def expr(self, e):
        if isinstance(e, ast.Constant):
            v = e.value
            if v is None:
                return ".none"
            if isinstance(v, bool):
                return "(.bool %s)" % ("true" if v else "false")
            if isinstance(v, int):
                return "(.int (%d))" % v
            if isinstance(v, str):
                return "(.str %s)" % lstr(v)
            return '(.unsupported "Constant:%s")' % type(v).__name__
        if isinstance(e, ast.Name):
            if e.id not in self.locals:
                c = self.const_of(e.id)
                if c is not None:
                    return c
            return "(.name %s)" % lstr(e.id)
        if isinstance(e, ast.Attribute):
            d = dotted(e)
            root = d.split(".")[0] if d else None
            if root is not None and root not in self.locals:
                c = self.const_of(d)
                if c is not None:
                    return c
                return '(.unsupported "module attribute %s")' % d
            return "(.attr %s %s)" % (self.expr(e.value), lstr(e.attr))
        if isinstance(e, ast.JoinedStr):
            return ".opaqueStr"
        if isinstance(e, ast.Subscript):
            return "(.subscript %s %s)" % (self.expr(e.value), self.expr(e.slice))
        if isinstance(e, ast.UnaryOp) and isinstance(e.op, ast.Not):
            return "(.not %s)" % self.expr(e.operand)
        if isinstance(e, ast.BoolOp):
            op = ".and" if isinstance(e.op, ast.And) else ".or"
            acc = self.expr(e.values[-1])
            for v in reversed(e.values[:-1]):
                acc = "(%s %s %s)" % (op, self.expr(v), acc)
            return acc
        if (isinstance(e, ast.Compare) and len(e.ops) == 1 and isinstance(e.ops[0], (ast.Is, ast.IsNot))
                and isinstance(e.comparators[0], ast.Constant) and e.comparators[0].value is None):
            return "(.isNone %s %s)" % (self.expr(e.left), "true" if isinstance(e.ops[0], ast.IsNot) else "false")
        if isinstance(e, ast.Compare) and len(e.ops) == 1 and type(e.ops[0]) in CMP:
            return "(.cmp .%s %s %s)" % (CMP[type(e.ops[0])], self.expr(e.left), self.expr(e.comparators[0]))
        if isinstance(e, ast.BinOp) and isinstance(e.op, (ast.Add, ast.Sub)):
            return "(.%s %s %s)" % ("add" if isinstance(e.op, ast.Add) else "sub", self.expr(e.left), self.expr(e.right))
        if isinstance(e, ast.Call) and not e.keywords:
            d = dotted(e.func)
            args = "[" + ", ".join(self.expr(a) for a in e.args) + "]"
            if isinstance(e.func, ast.Attribute):
                root = d.split(".")[0] if d else None
                if root is None or root in self.locals:
                    if e.func.attr in STR_METHODS:
                        return "(.method %s %s %s)" % (self.expr(e.func.value), lstr(e.func.attr), args)
                    return "(.callm %s %s %s)" % (self.expr(e.func.value), lstr(e.func.attr), args)
            if d is not None:
                return "(.call %s %s)" % (lstr(d), args)
        return '(.unsupported "%s")' % type(e).__name__

    # ---- statements
    def block(self, stmts, ind):
        items = [s for s in (self.stmt(x, ind + 2) for x in stmts) if s is not None]
        if not items:
            return "[]"
        pad = " " * (ind + 2)
        return "[\n" + ",\n".join(pad + i for i in items) + "]"

    def stmt(self, s, ind):
        if isinstance(s, ast.Expr):
            if isinstance(s.value, ast.Constant) and isinstance(s.value.value, str):
                return None  # docstring
            if isinstance(s.value, ast.Call):
                d = dotted(s.value.func) or ""
                if d.split(".")[0] in LOGGERS:
                    return None
            return "(.expr %s)" % self.expr(s.value)
        if isinstance(s, ast.Assign) and len(s.targets) == 1 and isinstance(s.targets[0], ast.Name):
            self.locals.add(s.targets[0].id)
            return "(.assign %s %s)" % (lstr(s.targets[0].id), self.expr(s.value))
        if (isinstance(s, ast.Assign) and len(s.targets) == 1 and isinstance(s.targets[0], ast.Attribute)
                and isinstance(s.targets[0].value, ast.Name) and s.targets[0].value.id in self.locals):
            return "(.setattr %s %s %s)" % (lstr(s.targets[0].value.id), lstr(s.targets[0].attr), self.expr(s.value))
        if isinstance(s, ast.Try) and not s.orelse and not s.finalbody:
            hs = []
            for h in s.handlers:
                d = dotted(h.type) if h.type is not None else "Exception"
                if d is None:
                    return '(.unsupported "handler type")'
                if h.name:
                    self.locals.add(h.name)
                hs.append("(%s, %s)" % (lstr(d.split(".")[-1]), self.block(h.body, ind)))
            return "(.try %s [%s])" % (self.block(s.body, ind), ", ".join(hs))
        if isinstance(s, ast.Raise) and s.exc is None:
            return ".reraise"
        if isinstance(s, ast.If):
            return "(.ifs %s %s %s)" % (self.expr(s.test), self.block(s.body, ind), self.block(s.orelse, ind))
        if isinstance(s, ast.For) and isinstance(s.target, ast.Name):
            self.locals.add(s.target.id)
            return "(.for %s %s %s %s)" % (lstr(s.target.id), self.expr(s.iter), self.block(s.body, ind), self.block(s.orelse, ind))
        if isinstance(s, ast.Return):
            return "(.ret %s)" % ("none" if s.value is None else "(some %s)" % self.expr(s.value))
        if isinstance(s, ast.Raise) and s.exc is not None:
            exc = s.exc.func if isinstance(s.exc, ast.Call) else s.exc
            d = dotted(exc)
            if d is not None:
                return "(.raise %s)" % lstr(d.split(".")[-1])
        if isinstance(s, ast.Break):
            return ".brk"
        if isinstance(s, ast.Continue):
            return ".cont"
        if isinstance(s, ast.Pass):
            return ".pass"
        return '(.unsupported "%s")' % type(s).__name__


def depth(node):
    return 1 + max([depth(c) for c in ast.iter_child_nodes(node)] or [0])


def gen():
    import importlib

    out = ["-- REGENERATED by harness/translate/pyfuns.py from the current pysaml2 source on every run. Do not edit.",
           "import PysamlModel.Model.MiniPy", "", "namespace Gen.PyFuns", "open MiniPy", ""]
    for modname, qual in FUNCTIONS:
        mod = importlib.import_module(modname)
        obj = mod
        for part in qual.split("."):
            obj = getattr(obj, part)
        src = textwrap.dedent(inspect.getsource(obj))
        fn = ast.parse(src).body[0]
        a = fn.args
        if a.vararg or a.kwonlyargs or a.posonlyargs:
            params = None
        else:
            params = [x.arg for x in a.args]
            if a.kwarg:                      # **kwargs: one more parameter, a dict (an object whose fields are the keys)
                params.append(a.kwarg.arg)
        name = qual.replace(".", "_")
        if params is None or depth(fn) > 40:
            body = '[.unsupported "signature or depth"]'
            params = params or []
        else:
            body = T(params, getattr(inspect.getmodule(obj), "__dict__", {})).block(fn.body, 2)
        out.append("/-- `%s.%s` as written in %s -/" % (modname, qual, os.path.basename(inspect.getsourcefile(obj))))
        out.append("def %s : FunDef :=" % name)
        out.append("  { name := %s, params := [%s], body := %s }" % (lstr(qual), ", ".join(lstr(p) for p in params), body))
        out.append("")
    out.append("end Gen.PyFuns")
    return {"PysamlModel/Gen/PyFuns.lean": "\n".join(out) + "\n"}


if __name__ == "__main__":
    for k, v in gen().items():
        print(v)
