"""saml2.response.STATUSCODE2EXCEPTION + samlp.STATUS_* -> Gen/StatusCodes.lean"""
from .common import HEADER, ascii_list, lean_str


def generate():
    from saml2 import response, samlp

    consts = sorted((k, v) for k, v in vars(samlp).items() if k.startswith("STATUS_") and isinstance(v, str))
    by_uri = {}
    for k, v in consts:
        by_uri.setdefault(v, k)
    rows = []
    for uri, cls in response.STATUSCODE2EXCEPTION.items():
        rows.append((by_uri.get(uri, "?"), uri, cls.__name__, issubclass(cls, response.StatusError)))
    rows.sort()
    out = [HEADER % "statuscodes.py", "namespace Gen.StatusCodes\n"]
    out.append("/-- (samlp constant, URI, exception class, derives from StatusError) per STATUSCODE2EXCEPTION entry -/")
    out.append("def table : List (String × String × String × Bool) := [")
    out.append(",\n".join("  (%s, %s, %s, %s)" % (lean_str(c), lean_str(u), lean_str(n), "true" if b else "false")
                          for c, u, n, b in rows))
    out.append("]\n")
    out.append("/-- every `samlp.STATUS_*` constant (name, URI) -/")
    out.append("def constants : List (String × String) := [")
    out.append(",\n".join("  (%s, %s)" % (lean_str(k), lean_str(v)) for k, v in consts))
    out.append("]\n")
    out.append("def fallback : String := %s\n" % lean_str(response.StatusError.__name__))
    out.append("/-- the same data as ASCII code lists, for kernel evaluation (`decide`) -/")
    out.append("def tableCodes : List (List Nat × List Nat × List Nat × Bool) := [")
    out.append(",\n".join("  (%s, %s, %s, %s)" % (ascii_list(c), ascii_list(u), ascii_list(n), "true" if b else "false")
                          for c, u, n, b in rows))
    out.append("]\n")
    out.append("def constantCodes : List (List Nat × List Nat) := [")
    out.append(",\n".join("  (%s, %s)" % (ascii_list(k), ascii_list(v)) for k, v in consts))
    out.append("]\n")
    out.append("end Gen.StatusCodes\n")
    return {"PysamlModel/Gen/StatusCodes.lean": "\n".join(out)}
