#!/venv/bin/python
"""Copy the failing input of every kept seeded change into the property's corpus (corpus/<Cxx>/seeded-<id>.json) so that
the inputs that once exposed a realistic fault are run first on every run and cannot be lost when a random stream shifts.

usage: seedcorpus.py            (idempotent; prints what was added; corpus files hold the case and its provenance only)

A corpus case must be silent on the unchanged tree; run `harness/runall.sh` afterwards and delete any file that is not
(none was needed when this was last run)."""
import glob
import json
import os

ROOT = os.path.dirname(os.path.dirname(os.path.abspath(__file__)))


def main():
    added = 0
    for rp in sorted(glob.glob(os.path.join(ROOT, "seeded", "C*-*", "replay_C*.json"))):
        sid = os.path.basename(os.path.dirname(rp))
        pid = os.path.basename(rp)[len("replay_"):-len(".json")]
        try:
            r = json.load(open(rp))
        except Exception:
            continue
        case = r.get("case")
        if not isinstance(case, dict) or r.get("kind") not in (None, "failing-input"):
            continue
        if len(json.dumps(case)) > 60000:
            continue
        d = os.path.join(ROOT, "corpus", pid)
        os.makedirs(d, exist_ok=True)
        out = os.path.join(d, "seeded-%s.json" % sid)
        obj = {"provenance": "failing input of seeded change %s (seeded/%s/patch.diff); silent on the unchanged tree" % (sid, sid),
               "case": case}
        txt = json.dumps(obj, indent=1, sort_keys=True)
        if not os.path.exists(out) or open(out).read() != txt:
            open(out, "w").write(txt)
            added += 1
            print("added", os.path.relpath(out, ROOT))
    print("seedcorpus: %d files written" % added)


if __name__ == "__main__":
    main()
