#!/venv/bin/python
"""Regression over ALL kept seeded changes: re-run, against each patch in /verif/seeded/<id>/patch.diff, the check(s) that
caught it when it was evaluated, and report any that is no longer caught by the checks as they are now.

usage: reseed.py [--jobs=N] [--only=Cxx[,Cyy]]        (results: seeded/RESEED.json, written by a complete run only)
       reseed.py --demo=<id>[,<id>]                   (does the change still break the property on the tree as it is now?)

Each patch is applied to a scratch copy of /repo/src (PYTHONPATH override); /repo is never touched.  Afterwards every
check that was run is run once more on /repo itself so that evidence/ comes from the real tree."""
import concurrent.futures
import glob
import json
import os
import shutil
import subprocess
import sys

ROOT = os.path.dirname(os.path.dirname(os.path.abspath(__file__)))


def sh(cmd, env=None, cwd=None, timeout=3600):
    e = dict(os.environ)
    e.update(env or {})
    p = subprocess.run(cmd, shell=True, capture_output=True, text=True, env=e, cwd=cwd, timeout=timeout)
    return p.returncode, p.stdout + p.stderr


def one(sid):
    d = os.path.join(ROOT, "seeded", sid)
    meta = json.load(open(os.path.join(d, "meta.json")))
    ev = meta.get("evaluation", {})
    checks = [c for c, v in ev.get("checks", {}).items() if v.get("rc") == 1 and v.get("violations")] or [sid.split("-")[0]]
    scratch = "/tmp/mutrun/reseed-%s" % sid
    shutil.rmtree(scratch, ignore_errors=True)
    os.makedirs(scratch)
    shutil.copytree("/repo/src", os.path.join(scratch, "src"))
    rc, out = sh("patch -p1 --fuzz=3 < %s" % os.path.join(d, "patch.diff"), cwd=scratch)
    res = {"id": sid, "applies": rc == 0, "checks": {}}
    if rc == 0:
        for c in checks:
            rc, o = sh("./check %s" % c, env={"PYTHONPATH": os.path.join(scratch, "src")}, cwd=ROOT, timeout=3000)
            viol = [l for l in o.splitlines() if l.startswith("VIOLATION")]
            res["checks"][c] = {"rc": rc, "with_input": any("no-failing-input-found" not in v for v in viol), "n": len(viol)}
            if rc == 1 and res["checks"][c]["with_input"]:
                break
    res["caught"] = any(v["rc"] == 1 and v["n"] for v in res["checks"].values())
    res["with_input"] = any(v["rc"] == 1 and v["with_input"] for v in res["checks"].values())
    shutil.rmtree(scratch, ignore_errors=True)
    print(json.dumps(res), flush=True)
    return res


def demo(sid):
    """Does the change still break the property on the tree as it is now?  (A later `fix:` commit can neutralise an early
    seeded change.)  Runs the seeder's demonstration on /repo/src (exit 0 expected) and on the patched copy."""
    d = os.path.join(ROOT, "seeded", sid)
    scratch = "/tmp/mutrun/reseed-demo-%s" % sid
    shutil.rmtree(scratch, ignore_errors=True)
    os.makedirs(scratch)
    shutil.copytree("/repo/src", os.path.join(scratch, "src"))
    os.symlink("/repo/tests", os.path.join(scratch, "tests"))
    sh("patch -p1 --fuzz=3 < %s" % os.path.join(d, "patch.diff"), cwd=scratch)
    src = open(os.path.join(d, "demo.py")).read().replace("/tmp/tools/standin", os.path.join(ROOT, "harness", "standin"))
    open(os.path.join(scratch, "demo.py"), "w").write(src)
    path = os.path.join(ROOT, "harness", "standin") + ":" + os.environ["PATH"]
    rc0, _ = sh("/venv/bin/python demo.py", env={"PYTHONPATH": "/repo/src", "PATH": path}, cwd=scratch, timeout=900)
    rc1, _ = sh("/venv/bin/python demo.py", env={"PYTHONPATH": os.path.join(scratch, "src"), "PATH": path}, cwd=scratch, timeout=900)
    shutil.rmtree(scratch, ignore_errors=True)
    return {"id": sid, "demo_unchanged_rc": rc0, "demo_changed_rc": rc1, "still_breaks_property": rc0 == 0 and rc1 != 0}


def main():
    for a in sys.argv[1:]:
        if a.startswith("--demo="):
            for sid in a.split("=")[1].split(","):
                print(json.dumps(demo(sid)), flush=True)
            return
    jobs = 4
    only = None
    for a in sys.argv[1:]:
        if a.startswith("--jobs"):
            jobs = int(a.split("=")[1])
        if a.startswith("--only="):
            only = set(a.split("=")[1].split(","))
    ids = sorted(os.path.basename(d) for d in glob.glob(os.path.join(ROOT, "seeded", "C*-*")) if os.path.isdir(d))
    if only:
        ids = [i for i in ids if i.split("-")[0] in only]
    # interleave properties so that concurrent jobs mostly run different checks
    by = {}
    for i in ids:
        by.setdefault(i.split("-")[0], []).append(i)
    order = []
    while any(by.values()):
        for p in sorted(by):
            if by[p]:
                order.append(by[p].pop(0))
    with concurrent.futures.ThreadPoolExecutor(jobs) as ex:
        results = list(ex.map(one, order))
    touched = sorted({c for r in results for c in r["checks"]})
    for c in touched:
        sh("./check %s" % c, cwd=ROOT)
    for r in results:
        if not r["caught"] and r["applies"]:
            r["demo"] = demo(r["id"])
    if not only:
        json.dump(results, open(os.path.join(ROOT, "seeded", "RESEED.json"), "w"), indent=1)
    bad = [r["id"] for r in results if not r["caught"]]
    noin = [r["id"] for r in results if r["caught"] and not r["with_input"]]
    na = [r["id"] for r in results if not r["applies"]]
    print("RESEED total=%d caught=%d not_caught=%s without_input=%s patch_does_not_apply=%s"
          % (len(results), sum(r["caught"] for r in results), bad, noin, na))


if __name__ == "__main__":
    main()
