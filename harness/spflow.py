"""Shared service-provider flow for C01/C04/C05/C06 (and reused by C02/C03/C16):
abstract Response (JSON) -> XML by an independent writer -> signatures / encryption through the
xmlsec1 stand-in -> transport encoding -> real Saml2Client.parse_authn_request_response under the
virtual clock -> canonical Outcome."""
import ast
import base64
import copy
import os
import tempfile
import zlib

import scenario as S
from standin import xmlsec_standin as X

SAML = "urn:oasis:names:tc:SAML:2.0:assertion"
SAMLP = "urn:oasis:names:tc:SAML:2.0:protocol"
SUCCESS = "urn:oasis:names:tc:SAML:2.0:status:Success"
RESPONDER = "urn:oasis:names:tc:SAML:2.0:status:Responder"
CM = {"bearer": "urn:oasis:names:tc:SAML:2.0:cm:bearer",
      "holder-of-key": "urn:oasis:names:tc:SAML:2.0:cm:holder-of-key",
      "sender-vouches": "urn:oasis:names:tc:SAML:2.0:cm:sender-vouches",
      "other": "urn:example:cm:unknown"}
BINDINGS = {"post": S.BINDING_POST, "redirect": S.BINDING_REDIRECT, "soap": S.BINDING_SOAP, "paos": S.BINDING_PAOS}

_tmp = tempfile.mkdtemp(prefix="verif-spflow-")

xesc = S.xesc


def tstr(t, syntax="z"):
    """timestamp syntaxes: z = plain, frac = fractional seconds, raw strings are passed through"""
    if isinstance(t, str):
        return t
    if syntax in FRACTIONS:
        return S.fmt_time(t, z=False) + FRACTIONS[syntax] + "Z"
    if syntax in OFFSETS:  # the SAME instant written with a numeric zone designator
        sec, frac = OFFSETS[syntax]
        return S.fmt_time(t + sec, z=False) + frac + "%s%02d:%02d" % ("-" if sec < 0 else "+", abs(sec) // 3600, abs(sec) % 3600 // 60)
    if syntax == "nozone":
        return S.fmt_time(t, z=False)
    return S.fmt_time(t, frac=(syntax == "frac"))


# fractional-second syntaxes (xs:dateTime allows any number of digits; .NET writes 7, some Java stacks 9)
FRACTIONS = {"frac1": ".5", "frac6": ".123456", "frac7": ".1234567", "frac9": ".123456789", "frac0s": ".000"}


# numeric zone designators (legal xs:dateTime, not legal SAML: core 1.3.3 demands UTC form); the library does not read them
OFFSETS = {"off+02": (7200, ""), "off-0330f": (-12600, ".25"), "off+00": (0, ""), "off+0530": (19800, ""),
           "off-12": (-43200, ""), "off+09f": (32400, ".1234567")}


def time_form(syntax):
    """Lexical class of a timestamp syntax (Lean: Sp.TimeForm)."""
    if syntax in OFFSETS:
        return "offset"
    if syntax == "nozone":
        return "noZone"
    if syntax in FRACTIONS or syntax == "frac":
        return "fraction"
    return "utc"


def sig_template(ref_id, key_name=None, keyinfo="cert", digest="http://www.w3.org/2000/09/xmldsig#sha1",
                 sigalg="http://www.w3.org/2000/09/xmldsig#rsa-sha1"):
    ki = ""
    if keyinfo == "cert" and key_name:
        ki = ("<ds:KeyInfo><ds:X509Data><ds:X509Certificate>%s</ds:X509Certificate></ds:X509Data></ds:KeyInfo>"
              % S.cert_b64(key_name))
    return (
        '<ds:Signature xmlns:ds="http://www.w3.org/2000/09/xmldsig#"><ds:SignedInfo>'
        '<ds:CanonicalizationMethod Algorithm="http://www.w3.org/2001/10/xml-exc-c14n#"/>'
        '<ds:SignatureMethod Algorithm="%s"/>'
        '<ds:Reference URI="#%s"><ds:Transforms>'
        '<ds:Transform Algorithm="http://www.w3.org/2000/09/xmldsig#enveloped-signature"/>'
        '<ds:Transform Algorithm="http://www.w3.org/2001/10/xml-exc-c14n#"/></ds:Transforms>'
        '<ds:DigestMethod Algorithm="%s"/><ds:DigestValue></ds:DigestValue></ds:Reference></ds:SignedInfo>'
        "<ds:SignatureValue></ds:SignatureValue>%s</ds:Signature>" % (sigalg, xesc(ref_id), digest, ki)
    )


def render_assertion(a, sign_key=None, syntax="z"):
    p = []
    p.append('<saml:Assertion xmlns:saml="%s" Version="2.0" ID="%s" IssueInstant="%s">'
             % (SAML, xesc(a["id"]), tstr(a.get("issue_instant", S.NOW0), syntax)))
    if a.get("issuer") is not None:
        p.append("<saml:Issuer>%s</saml:Issuer>" % xesc(a["issuer"]))
    if sign_key:
        p.append(sig_template(a["id"], sign_key, a.get("keyinfo", "cert")))
    s = a.get("subject")
    if s is not None:
        p.append("<saml:Subject>")
        if s.get("name_id") is not None:
            p.append('<saml:NameID Format="urn:oasis:names:tc:SAML:2.0:nameid-format:persistent">%s</saml:NameID>'
                     % xesc(s["name_id"]))
        if s.get("enc_id") is not None:
            # <saml:EncryptedID>: the NameID encrypted to the receiver's encryption certificate (or to a key it does not hold)
            e = s["enc_id"]
            p.append(encrypted_id(e["name_id"], a["id"], e.get("enc_cert", "sp_enc1") if e.get("decryptable", True) else "attacker"))
        for sc in s.get("confs", []):
            p.append('<saml:SubjectConfirmation Method="%s">' % CM[sc["method"]])
            d = sc.get("data")
            if d is not None:
                at = []
                for k, an in (("nb", "NotBefore"), ("nooa", "NotOnOrAfter")):
                    if d.get(k) is not None:
                        at.append('%s="%s"' % (an, tstr(d[k], syntax)))
                for k, an in (("recipient", "Recipient"), ("irt", "InResponseTo"), ("address", "Address")):
                    if d.get(k) is not None:
                        at.append('%s="%s"' % (an, xesc(d[k])))
                inner = ""
                if d.get("has_keyinfo"):
                    inner = ('<ds:KeyInfo xmlns:ds="http://www.w3.org/2000/09/xmldsig#"><ds:KeyName>k</ds:KeyName>'
                             "</ds:KeyInfo>")
                p.append("<saml:SubjectConfirmationData %s>%s</saml:SubjectConfirmationData>" % (" ".join(at), inner))
            p.append("</saml:SubjectConfirmation>")
        p.append("</saml:Subject>")
    c = a.get("conditions")
    if c is not None:
        at = []
        for k, an in (("nb", "NotBefore"), ("nooa", "NotOnOrAfter")):
            if c.get(k) is not None:
                at.append(' %s="%s"' % (an, tstr(c[k], syntax)))
        p.append("<saml:Conditions%s>" % "".join(at))
        for typ in c.get("extra", []):
            # an extension condition: <saml:Condition xsi:type="..."> (None: the xsi:type attribute is missing)
            p.append('<saml:Condition xmlns:xsi="http://www.w3.org/2001/XMLSchema-instance"%s/>'
                     % (' xsi:type="%s"' % xesc(typ) if typ is not None else ""))
        for r in c.get("audiences", []):
            p.append("<saml:AudienceRestriction>%s</saml:AudienceRestriction>"
                     % "".join("<saml:Audience>%s</saml:Audience>" % xesc(x) for x in r))
        p.append("</saml:Conditions>")
    for st in a.get("authn", []):
        at = ' AuthnInstant="%s"' % tstr(a.get("issue_instant", S.NOW0), syntax)
        if st.get("session_index") is not None:
            at += ' SessionIndex="%s"' % xesc(st["session_index"])
        if st.get("session_nooa") is not None:
            at += ' SessionNotOnOrAfter="%s"' % tstr(st["session_nooa"], syntax)
        p.append("<saml:AuthnStatement%s><saml:AuthnContext><saml:AuthnContextClassRef>"
                 "urn:oasis:names:tc:SAML:2.0:ac:classes:Password</saml:AuthnContextClassRef></saml:AuthnContext>"
                 "</saml:AuthnStatement>" % at)
    attrs = a.get("attrs", [])
    if attrs:
        p.append("<saml:AttributeStatement>")
        for name, nf, fn, vals in attrs:
            p.append('<saml:Attribute Name="%s" NameFormat="%s"%s>%s</saml:Attribute>' % (
                xesc(name), xesc(nf), ' FriendlyName="%s"' % xesc(fn) if fn else "",
                "".join("<saml:AttributeValue>%s</saml:AttributeValue>" % xesc(v) for v in vals)))
        p.append("</saml:AttributeStatement>")
    p.append("</saml:Assertion>")
    return "".join(p)


def _run(argv):
    rc, out, err = X.run(["xmlsec1"] + argv)
    if rc != 0:
        raise RuntimeError("stand-in failed: %s %s" % (argv[:1], err))


def sign_xml(xml, node_name, node_id, key_name):
    src = os.path.join(_tmp, "in-%d.xml" % os.getpid())
    out = os.path.join(_tmp, "out-%d.xml" % os.getpid())
    with open(src, "w", encoding="utf-8") as f:
        f.write(xml)
    _run(["--sign", "--privkey-pem", S.key_path(key_name), "--id-attr:ID", node_name, "--node-id", node_id,
          "--output", out, src])
    return open(out, encoding="utf-8").read()


ENC_TEMPLATE = (
    '<xenc:EncryptedData xmlns:xenc="http://www.w3.org/2001/04/xmlenc#" xmlns:ds="http://www.w3.org/2000/09/xmldsig#" '
    'Id="ED_1" Type="http://www.w3.org/2001/04/xmlenc#Element">'
    '<xenc:EncryptionMethod Algorithm="http://www.w3.org/2001/04/xmlenc#tripledes-cbc"/>'
    '<ds:KeyInfo><xenc:EncryptedKey Id="EK_1">'
    '<xenc:EncryptionMethod Algorithm="http://www.w3.org/2001/04/xmlenc#rsa-oaep-mgf1p"/>'
    "<xenc:CipherData><xenc:CipherValue></xenc:CipherValue></xenc:CipherData></xenc:EncryptedKey></ds:KeyInfo>"
    "<xenc:CipherData><xenc:CipherValue></xenc:CipherValue></xenc:CipherData></xenc:EncryptedData>")


def encrypt_first_assertion(xml, cert_name):
    """xml holds <saml:EncryptedAssertion><saml:Assertion>…: encrypt the first such Assertion."""
    src = os.path.join(_tmp, "e-in-%d.xml" % os.getpid())
    tpl = os.path.join(_tmp, "e-tpl-%d.xml" % os.getpid())
    out = os.path.join(_tmp, "e-out-%d.xml" % os.getpid())
    with open(src, "w", encoding="utf-8") as f:
        f.write(xml)
    # xs:ID values must be unique in the document (the Response may carry several encrypted assertions)
    n = xml.count("<xenc:EncryptedData") + xml.count(":EncryptedData ") + 1
    with open(tpl, "w", encoding="utf-8") as f:
        f.write(ENC_TEMPLATE.replace('"ED_1"', '"ED_%d"' % n).replace('"EK_1"', '"EK_%d"' % n))
    xp = "".join('/*[local-name()="%s"]' % n for n in ("Response", "EncryptedAssertion", "Assertion"))
    _run(["--encrypt", "--pubkey-cert-pem", S.cert_path(cert_name), "--session-key", "des-192", "--xml-data", src,
          "--node-xpath", xp, "--output", out, tpl])
    return open(out, encoding="utf-8").read()


def encrypted_id(name_id, tag, cert_name):
    """-> <saml:EncryptedID> holding the NameID encrypted to `cert_name` (through the stand-in, like an EncryptedAssertion)."""
    src = os.path.join(_tmp, "i-in-%d.xml" % os.getpid())
    tpl = os.path.join(_tmp, "i-tpl-%d.xml" % os.getpid())
    out = os.path.join(_tmp, "i-out-%d.xml" % os.getpid())
    with open(src, "w", encoding="utf-8") as f:
        f.write('<saml:EncryptedID xmlns:saml="%s"><saml:NameID Format="urn:oasis:names:tc:SAML:2.0:nameid-format:persistent">'
                "%s</saml:NameID></saml:EncryptedID>" % (SAML, xesc(name_id)))
    with open(tpl, "w", encoding="utf-8") as f:
        f.write(ENC_TEMPLATE.replace('"ED_1"', '"EDI_%s"' % xesc(tag)).replace('"EK_1"', '"EKI_%s"' % xesc(tag)))
    xp = "".join('/*[local-name()="%s"]' % n for n in ("EncryptedID", "NameID"))
    _run(["--encrypt", "--pubkey-cert-pem", S.cert_path(cert_name), "--session-key", "des-192", "--xml-data", src,
          "--node-xpath", xp, "--output", out, tpl])
    x = open(out, encoding="utf-8").read()
    if x.startswith("<?xml"):
        x = x[x.index("?>") + 2:].lstrip()
    return x


SIGN_KEY = {"valid": "idp_sign", "corrupted": "idp_sign", "untrusted": "attacker"}


def render_response(r, syntax="z"):
    """-> XML text of the Response, signed/encrypted as the abstract states demand."""
    parts = []
    at = ['ID="%s"' % xesc(r["id"]), 'Version="%s"' % xesc(r.get("version", "2.0")),
          'IssueInstant="%s"' % tstr(r.get("issue_instant", S.NOW0), syntax)]
    if r.get("destination") is not None:
        at.append('Destination="%s"' % xesc(r["destination"]))
    if r.get("in_response_to") is not None:
        at.append('InResponseTo="%s"' % xesc(r["in_response_to"]))
    head = '<samlp:Response xmlns:samlp="%s" xmlns:saml="%s" %s>' % (SAMLP, SAML, " ".join(at))
    if r.get("issuer") is not None:
        head += "<saml:Issuer>%s</saml:Issuer>" % xesc(r["issuer"])
    rsig = r.get("sig", "absent")
    def key_of(state, elem):
        # a valid / corrupted signature may be made with any signing key the issuer publishes (key roll-over)
        # (an `untrusted` signature is made with the attacker's key unless the case names one (`untrusted_key`): a key
        #  the issuer published in an EARLIER metadata generation is untrusted too, see `play_history`)
        if state == "untrusted":
            return elem.get("untrusted_key") or SIGN_KEY[state]
        return elem.get("sig_key") or SIGN_KEY[state]

    sigpart = sig_template(r["id"], key_of(rsig, r), r.get("keyinfo", "cert")) if rsig != "absent" else ""
    status = '<samlp:Status><samlp:StatusCode Value="%s">%s</samlp:StatusCode>%s</samlp:Status>' % (
        xesc(r.get("status_top", SUCCESS)),
        '<samlp:StatusCode Value="%s"/>' % xesc(r["status_second"]) if r.get("status_second") is not None else "",
        "<samlp:StatusMessage>%s</samlp:StatusMessage>" % xesc(r["status_message"]) if r.get("status_message") else "")
    # assertions: sign each (enveloped) while it is still in clear, inside the final document
    body = []
    for a in r.get("assertions", []):
        asig = a.get("sig", "absent")
        ax = render_assertion(a, key_of(asig, a) if asig != "absent" else None, syntax)
        body.append((a, ax))
    doc = head + sigpart + status + "".join(
        ("<saml:EncryptedAssertion>%s</saml:EncryptedAssertion>" % ax) if a.get("encrypted") else ax for a, ax in body
    ) + "</samlp:Response>"
    for a, ax in body:
        asig = a.get("sig", "absent")
        if asig != "absent":
            doc = sign_xml(doc, SAML + ":Assertion", a["id"], key_of(asig, a))
            if asig == "corrupted":
                doc = corrupt_in(doc, a["id"])
    # encrypt in document order (the stand-in encrypts the first clear Assertion below an EncryptedAssertion)
    for a, ax in body:
        if a.get("encrypted"):
            doc = encrypt_first_assertion(doc, a.get("enc_cert", "sp_enc1") if a.get("decryptable", True) else "attacker")
    if rsig != "absent":
        doc = sign_xml(doc, SAMLP + ":Response", r["id"], key_of(rsig, r))
        if rsig == "corrupted":
            doc = corrupt_response(doc)
    return doc


def corrupt_in(doc, assertion_id):
    """flip one character inside the signed assertion (AuthnContextClassRef text or NameID text)"""
    i = doc.index('ID="%s"' % xesc(assertion_id))
    for marker in ("classes:Password<", "</saml:NameID>"):
        j = doc.find(marker, i)
        if j != -1:
            if marker.startswith("classes"):
                return doc[:j] + "classes:Passwore<" + doc[j + len(marker):]
            return doc[:j] + "x" + doc[j:]
    j = doc.index("<saml:Issuer>", i)
    return doc[:j + len("<saml:Issuer>")] + doc[j + len("<saml:Issuer>"):].replace("</saml:Issuer>", " </saml:Issuer>", 1)


def corrupt_response(doc):
    """change signed content at Response level that no other check looks at: add a Consent attribute"""
    return doc.replace("<samlp:Response ", '<samlp:Response Consent="urn:oasis:names:tc:SAML:2.0:consent:unspecified" ', 1)


def pack(xml, binding):
    if binding == "post":
        return base64.b64encode(xml.encode("utf-8")).decode("ascii")
    if binding == "redirect":
        c = zlib.compressobj(9, zlib.DEFLATED, -15)
        return base64.b64encode(c.compress(xml.encode("utf-8")) + c.flush()).decode("ascii")
    if binding in ("soap", "paos"):
        return ('<soapenv:Envelope xmlns:soapenv="http://schemas.xmlsoap.org/soap/envelope/"><soapenv:Body>%s'
                "</soapenv:Body></soapenv:Envelope>" % xml)
    raise ValueError(binding)


# ------------------------------------------------------------------ SP under test

_sp_cache = {}


def read_sp_defaults():
    """attribute_defaults of client_base.Base.__init__, parsed from the CURRENT source."""
    import saml2.client_base as cb

    src = open(cb.__file__, encoding="utf-8").read()
    tree = ast.parse(src)
    for node in ast.walk(tree):
        if isinstance(node, ast.Assign) and any(isinstance(t, ast.Name) and t.id == "attribute_defaults" for t in node.targets):
            return ast.literal_eval(node.value)
    raise RuntimeError("attribute_defaults not found in client_base.py")


def sp_for(cfg, fresh=False):
    """fresh=True: a client of its own (a case with a history changes its state, e.g. reloads its metadata)"""
    key = repr(sorted(cfg.items()))
    if key in _sp_cache and not fresh:
        return _sp_cache[key]
    spopts = {}
    for opt, name in (("want_resp", "want_response_signed"), ("want_assert", "want_assertions_signed"),
                      ("want_either", "want_assertions_or_response_signed")):
        if cfg.get(opt) is not None:
            spopts[name] = cfg[opt]
    if cfg.get("allow_unsolicited"):
        spopts["allow_unsolicited"] = True
    if "allow_unsolicited_raw" in cfg:
        # the raw configuration value, whatever its form (the case's "allow_unsolicited" says what it means)
        spopts["allow_unsolicited"] = cfg["allow_unsolicited_raw"]
    extra = {}
    if cfg.get("skew") is not None:
        extra["accepted_time_diff"] = cfg["skew"]
    if cfg.get("endpoints") in ("post_only", "redirect_only"):
        # an SP without consumer endpoint for one of the bindings
        acs = [(S.SP_ACS_POST, S.BINDING_POST)] if cfg["endpoints"] == "post_only" else [(S.SP_ACS_REDIRECT, S.BINDING_REDIRECT)]
        spopts["endpoints"] = {"assertion_consumer_service": acs,
                               "single_logout_service": [(S.SP_SLO_REDIRECT, S.BINDING_REDIRECT)]}
    if cfg.get("endpoints") == "indexed":
        # consumer endpoints configured as indexed 3-tuples (url, binding, index)
        spopts["endpoints"] = {"assertion_consumer_service": [(S.SP_ACS_POST, S.BINDING_POST, 1), (S.SP_ACS_REDIRECT, S.BINDING_REDIRECT, 2)],
                               "single_logout_service": [(S.SP_SLO_REDIRECT, S.BINDING_REDIRECT)]}
    if cfg.get("form") in ("str", "Str"):
        # the documented textual form of boolean options ("true"/"false"; "True" is a truthy string for the code)
        for k, v in list(spopts.items()):
            if v is True:
                spopts[k] = "true" if cfg["form"] == "str" else "True"
            elif v is False:
                spopts[k] = "false"
    if cfg.get("ext_schemas"):
        # extension schema modules of the configuration (`extension_schemas`): what an extension <Condition> may be typed with
        extra["extension_schemas"] = list(cfg["ext_schemas"])
    conf = S.sp_config(sp=spopts, **extra)
    if cfg.get("config_class") in ("Config", "IdPConfig"):
        # the same dictionary reaching Saml2Client through the generic Config class (combined IdP+SP deployments)
        S.install()
        import saml2.config as SC
        from saml2.client import Saml2Client

        c = getattr(SC, cfg["config_class"])()
        c.load(conf)
        sp = Saml2Client(config=c)
    else:
        sp = S.make_sp(conf)
    if fresh:
        return sp
    if len(_sp_cache) > 64:
        _sp_cache.clear()
    _sp_cache[key] = sp
    return sp


def idp_metadata(signing_keys):
    """metadata in which the IdP publishes exactly `signing_keys` as signing certificates (key roll-over / withdrawal)"""
    keys = [("signing", k) for k in signing_keys] + [("encryption", "idp_enc")]
    e = S.default_idp_entity()
    e["idpsso"] = dict(e["idpsso"], keys=keys)
    return S.metadata_xml([e, S.default_idp2_entity()])


def play_history(sp, history, case):
    """What the long-lived client went through BEFORE the message under test: earlier messages it processed
    ({"resp": abstract Response, "now"?, "outstanding"?}) and metadata reloads ({"reload_keys": [...]},
    Entity.reload_metadata with the IdP's signing certificates replaced).  Returns what each step did."""
    env = case["env"]
    done = []
    for step in history:
        if "reload_keys" in step:
            if not sp.reload_metadata({"inline": [idp_metadata(step["reload_keys"])]}):
                raise RuntimeError("harness: reload_metadata did not succeed")
            done.append("reloaded")
        else:
            xml = render_response(step["resp"], case.get("syntax", "z"))
            binding = step.get("binding", env["binding"])
            with S.clock(step.get("now", env["now"])):
                try:
                    r = sp.parse_authn_request_response(pack(xml, binding), BINDINGS[binding],
                                                        {k: v for k, v in step.get("outstanding", env.get("outstanding", []))})
                    done.append("accepted" if r is not None else "none")
                except Exception as e:  # an earlier message may be refused; the message under test is judged on its own
                    done.append(type(e).__name__)
    return done


def own_addrs(binding, endpoints="both"):
    if endpoints == "post_only" and binding != "post":
        return []
    if endpoints == "redirect_only" and binding != "redirect":
        return []
    return {"post": [S.SP_ACS_POST], "redirect": [S.SP_ACS_REDIRECT]}.get(binding, [])


import contextlib
import time as _time_mod


@contextlib.contextmanager
def _timezone(tz):
    """Run the receiver under another process time zone (all SAML times are UTC: the zone must not matter)."""
    if not tz:
        yield
        return
    old = os.environ.get("TZ")
    os.environ["TZ"] = tz
    _time_mod.tzset()
    try:
        yield
    finally:
        if old is None:
            os.environ.pop("TZ", None)
        else:
            os.environ["TZ"] = old
        _time_mod.tzset()


def run_sp(case):
    """case: {cfg, env, resp, syntax?} -> canonical outcome of the REAL service provider."""
    with _timezone(case["env"].get("tz")):
        return _run_sp(case)


def _run_sp(case):
    sp = sp_for(case["cfg"], fresh=bool(case.get("history")))
    env = case["env"]
    if case.get("history"):
        play_history(sp, case["history"], case)
    xml = render_response(case["resp"], case.get("syntax", "z"))
    binding = env["binding"]
    msg = pack(xml, binding)
    outstanding = {k: v for k, v in env.get("outstanding", [])}
    conv = env.get("conv_info")
    from saml2.cache import Cache
    from saml2.population import Population

    sp.users = Population(Cache())  # fresh identity cache per case
    before = _snapshot(sp)
    if env.get("kind") == "attr":
        # an attribute-query answer: Saml2Client.parse_attribute_query_response (always SOAP, no outstanding set,
        # no conversation information)
        with S.clock(env["now"]):
            try:
                r = sp.parse_attribute_query_response(pack(xml, "soap"), BINDINGS["soap"])
            except Exception as e:
                return {"r": "rejected", "err": type(e).__name__, "cached": _snapshot(sp) != before}
        if r is None:
            return {"r": "none", "cached": False}
        name_id = r.name_id.text if getattr(r, "name_id", None) is not None else None
        if name_id is None and not r.ava:
            return {"r": "none", "cached": False}
        return {"r": "identity", "name_id": name_id, "issuer": r.issuer(), "came_from": None,
                "not_on_or_after": r.not_on_or_after, "session_index": None, "cached": _snapshot(sp) != before}
    if env.get("kind") == "factory":
        # the second public entry point: saml2.response.authn_response(...) + loads() + verify()
        from saml2.response import authn_response

        if env.get("via") == "response_factory":
            # the third public entry point: saml2.response.response_factory(...) (loads inside) + verify()
            from saml2.response import response_factory

            with S.clock(env["now"]):
                try:
                    ar = response_factory(xml, sp.config, list(case.get("return_addrs") or []), outstanding, 0, False, 0, None,
                                          binding not in ("soap", "paos"),
                                          bool(case["cfg"].get("allow_unsolicited", False)),
                                          bool(case["cfg"].get("want_assert", False)), conv)
                    r = ar.verify() if ar is not None else None
                except Exception as e:
                    return {"r": "rejected", "err": type(e).__name__, "cached": False}
                if r is None:
                    return {"r": "none", "cached": False}
                name_id = r.name_id.text if getattr(r, "name_id", None) is not None else None
                try:
                    si = r.session_info()
                except Exception:
                    si = None
            if name_id is None and not r.ava and si is None:
                return {"r": "none", "cached": False}
            return {"r": "identity", "name_id": name_id, "issuer": si["issuer"] if si else None,
                    "came_from": si["came_from"] if si else r.came_from,
                    "not_on_or_after": si["not_on_or_after"] if si else None,
                    "session_index": si["session_index"] if si else None, "cached": False}
        with S.clock(env["now"]):
            try:
                ar = authn_response(sp.config, list(case.get("return_addrs") or []), outstanding,
                                    asynchop=binding not in ("soap", "paos"),
                                    allow_unsolicited=bool(case["cfg"].get("allow_unsolicited", False)),
                                    want_assertions_signed=bool(case["cfg"].get("want_assert", False)), conv_info=conv)
                if case.get("first") is not None:
                    # the same object used before for another Response (as tests/test_44_authnresp.py does): whatever that
                    # call left behind must not change the verdict on this one
                    try:
                        ar.loads(render_response(case["first"], case.get("syntax", "z")), False)
                        ar.verify()
                    except Exception:
                        pass
                ar.loads(xml, False)
                r = ar.verify()
            except Exception as e:
                return {"r": "rejected", "err": type(e).__name__, "cached": False}
            if r is None:
                return {"r": "none", "cached": False}
            name_id = r.name_id.text if getattr(r, "name_id", None) is not None else None
            try:
                si = r.session_info()
            except Exception:
                si = None
        if name_id is None and not r.ava and si is None:
            return {"r": "none", "cached": False}
        return {"r": "identity", "name_id": name_id, "issuer": si["issuer"] if si else None,
                "came_from": si["came_from"] if si else r.came_from,
                "not_on_or_after": si["not_on_or_after"] if si else None,
                "session_index": si["session_index"] if si else None, "cached": False}
    with S.clock(env["now"]):
        try:
            r = sp.parse_authn_request_response(msg, BINDINGS[binding], outstanding, conv_info=conv)
        except Exception as e:  # every rejection of the message is an exception of the library
            return {"r": "rejected", "err": type(e).__name__, "cached": _snapshot(sp) != before}
        cached = _snapshot(sp) != before
        if r is None:
            return {"r": "none", "cached": cached}
        name_id = r.name_id.text if getattr(r, "name_id", None) is not None else None
        try:
            si = r.session_info()
        except Exception:
            si = None
    if name_id is None and not r.ava and si is None and not cached:
        return {"r": "none", "cached": False}
    return {"r": "identity", "name_id": name_id, "issuer": si["issuer"] if si else None,
            "came_from": si["came_from"] if si else r.came_from,
            "not_on_or_after": si["not_on_or_after"] if si else None,
            "session_index": si["session_index"] if si else None,
            "cached": cached}


def _snapshot(sp):
    db = sp.users.cache._db
    return repr(sorted((k, sorted(v.keys())) for k, v in db.items()))
