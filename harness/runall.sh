#!/bin/sh
# usage: harness/runall.sh [seed] [tier] [parallel]   -- run every registered check once, print one line each
cd "$(dirname "$0")/.."
SEED=${1:-0}; TIER=${2:-quick}; PAR=${3:-4}
mkdir -p replays/runall
for i in 01 02 03 04 05 06 07 08 09 10 11 12 13 14 15 16 17 18 19 20; do echo C$i; done | \
  xargs -P "$PAR" -I{} sh -c "VERIF_SEED=$SEED ./check {} --tier $TIER > replays/runall/{}_$SEED.log 2>&1; echo {} seed=$SEED rc=\$? \$(tail -1 replays/runall/{}_$SEED.log | cut -c1-160)"
