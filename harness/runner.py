#!/venv/bin/python
"""Generic check loop: translate -> lake build -> audit -> correspondence -> verdict -> evidence.

Usage: runner.py Cxx [--tier quick|thorough] [--replay FILE]

Exit codes: 0 property held on everything explored (KNOWN-FINDING lines allowed),
            1 violation (a `VIOLATION property=<id> replay=<path>` line is printed),
            2 infrastructure failure.
See DESIGN.md sections 2 and 4.
"""
import argparse
import fcntl
import hashlib
import importlib
import json
import os
import random
import re
import subprocess
import sys
import time
import traceback

import anchorcov

HERE = os.path.dirname(os.path.abspath(__file__))
ROOT = os.path.dirname(HERE)
LEAN = os.path.join(ROOT, "lean")
sys.path.insert(0, HERE)

ALLOWED_AXIOMS = {"propext", "Classical.choice", "Quot.sound"}
FORBIDDEN = re.compile(
    r"\bsorry\b|\badmit\b|^\s*axiom\s|native_decide|bv_decide|implemented_by|\bunsafe\s|maxHeartbeats\s+0\b|"
    r"ofReduceBool|reduceBool"
)

os.environ.setdefault("PYSAML2_VERIF", "1")


def log(*a):
    print(*a, flush=True)


# --------------------------------------------------------------------------- lean


class BuildLock:
    def __enter__(self):
        self.f = open(os.path.join(LEAN, ".verif.lock"), "w")
        fcntl.flock(self.f, fcntl.LOCK_EX)
        return self

    def __exit__(self, *a):
        fcntl.flock(self.f, fcntl.LOCK_UN)
        self.f.close()


def write_if_changed(path, content):
    try:
        with open(path, encoding="utf-8") as f:
            if f.read() == content:
                return False
    except FileNotFoundError:
        pass
    os.makedirs(os.path.dirname(path), exist_ok=True)
    with open(path, "w", encoding="utf-8") as f:
        f.write(content)
    return True


def lake_build(targets, timeout=1500):
    cmd = ["lake", "build"] + list(targets)
    t0 = time.time()
    try:
        p = subprocess.run(cmd, cwd=LEAN, capture_output=True, text=True, timeout=timeout)
    except subprocess.TimeoutExpired as e:
        return False, "TIMEOUT after %ss\n%s" % (timeout, (e.stdout or "")[-4000:]), " ".join(cmd), time.time() - t0
    out = p.stdout + p.stderr
    return p.returncode == 0, out, " ".join(cmd), time.time() - t0


def strip_comments(src):
    # remove /- ... -/ (possibly nested) and -- line comments; string literals are left alone
    out = []
    i, depth, n = 0, 0, len(src)
    while i < n:
        if src.startswith("/-", i):
            depth += 1
            i += 2
        elif depth and src.startswith("-/", i):
            depth -= 1
            i += 2
        elif depth:
            if src[i] == "\n":
                out.append("\n")
            i += 1
        elif src.startswith("--", i):
            while i < n and src[i] != "\n":
                i += 1
        else:
            out.append(src[i])
            i += 1
    return "".join(out)


def import_closure(module, seen=None):
    """Files of the project reachable from `module` (dotted name) through `import PysamlModel....`."""
    seen = seen if seen is not None else {}
    path = os.path.join(LEAN, module.replace(".", "/") + ".lean")
    if module in seen or not os.path.exists(path):
        return seen
    with open(path, encoding="utf-8") as f:
        src = f.read()
    seen[module] = path
    for m in re.findall(r"^\s*(?:public\s+)?import\s+(PysamlModel[\w.]*)", src, re.M):
        import_closure(m, seen)
    return seen


def grep_forbidden(modules):
    hits = []
    files = {}
    for m in modules:
        files.update(import_closure(m))
    for mod, path in sorted(files.items()):
        with open(path, encoding="utf-8") as f:
            src = strip_comments(f.read())
        for ln, line in enumerate(src.split("\n"), 1):
            if FORBIDDEN.search(line):
                hits.append("%s:%d: %s" % (os.path.relpath(path, ROOT), ln, line.strip()[:120]))
    return hits, sorted(files)


def run_audit(audit_file, timeout=900):
    """`#print axioms` for every registered theorem -> {theorem: [axioms]}."""
    cmd = ["lake", "env", "lean", audit_file]
    try:
        p = subprocess.run(cmd, cwd=LEAN, capture_output=True, text=True, timeout=timeout)
    except subprocess.TimeoutExpired:
        return False, {}, "TIMEOUT", " ".join(cmd)
    out = p.stdout + p.stderr
    res = {}
    # messages can wrap over several lines
    flat = re.sub(r"\n\s+", " ", out)
    for m in re.finditer(r"'([^']+)' depends on axioms: \[([^\]]*)\]", flat):
        res[m.group(1)] = [a.strip() for a in m.group(2).split(",") if a.strip()]
    for m in re.finditer(r"'([^']+)' does not depend on any axioms", flat):
        res[m.group(1)] = []
    return p.returncode == 0, res, out, " ".join(cmd)


def audit_theorems(audit_file):
    with open(os.path.join(LEAN, audit_file), encoding="utf-8") as f:
        src = strip_comments(f.read())
    return re.findall(r"^\s*#print\s+axioms\s+(\S+)", src, re.M)


def run_driver(driver, lines, timeout=1800):
    """Feed JSON lines to `lake env lean --run <driver>`; return list of parsed answers."""
    if not lines:
        return []
    data = "\n".join(json.dumps(l, ensure_ascii=False) for l in lines) + "\n"
    cmd = ["lake", "env", "lean", "--run", driver]
    p = subprocess.run(cmd, cwd=LEAN, input=data.encode("utf-8"), capture_output=True, timeout=timeout)
    outs = [l for l in p.stdout.decode("utf-8", "replace").split("\n") if l.strip()]
    if p.returncode != 0 or len(outs) != len(lines):
        raise DriverError(
            "driver %s: rc=%s, %d answers for %d lines\nstderr: %s\nstdout tail: %s"
            % (driver, p.returncode, len(outs), len(lines), p.stderr.decode("utf-8", "replace")[-3000:], "\n".join(outs[-3:]))
        )
    return [json.loads(o) for o in outs]


class DriverError(Exception):
    pass


def leanchecker(modules, timeout=3000):
    cmd = ["lake", "env", "leanchecker"] + list(modules)
    try:
        p = subprocess.run(cmd, cwd=LEAN, capture_output=True, text=True, timeout=timeout)
    except subprocess.TimeoutExpired:
        return False, "TIMEOUT", " ".join(cmd)
    return p.returncode == 0, (p.stdout + p.stderr)[-3000:], " ".join(cmd)


# --------------------------------------------------------------------------- findings


def load_known():
    path = os.path.join(ROOT, "KNOWN_FINDINGS.jsonl")
    res = []
    if os.path.exists(path):
        with open(path, encoding="utf-8") as f:
            for line in f:
                line = line.strip()
                if not line or line.startswith("#"):
                    continue
                if line.startswith("fixed:"):
                    m = re.match(r"fixed: property=(\S+) (\S+) (.*?)(?: \[key=(\S+)\])?$", line)
                    if m:
                        res.append({"status": "fixed", "property": m.group(1), "commit": m.group(2), "what": m.group(3),
                                    "key": m.group(4)})
                    continue
                res.append(json.loads(line))
    return res


def save_replay(pid, name, obj):
    d = os.path.join(ROOT, "replays")
    os.makedirs(d, exist_ok=True)
    path = os.path.join(d, "%s_%s.json" % (pid, name))
    with open(path, "w", encoding="utf-8") as f:
        json.dump(obj, f, indent=1, ensure_ascii=False, sort_keys=True)
    return os.path.relpath(path, ROOT)


# --------------------------------------------------------------------------- impl runs


def _impl_one(args):
    prop_name, case = args
    mod = importlib.import_module("props." + prop_name)
    r = safe_impl(mod, case)
    return r, anchorcov.drain()


def safe_impl(mod, case):
    try:
        return mod.run_impl(case)
    except BaseException as e:  # harness-level failure: the runner decides what it means
        if isinstance(e, KeyboardInterrupt):
            raise
        return {"__harness_error__": "%s: %s" % (type(e).__name__, e), "__tb__": traceback.format_exc()[-1500:]}


def run_impls(mod, cases, parallel):
    if parallel and len(cases) > 64:
        import multiprocessing as mp

        ctx = mp.get_context("fork")
        anchorcov.drain()
        with ctx.Pool(min(16, os.cpu_count() or 4)) as pool:
            out = pool.map(_impl_one, [(mod.__name__.split(".")[-1], c) for c in cases], chunksize=16)
        for _r, new in out:
            anchorcov.merge(new)
        return [r for r, _new in out]
    return [safe_impl(mod, c) for c in cases]


# --------------------------------------------------------------------------- main


def case_id(case):
    return hashlib.sha1(json.dumps(case, sort_keys=True, ensure_ascii=False).encode("utf-8")).hexdigest()[:12]


def evaluate(mod, cases, parallel=False):
    """-> list of records {case, impl, lean, agree, spec_ok}."""
    impls = run_impls(mod, cases, parallel)
    lines = [{"case": c, "impl": i} for c, i in zip(cases, impls)]
    leans = run_driver(mod.DRIVER, lines)
    recs = []
    for c, i, l in zip(cases, impls, leans):
        if "__harness_error__" in i:
            recs.append({"case": c, "impl": i, "lean": l, "agree": False, "spec_ok": None, "harness_error": True})
            continue
        cmp_fn = getattr(mod, "compare", None)
        agree = cmp_fn(c, i, l.get("model")) if cmp_fn else (i == l.get("model"))
        recs.append({"case": c, "impl": i, "lean": l, "agree": bool(agree), "spec_ok": l.get("spec_impl")})
    return recs


def main(argv=None):
    ap = argparse.ArgumentParser()
    ap.add_argument("prop")
    ap.add_argument("--tier", default=os.environ.get("VERIF_TIER", "quick"), choices=["quick", "thorough"])
    ap.add_argument("--replay")
    ap.add_argument("--no-build", action="store_true", help="debugging only: skip translate/build/audit")
    args = ap.parse_args(argv)
    pid = args.prop.upper()
    tier = args.tier
    seed = int(os.environ.get("VERIF_SEED", "0") or 0)
    t0 = time.time()
    try:
        mod = importlib.import_module("props." + pid.lower())
    except Exception:
        traceback.print_exc()
        log("INFRA-ERROR: cannot import harness module for %s" % pid)
        return 2

    known = [k for k in load_known() if k.get("property") == pid and k.get("status") == "known"]
    known_keys = {k["key"]: k for k in known}

    try:
        anchorcov.install()
    except Exception:  # measurement only: never decides anything
        traceback.print_exc()

    try:
        if hasattr(mod, "setup"):
            mod.setup()
    except Exception:
        traceback.print_exc()
        log("INFRA-ERROR: harness setup failed")
        return 2

    if args.replay:
        return replay(mod, pid, args.replay, known_keys)

    rdir = os.path.join(ROOT, "replays")
    if os.path.isdir(rdir):
        for fn in os.listdir(rdir):
            if fn.startswith(pid + "_"):
                os.remove(os.path.join(rdir, fn))

    broken = []  # names of obligations that no longer check
    build_log = ""
    checker_cmds = []
    axioms = {}
    obligations = audit_theorems(mod.AUDIT)
    extra_obl = list(getattr(mod, "EXTRA_OBLIGATIONS", []))
    # translator tie (harness/pytie.py): refinement theorems between the regenerated MiniPy terms of the anchored decision
    # functions and the hand-written model functions; part of this property's obligations
    tie = None
    tie_info = {}
    try:
        import pytie

        tie = pytie.TIES.get(pid)
    except Exception:
        traceback.print_exc()
        broken.append("translator tie: harness/pytie.py cannot be imported")
    if tie:  # one or several Lean modules / audit files
        tie = dict(tie)
        tie["props"] = [tie["props"]] if isinstance(tie["props"], str) else list(tie["props"])
        tie["audit"] = [tie["audit"]] if isinstance(tie["audit"], str) else list(tie["audit"])
    tie_obl = [t for a in tie["audit"] for t in audit_theorems(a)] if tie else []
    translate_info = {}
    closure_files = []

    if not args.no_build:
        with BuildLock():
            # 1. translate
            try:
                for gen in list(getattr(mod, "GEN", [])) + ([pytie.gen] if tie else []):
                    files = gen()
                    for rel, content in files.items():
                        changed = write_if_changed(os.path.join(LEAN, rel), content)
                        translate_info[rel] = {
                            "sha1": hashlib.sha1(content.encode("utf-8")).hexdigest()[:12],
                            "changed": changed,
                        }
            except Exception as e:
                traceback.print_exc()
                broken.append("translator:%s: %s" % (type(e).__name__, str(e)[:200]))
            # 2. build (model/driver first so the driver is usable even if a theorem broke)
            base_targets = list(getattr(mod, "MODEL_TARGETS", []))
            if base_targets:
                ok, out, cmd, dt = lake_build(base_targets)
                checker_cmds.append(cmd)
                if not ok:
                    log(out[-6000:])
                    log("INFRA-ERROR: model modules do not build")
                    broken.append("model-build")
            ok, out, cmd, dt = lake_build([mod.LEAN_PROPS])
            checker_cmds.append(cmd)
            build_log = out
            if not ok:
                log(out[-6000:])
                names = set(re.findall(r"error: [^\n]*\n?", out))
                broken.append("lake build %s failed" % mod.LEAN_PROPS)
                for m in re.finditer(r"^error: (\S+\.lean):(\d+):(\d+)", out, re.M):
                    broken.append("%s:%s" % (m.group(1), m.group(2)))
            tie_ok = False
            tie_broken = []
            if tie:
                tie_ok, tout, tcmd, _dt = lake_build(tie["props"] + ["PysamlModel.Model.PyEnc"])
                checker_cmds.append(tcmd)
                if not tie_ok:
                    log(tout[-4000:])
                    build_log += "\n" + tout
                    tie_broken.append("lake build %s failed (the regenerated term of %s no longer refines the model function)" % (
                        " ".join(tie["props"]), "/".join(tie["functions"])))
                    for m in re.finditer(r"^error: (\S+\.lean):(\d+):(\d+)", tout, re.M):
                        tie_broken.append("%s:%s" % (m.group(1), m.group(2)))
                    if os.environ.get("VERIF_TIE_STRICT") == "1":
                        broken.extend(tie_broken)
            # 3. audit
            hits, closure_files = grep_forbidden([mod.LEAN_PROPS] + (tie["props"] if tie else []))
            if hits:
                broken.append("forbidden tokens: " + "; ".join(hits[:5]))
            if ok:
                aok, axioms, aout, acmd = run_audit(mod.AUDIT)
                checker_cmds.append(acmd)
                if not aok:
                    log(aout[-3000:])
                    broken.append("audit file failed to elaborate")
                for th in obligations:
                    if th not in axioms:
                        broken.append("theorem not found by audit: " + th)
                    elif not set(axioms[th]) <= ALLOWED_AXIOMS:
                        broken.append("theorem %s uses axioms %s" % (th, axioms[th]))
                if tie and tie_ok:
                    taxioms = {}
                    for af in tie["audit"]:
                        taok, tax1, taout, tacmd = run_audit(af)
                        checker_cmds.append(tacmd)
                        taxioms.update(tax1)
                        if not taok:
                            log(taout[-3000:])
                            broken.append("tie audit file failed to elaborate")
                    axioms.update(taxioms)
                    for th in tie_obl:
                        if th not in taxioms:
                            broken.append("theorem not found by audit: " + th)
                        elif not set(taxioms[th]) <= ALLOWED_AXIOMS:
                            broken.append("theorem %s uses axioms %s" % (th, taxioms[th]))
                if tier == "thorough" and not broken:
                    cok, cout, ccmd = leanchecker([mod.LEAN_PROPS] + (tie["props"] if tie else []))
                    checker_cmds.append(ccmd)
                    if not cok:
                        log(cout)
                        broken.append("leanchecker rejected " + mod.LEAN_PROPS)

    if args.no_build:
        tie_broken = []
    if not tie_broken:
        obligations = obligations + tie_obl
    discharged = 0 if broken else len(obligations) + len(extra_obl)

    # 4. cases
    rng = random.Random(seed * 1000003 + (1 if tier == "thorough" else 0))
    cases = []
    seen = set()

    def add(c):
        k = case_id(c)
        if k not in seen:
            seen.add(k)
            cases.append(c)

    corpus_dir = os.path.join(ROOT, "corpus", pid)
    n_corpus = 0
    if os.path.isdir(corpus_dir):
        for fn in sorted(os.listdir(corpus_dir)):
            if fn.endswith(".json"):
                with open(os.path.join(corpus_dir, fn), encoding="utf-8") as f:
                    obj = json.load(f)
                for c in obj["cases"] if "cases" in obj else [obj["case"]]:
                    add(c)
                    n_corpus += 1
    try:
        for c in mod.gen_cases(rng, tier):
            add(c)
        if broken and hasattr(mod, "search_cases"):
            for c in mod.search_cases(rng, broken, build_log):
                add(c)
        if (broken or tie_broken) and tie:
            # the regenerated term no longer refines the model function: arguments on which the two differ, as cases of
            # this property's own check, so that the violation can be shown on the real service provider
            for c in pytie.search_cases(pid, rng, run_driver):
                add(c)
    except Exception:
        traceback.print_exc()
        log("INFRA-ERROR: case generation failed")
        return 2

    try:
        recs = evaluate(mod, cases, getattr(mod, "PARALLEL", False))
    except DriverError as e:
        log(str(e))
        if broken:
            path = save_replay(pid, "broken_obligation", {"property": pid, "broken": broken, "note": "driver unusable"})
            log("VIOLATION property=%s replay=%s no-failing-input-found" % (pid, path))
            write_evidence(pid, tier, seed, mod, [], obligations, extra_obl, 0, checker_cmds, axioms, t0, 1, [],
                           translate_info, broken, closure_files, n_corpus)
            return 1
        log("INFRA-ERROR: Lean driver failed")
        return 2

    harness_errors = [r for r in recs if r.get("harness_error")]
    if harness_errors:
        r = harness_errors[0]
        log("INFRA-ERROR: harness failed on %d cases, first: %s\n%s" % (
            len(harness_errors), json.dumps(r["case"])[:500], r["impl"].get("__tb__", "")))
        return 2

    if tie:
        try:
            tres = pytie.differential(pid, random.Random(seed * 7919 + 11), tier, run_driver)
            tie_info = {"functions": tie["functions"], "theorems": tie_obl, "cases": tres["cases"],
                        "interp_vs_cpython_disagreements": len(tres["interp_vs_cpython"]),
                        "interp_vs_model_disagreements": len(tres["interp_vs_model"]), "outcomes": tres["outcomes"]}
            tie_info["cpython_vs_model_disagreements"] = len(tres["cpython_vs_model"])
            if tie_broken:
                # The translator tie is one of TWO ties; the other is the correspondence check.  A rewrite of a tied
                # function that the refinement proof does not survive degrades the tie to the correspondence: the real
                # function is compared with the hand-written model function directly (no interpreter), next to the
                # property's own correspondence run.  Only a disagreement there makes it a broken obligation.
                tie_info["degraded"] = True
                tie_info["broken"] = tie_broken
                if tres["cpython_vs_model"]:
                    log("translator tie broken and the real function differs from the model function on %d of %d calls; first: %s" % (
                        len(tres["cpython_vs_model"]), tres["cases"], json.dumps(tres["cpython_vs_model"][0])[:800]))
                    broken.extend(tie_broken)
                    broken.append("real function vs model function (Drivers/PyFuns.lean `model`) on %s" % "/".join(tie["functions"]))
                    save_replay(pid, "pytie_cpython_vs_model", {"property": pid, "cases": tres["cpython_vs_model"][:20]})
            elif tres["interp_vs_cpython"]:
                log("translator tie: the MiniPy interpreter and CPython disagree on %d of %d calls; first: %s" % (
                    len(tres["interp_vs_cpython"]), tres["cases"], json.dumps(tres["interp_vs_cpython"][0])[:800]))
                broken.append("translator tie: interpreter (Drivers/PyFuns.lean) vs CPython on %s" % "/".join(tie["functions"]))
                save_replay(pid, "pytie_interp_vs_cpython", {"property": pid, "cases": tres["interp_vs_cpython"][:20]})
            if tres["interp_vs_model"] and not tie_broken and not any("refines" in b for b in broken):
                broken.append("translator tie: regenerated term vs model function differ although the theorem built")
        except DriverError as e:
            log(str(e))
            broken.append("translator tie: Drivers/PyFuns.lean unusable")
        if broken:
            discharged = 0

    violations = []  # (kind, rec)
    known_hits = {}
    disagreements = []
    for r in recs:
        if r["spec_ok"] is False:
            key = mod.finding_key(r["case"], r["impl"], r["lean"]) if hasattr(mod, "finding_key") else None
            if key is not None and key in known_keys:
                known_hits.setdefault(key, []).append(r)
            else:
                violations.append(("spec", r, key))
        elif not r["agree"]:
            disagreements.append(r)

    # directed search around disagreements: neighbours supplied by the property module
    if disagreements and hasattr(mod, "neighbours"):
        extra = []
        for r in disagreements[:20]:
            for c in mod.neighbours(r["case"], rng):
                if case_id(c) not in seen:
                    seen.add(case_id(c))
                    extra.append(c)
        if extra:
            for r in evaluate(mod, extra[:2000], getattr(mod, "PARALLEL", False)):
                recs.append(r)
                if r["spec_ok"] is False:
                    key = mod.finding_key(r["case"], r["impl"], r["lean"]) if hasattr(mod, "finding_key") else None
                    if key is not None and key in known_keys:
                        known_hits.setdefault(key, []).append(r)
                    else:
                        violations.append(("spec", r, key))

    rc = 0
    for key, rs in sorted(known_hits.items()):
        log("KNOWN-FINDING: property=%s %s [%s; %d cases this run]" % (pid, known_keys[key]["what"], key, len(rs)))

    if violations:
        rc = 1
        # smallest failing input first; shrink if the module can
        violations.sort(key=lambda v: len(json.dumps(v[1]["case"])))
        reported = set()
        for kind, r, key in violations:
            if key in reported:
                continue
            reported.add(key)
            r = shrink(mod, r, known_keys)
            path = save_replay(pid, "violation_%s" % case_id(r["case"]), {
                "property": pid, "seed": seed, "tier": tier, "kind": "failing-input", "finding_key": key,
                "case": r["case"], "impl": r["impl"], "model": r["lean"].get("model"),
                "spec_impl": r["lean"].get("spec_impl"), "why": r["lean"].get("why"),
                "broken_obligations": broken})
            log("VIOLATION property=%s replay=%s" % (pid, path))
            if len(reported) >= 5:
                break
    elif disagreements or broken:
        rc = 1
        obj = {"property": pid, "seed": seed, "tier": tier, "kind": "no-failing-input-found",
               "broken_obligations": broken,
               "correspondence": getattr(mod, "CORRESPONDENCE", mod.DRIVER),
               "diverging_cases": [{"case": r["case"], "impl": r["impl"], "model": r["lean"].get("model"),
                                    "path": r["lean"].get("path")} for r in disagreements[:10]],
               "build_log_tail": build_log[-3000:] if broken else ""}
        path = save_replay(pid, "unproved", obj)
        if disagreements:
            log("correspondence broken on %d cases; first: %s" % (len(disagreements), json.dumps(obj["diverging_cases"][0])[:1500]))
        if broken:
            log("broken obligations: %s" % broken)
        log("VIOLATION property=%s replay=%s no-failing-input-found" % (pid, path))

    if tie_broken and rc == 0:
        log("TIE-DEGRADED property=%s the regenerated term of %s no longer refines the model function (%s); the model is "
            "still tied to the code by the correspondence check: real function vs model function on %d calls and %d cases of "
            "the property's own run agree (VERIF_TIE_STRICT=1 makes this a broken obligation)" % (
                pid, "/".join(tie["functions"]), "; ".join(tie_broken[:3]), tie_info.get("cases", 0), len(recs)))
    write_evidence(pid, tier, seed, mod, recs, obligations, extra_obl, discharged, checker_cmds, axioms, t0,
                   len(violations) + (1 if (rc and not violations) else 0), sorted(known_hits), translate_info, broken,
                   closure_files, n_corpus, tie_info)
    log("%s %s: %d cases, %d disagreements, %d violations, %d known-finding classes, obligations %d/%d, %.1fs" % (
        pid, tier, len(recs), len(disagreements), len(violations), len(known_hits), discharged,
        len(obligations) + len(extra_obl), time.time() - t0))
    return rc


def shrink(mod, rec, known_keys):
    if not hasattr(mod, "shrink"):
        return rec
    cur = rec
    for _ in range(60):
        improved = False
        cands = list(mod.shrink(cur["case"]))[:200]
        if not cands:
            break
        rs = evaluate(mod, cands)
        for r in rs:
            if r.get("harness_error") or r["spec_ok"] is not False:
                continue
            key = mod.finding_key(r["case"], r["impl"], r["lean"]) if hasattr(mod, "finding_key") else None
            if key in known_keys:
                continue
            if len(json.dumps(r["case"])) < len(json.dumps(cur["case"])):
                cur = r
                improved = True
                break
        if not improved:
            break
    return cur


def write_evidence(pid, tier, seed, mod, recs, obligations, extra_obl, discharged, checker_cmds, axioms, t0, nviol,
                   known_lines, translate_info, broken, closure_files, n_corpus, tie_info=None):
    paths = {}
    for r in recs:
        p = r["lean"].get("path", "?")
        paths[p] = paths.get(p, 0) + 1
    nontrivial_rule = getattr(mod, "RULE", "distinct model paths hit")
    if hasattr(mod, "nontrivial"):
        dn = len({case_id(r["case"]) for r in recs if mod.nontrivial(r["case"], r["impl"], r["lean"])})
    else:
        dn = len(paths)
    samples = []
    step = max(1, len(recs) // 5)
    for r in recs[::step][:6]:
        samples.append({"case": r["case"], "impl": r["impl"], "model_path": r["lean"].get("path")})
    dist = {}
    if hasattr(mod, "distribution"):
        try:
            dist = mod.distribution(recs)
        except Exception:
            dist = {"error": traceback.format_exc()[-300:]}
    ev = {
        "property_id": pid,
        "tier": tier,
        "seed": seed,
        "level": "proof",
        "coverage": {
            "obligations": len(obligations) + len(extra_obl),
            "discharged": discharged,
            "obligation_names": obligations + extra_obl,
            "axioms_per_theorem": axioms,
            "checker_cmd": " && ".join(checker_cmds) if checker_cmds else "(build skipped)",
            "trusted_base": [
                "Lean 4.33.0 kernel" + (" + leanchecker" if tier == "thorough" else ""),
                "axioms allowed: propext, Classical.choice, Quot.sound (actual use per theorem in axioms_per_theorem)",
                "correspondence harness harness/props/%s.py and runner.py (differential run of the Lean model against /repo)" % pid.lower(),
            ] + list(getattr(mod, "TRUSTED", [])) + ([
                "translator harness/translate/pyfuns.py (syntax-directed Python ast -> MiniPy term; drops logging calls, docstrings "
                "and the message arguments of raise) and the MiniPy interpreter (Model/MiniPy.lean), validated on this run against "
                "CPython on %d calls of %s" % (tie_info.get("cases", 0), "/".join(tie_info.get("functions", [])))] if tie_info else []),
            "evaluations": len(recs),
            "traces_validated_against_impl": sum(1 for r in recs if r["agree"]),
            "distinct_nontrivial": dn,
            "rule": nontrivial_rule,
            "model_paths": paths,
            "exhaustive": bool(getattr(mod, "EXHAUSTIVE", False)),
            "samples": samples,
            "input_distribution": dist,
            "corpus_cases": n_corpus,
            "regenerated_tables": translate_info,
            "lean_files_in_closure": closure_files,
            "known_findings_reported": known_lines,
            "anchor_coverage": anchorcov.report(pid),
            "translator_tie": tie_info or {},
            "broken_obligations": broken,
        },
        "assumptions": list(getattr(mod, "ASSUMPTIONS", [])),
        "wall_s": round(time.time() - t0, 2),
        "violations": nviol,
    }
    d = os.path.join(ROOT, "evidence")
    os.makedirs(d, exist_ok=True)
    with open(os.path.join(d, pid + ".json"), "w", encoding="utf-8") as f:
        json.dump(ev, f, indent=1, ensure_ascii=False, sort_keys=True)


def replay(mod, pid, path, known_keys):
    with open(path if os.path.isabs(path) else os.path.join(ROOT, path), encoding="utf-8") as f:
        obj = json.load(f)
    cases = obj["cases"] if "cases" in obj else ([obj["case"]] if "case" in obj else [d["case"] for d in obj.get("diverging_cases", [])])
    if not cases:
        log("replay file names no concrete input (broken obligations: %s)" % obj.get("broken_obligations"))
        return 1
    with BuildLock():
        # regenerate the tables the driver depends on from the CURRENT source, as a normal run does
        try:
            for gen in getattr(mod, "GEN", []):
                for rel, content in gen().items():
                    write_if_changed(os.path.join(LEAN, rel), content)
        except Exception:
            traceback.print_exc()
            log("translator failed during replay; evaluating against the tables on disk")
        lake_build(list(getattr(mod, "MODEL_TARGETS", [])) or [mod.LEAN_PROPS])
    recs = evaluate(mod, cases)
    rc = 0
    for r in recs:
        log(json.dumps({"case": r["case"], "impl": r["impl"], "model": r["lean"].get("model"),
                        "agree": r["agree"], "spec_impl": r["spec_ok"], "why": r["lean"].get("why")}, ensure_ascii=False))
        if r["spec_ok"] is False:
            key = mod.finding_key(r["case"], r["impl"], r["lean"]) if hasattr(mod, "finding_key") else None
            if key in known_keys:
                log("KNOWN-FINDING: property=%s %s" % (pid, known_keys[key]["what"]))
            else:
                log("VIOLATION property=%s replay=%s" % (pid, path))
                rc = 1
        elif not r["agree"]:
            log("correspondence differs on this input (spec holds of the implementation's output)")
    return rc


if __name__ == "__main__":
    sys.exit(main())
