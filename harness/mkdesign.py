#!/usr/bin/env python3
"""Assemble /verif/DESIGN.md from design/*.md, KNOWN_FINDINGS.jsonl and seeded/*/meta.json.

usage: python3 harness/mkdesign.py     (writes DESIGN.md; nothing is read from outside /verif)"""
import glob
import json
import os
import re

ROOT = os.path.dirname(os.path.dirname(os.path.abspath(__file__)))


def rd(name):
    with open(os.path.join(ROOT, "design", name)) as f:
        return f.read().rstrip("\n") + "\n"


def first_sentence(s, n=330):
    s = " ".join(str(s).split())
    if len(s) <= n:
        return s
    cut = s[:n]
    m = max(cut.rfind(". "), cut.rfind("; "), cut.rfind(": "))
    return (cut[:m + 1] if m > 120 else cut.rsplit(" ", 1)[0] + " …")


def seeded():
    out = {}
    for d in sorted(glob.glob(os.path.join(ROOT, "seeded", "C*-*"))):
        sid = os.path.basename(d)
        if not os.path.isdir(d):
            continue
        try:
            m = json.load(open(os.path.join(d, "meta.json")))
        except Exception:
            continue
        ev = m.get("evaluation", {})
        checks = ev.get("checks", {})
        caught_by = [c for c, v in checks.items() if v.get("rc") == 1 and v.get("violations")]
        with_input = [c for c, v in checks.items()
                      if v.get("rc") == 1 and any("no-failing-input-found" not in x for x in v.get("violations", []))]
        out[sid] = {"prop": sid.split("-")[0], "summary": first_sentence(m.get("summary", "")),
                    "needs": first_sentence(m.get("needs", ""), 260), "demo_ok": ev.get("demo_ok"),
                    "caught_by": caught_by, "with_input": with_input, "ran": sorted(checks),
                    "note": m.get("integrator_note", "")}
    return out


def seeded_paragraph(pid, sd):
    rows = [(k, v) for k, v in sd.items() if v["prop"] == pid]
    if not rows:
        return "**Seeded changes.** none evaluated yet for this property."
    lines = ["**Seeded changes.** Written by an independent agent that saw only the property text (section 9); "
             "each passes the 319 baseline tests and its demonstration passes on the unchanged tree and fails with the change."]
    for k, v in rows:
        if v["caught_by"]:
            how = "caught by `./check %s`" % "`, `./check ".join(v["caught_by"])
            how += " with a failing input as replay" if v["with_input"] else " as a broken correspondence (no-failing-input-found)"
        else:
            how = "**not caught** by " + ", ".join(v["ran"])
        extra = (" " + v["note"]) if v["note"] else ""
        lines.append("- `%s` — %s *Needs:* %s → %s.%s" % (k, v["summary"], v["needs"], how, extra))
    return "\n".join(lines)


def defects_section():
    known, fixed = [], []
    for l in open(os.path.join(ROOT, "KNOWN_FINDINGS.jsonl")):
        l = l.strip()
        if l.startswith("{"):
            known.append(json.loads(l))
        elif l.startswith("fixed:"):
            m = re.match(r"fixed: property=(\S+) (\S+) (.*?)(?: \[key=([^\]]+)\])?$", l)
            fixed.append(m.groups())
    out = [rd("70-defects-head.md")]
    out.append("### 7.1 Repaired in /repo (%d `fix:` commits)\n" % len({f[1] for f in fixed}))
    out.append("| property | commit | what failed on the pinned tree | key (regression stays in corpus / enumeration) |")
    out.append("|---|---|---|---|")
    for p, c, what, key in sorted(fixed, key=lambda f: (f[0], f[1])):
        out.append("| %s | `%s` | %s | `%s` |" % (p, c, what.replace("|", "\\|"), key or ""))
    out.append("")
    out.append("### 7.2 Recorded as known findings (%d)\n" % len(known))
    out.append("Each is reproduced against the real code by its corpus replay, refuted in Lean by a `_counterexample` where the "
               "property's theorem would otherwise claim it, printed as `KNOWN-FINDING` on every run, and explained (why not "
               "repaired) in the property's sub-section of section 6.\n")
    out.append("| property | key | what fails |")
    out.append("|---|---|---|")
    for r in sorted(known, key=lambda r: r["key"]):
        out.append("| %s | `%s` | %s |" % (r["property"], r["key"], first_sentence(r["what"], 420).replace("|", "\\|")))
    out.append("")
    return "\n".join(out) + "\n"


def reseed_status():
    try:
        rs = json.load(open(os.path.join(ROOT, "seeded", "RESEED.json")))
    except Exception:
        return {}
    out = {}
    for r in rs:
        if not r.get("applies"):
            out[r["id"]] = "patch no longer applies"
        elif r.get("caught"):
            out[r["id"]] = "caught, failing input" if r.get("with_input") else "caught, correspondence"
        elif r.get("demo") and not r["demo"].get("still_breaks_property"):
            out[r["id"]] = "no longer breaks the property (a later `fix:` commit removed the precondition); check silent"
        else:
            out[r["id"]] = "**missed**"
    return out


def seeded_section(sd):
    rs = reseed_status()
    out = [rd("90-seeded-head.md")]
    out.append("| change | site and what was changed | caught by (when evaluated) | replay | re-run on the final tree |")
    out.append("|---|---|---|---|---|")
    n = c = 0
    for k, v in sd.items():
        n += 1
        c += bool(v["caught_by"])
        out.append("| %s | %s | %s | %s | %s |" % (k, v["summary"].replace("|", "\\|"),
                                                  ", ".join(v["caught_by"]) or "**missed**",
                                                  "failing input" if v["with_input"] else ("correspondence" if v["caught_by"] else "–"),
                                                  rs.get(k, "not re-run")))
    out.append("")
    out.append("%d of %d seeded changes were caught by the registered quick checks when evaluated.\n" % (c, n))
    if rs:
        vals = [rs.get(k, "not re-run") for k in sd]
        out.append("Re-run of every kept change against the final checks and the final `/repo` (`harness/reseed.py`, "
                   "`seeded/RESEED.json`): %d caught with a failing input, %d caught as a broken correspondence, %d no longer "
                   "break the property because a later `fix:` commit removed what they needed (demonstration passes with "
                   "the change; check silent, as it must be), %d missed, %d patches no longer apply.\n"
                   % (sum(v == "caught, failing input" for v in vals), sum(v == "caught, correspondence" for v in vals),
                      sum(v.startswith("no longer breaks") for v in vals), sum(v == "**missed**" for v in vals),
                      sum(v.startswith("patch no longer") for v in vals)))
    return "\n".join(out) + "\n"


def harmless_section():
    rows = []
    for d in sorted(glob.glob(os.path.join(ROOT, "seeded", "harmless", "C*-*"))):
        try:
            m = json.load(open(os.path.join(d, "meta.json")))
        except Exception:
            continue
        ev = m.get("evaluation", {})
        rows.append((os.path.basename(d), first_sentence(m.get("summary", ""), 260), ev.get("silent"), ev.get("tail", "")))
    if not rows:
        return ""
    out = ["### 9.1 Harmless changes: the checks must stay silent\n",
           "The converse test. Independent sub-agents (again seeing only property texts and a scratch worktree) wrote two "
           "behaviour-preserving refactorings per property in the anchored code (renamed locals, restructured loops and "
           "conditionals, `.get()` for equivalent try/except, reordered independent statements, changed message texts, local memos "
           "…), each verified by them against the baseline and the upstream tests run with the stand-in. `harness/refactest.py` "
           "applies each to a scratch copy of the sources and runs the property's quick check against it: the expected verdict is "
           "exit 0 without a VIOLATION line. Kept under `seeded/harmless/<id>/`.\n",
           "| change | what was refactored | check silent |", "|---|---|---|"]
    for k, summ, silent, tail in rows:
        out.append("| %s | %s | %s |" % (k, summ.replace("|", "\\|"), "yes" if silent else "**NO** — " + tail.replace("|", "\\|")[:160]))
    n = sum(1 for r in rows if r[2])
    out.append("")
    out.append("%d of %d harmless changes leave the checks silent.\n" % (n, len(rows)))
    return "\n".join(out) + "\n"


def main():
    sd = seeded()
    parts = [rd("00-front.md"), rd("05-sp.md")]
    for i in range(1, 21):
        pid = "C%02d" % i
        txt = rd(pid + ".md")
        txt = re.sub(r"\*\*Seeded changes\.\*\*.*\Z", lambda m: seeded_paragraph(pid, sd) + "\n", txt, flags=re.S)
        parts.append(txt)
    parts.append("---------------------------------------------------------------------------------\n")
    parts.append(defects_section())
    parts.append("---------------------------------------------------------------------------------\n")
    parts.append(rd("80-falsealarms.md"))
    parts.append("---------------------------------------------------------------------------------\n")
    parts.append(seeded_section(sd))
    parts.append(harmless_section())
    parts.append("---------------------------------------------------------------------------------\n")
    parts.append(rd("95-limits.md"))
    with open(os.path.join(ROOT, "DESIGN.md"), "w") as f:
        f.write("\n".join(parts))
    print("DESIGN.md written:", sum(p.count("\n") for p in parts), "lines;", len(sd), "seeded changes")


if __name__ == "__main__":
    main()
