"""The translator tie (DESIGN.md section 5.6): selected pysaml2 decision functions are translated from their CURRENT
source into MiniPy terms (harness/translate/pyfuns.py -> lean/PysamlModel/Gen/PyFuns.lean); Props/PyTieCxx.lean proves,
for all arguments, that the term refines the hand-written model function the property theorems are about.

This module is what the runner calls for the properties listed in TIES:
  * `gen`            the translator (added to the property's GEN list),
  * `TIES[pid]`      the Lean module / audit file that hold the refinement theorems,
  * `differential`   runs the REAL function under CPython and the regenerated term under the MiniPy interpreter
                     (Drivers/PyFuns.lean) on the same generated arguments and reports disagreements: this is what
                     validates the interpreter's semantics and the translator on the constructs these functions use,
  * `search_cases`   when a refinement theorem no longer checks: arguments on which the regenerated term and the
                     hand-written model function differ, turned into cases of the property's own correspondence check
                     so that the violation can be shown against the real service provider."""
import json
import os

import scenario as S
from translate import pyfuns

TIES = {
    "C01": {"props": ["PysamlModel.Props.PyTieC01"], "audit": ["PysamlModel/Audit/PyTieC01.lean"],
            "functions": ["correctly_signed_response"]},
    "C06": {"props": ["PysamlModel.Props.PyTieC06"], "audit": ["PysamlModel/Audit/PyTieC06.lean"],
            "functions": ["loads", "scan"]},
    "C04": {"props": ["PysamlModel.Props.PyTieC04", "PysamlModel.Props.PyTieCond"],
            "audit": ["PysamlModel/Audit/PyTieC04.lean", "PysamlModel/Audit/PyTieCond.lean"],
            "functions": ["for_me", "_verify", "condition_ok"]},
    "C05": {"props": ["PysamlModel.Props.PyTieC05", "PysamlModel.Props.PyTieCond"],
            "audit": ["PysamlModel/Audit/PyTieC05.lean", "PysamlModel/Audit/PyTieCond.lean"],
            "functions": ["validate_on_or_after", "validate_before", "authn_statement_ok", "condition_ok"]},
}
DRIVER = "Drivers/PyFuns.lean"

gen = pyfuns.gen

TEXTS = [None, "", S.SP_ID, " " + S.SP_ID, S.SP_ID + "\n", "\t" + S.SP_ID + " ", S.SP_ID + "/", S.SP_ID.upper(), "https://other.example/sp",
         S.SP_ID[:-1], " ", S.SP_ID + " ", "x"]


def cases(pid, rng, tier):
    n = 400 if tier == "quick" else 4000
    out = []
    if "for_me" in TIES[pid]["functions"]:
        # small-scope exhaustive: up to 2 restrictions of up to 2 audiences over a 5-letter alphabet, then random
        alpha = [None, "", S.SP_ID, " " + S.SP_ID + " ", "https://other.example/sp"]
        shapes = [[]]
        rows = [[]] + [[a] for a in alpha] + [[a, b] for a in alpha for b in alpha]
        for r1 in rows:
            shapes.append([r1])
            for r2 in rows:
                shapes.append([r1, r2])
        for rs in shapes:
            out.append({"fn": "for_me", "rs": rs, "me": S.SP_ID})
        for _ in range(n):
            rs = [[rng.choice(TEXTS) for _ in range(rng.randint(0, 4))] for _ in range(rng.randint(0, 4))]
            out.append({"fn": "for_me", "rs": rs, "me": rng.choice([S.SP_ID, S.SP_ID, "", "x"])})
    for fn in ("validate_on_or_after", "validate_before"):
        if fn in TIES[pid]["functions"]:
            for skew in (0, 1, 60, 180):
                for off in (-86400, -skew - 2, -skew - 1, -skew, -skew + 1, -1, 0, 1, skew - 1, skew, skew + 1, skew + 2, 86400):
                    out.append({"fn": fn, "t": "x", "tm": S.NOW0 + off, "now": S.NOW0, "skew": skew})
            out.append({"fn": fn, "t": None, "tm": 0, "now": S.NOW0, "skew": 0})
            out.append({"fn": fn, "t": "", "tm": 0, "now": S.NOW0, "skew": 0})
            for _ in range(n // 4):
                out.append({"fn": fn, "t": "x", "tm": S.NOW0 + rng.randint(-400, 400), "now": S.NOW0 + rng.randint(-5, 5),
                            "skew": rng.choice([0, 1, 59, 60, 61, 180, 300])})
    if "correctly_signed_response" in TIES[pid]["functions"]:
        for sig in ("absent", "valid", "corrupted", "untrusted"):
            for req in (False, True):
                for must in (False, True):
                    out.append({"fn": "correctly_signed_response", "sig": sig, "req": req, "must": must})
    if "scan" in TIES[pid]["functions"]:
        irts = [None, "req-1", "req-2", ""]
        confs = [None] + [{"irt": i} for i in irts]
        subjects = [None, [], [confs[0]], [confs[2]], [confs[3]], [confs[0], confs[2]], [confs[2], confs[3]], [confs[1]], [confs[4]]]
        for irp in irts:
            for a in subjects:
                out.append({"fn": "scan", "as": [a], "irp": irp})
                for b in subjects:
                    out.append({"fn": "scan", "as": [a, b], "irp": irp})
        for _ in range(n):
            out.append({"fn": "scan", "irp": rng.choice(irts),
                        "as": [rng.choice([None] + [[rng.choice(confs) for _ in range(rng.randint(0, 3))]] * 4) for _ in range(rng.randint(0, 4))]})
    if "loads" in TIES[pid]["functions"]:
        ids = [None, "req-1", "req-2", "req-unknown", ""]
        tables = [[], [["req-1", "/came/1"]], [["req-1", "/came/1"], ["req-2", "/came/2"]], [["req-2", "/x"], ["req-1", "/y"], ["req-1", "/z"]]]
        for sig in ("absent", "valid", "corrupted"):
            for req in (False, True):
                for asy in (True, False):
                    for irt in ids:
                        for outs in tables:
                            for uns in (False, True):
                                for attr_err, mis in ((False, False), (False, True), (True, False)):
                                    if sig != "valid" and (uns or attr_err) and irt not in (None, "req-1"):
                                        continue
                                    out.append({"fn": "loads", "sig": sig, "req": req, "asynchop": asy, "irt": irt, "outs": outs,
                                                "allow_uns": uns, "attr_err": attr_err, "mis": mis})
    if "condition_ok" in TIES[pid]["functions"]:
        XS = ["urn:mace:shibboleth:metadata:1.0", "urn:oasis:names:tc:SAML:metadata:ui"]
        ts_offs = [None, "", -86400, -3600, -61, -60, -59, -1, 0, 1, 59, 60, 61, 3600, 86400]
        aud_sets = [[], [[S.SP_ID]], [["https://other.example/sp"]], [[S.SP_ID], ["https://other.example/sp"]],
                    [[" " + S.SP_ID + " ", None]], [[None]], [[S.SP_ID, "x"], [S.SP_ID]]]
        extras = [[], [XS[0]], [None], ["urn:unknown"], [XS[0], XS[1]], [XS[0], "urn:unknown"], [XS[1], None]]
        out.append({"fn": "condition_ok", "has_conditions": False, "now": S.NOW0, "skew": 0, "me": S.SP_ID, "schemas": [], "nooa0": 5})
        for skew in (0, 60):
            for a in ts_offs:
                for b in ts_offs:
                    out.append(_cond_case(a, b, aud_sets[1], [], skew, [], 0))
        for _ in range(n):
            out.append(_cond_case(rng.choice(ts_offs), rng.choice(ts_offs), rng.choice(aud_sets), rng.choice(extras),
                                  rng.choice([0, 60, 180]), rng.choice([[], [XS[0]], XS]), rng.choice([0, 77])))
    if "_verify" in TIES[pid]["functions"]:
        own = "https://sp.example/acs/post"
        dests = [None, "", own, own + "/", "https://evil.example/acs", own.upper(), " " + own]
        lists = [[], [own], [own, "https://sp.example/acs/redirect"], ["https://sp.example/acs/redirect"]]
        for asy in (True, False):
            for d in dests:
                for addrs in lists:
                    for ii in (True, False):
                        for ok in (True, False):
                            out.append({"fn": "_verify", "asynchop": asy, "dest": d, "addrs": addrs, "ii": ii, "st_ok": ok})
    if "authn_statement_ok" in TIES[pid]["functions"]:
        offs = [None, "", -86400, -61, -60, -59, -1, 0, 1, 60, 86400, -S.NOW0]   # -NOW0: the instant 0 (falsy nooa)
        for skew in (0, 60):
            for o in offs:
                out.append(_authn_case([o], skew, 0))
                out.append(_authn_case([o], skew, 12345))
            out.append(_authn_case([], skew, 0))
            for o in offs[:6]:
                out.append(_authn_case([o, 3600], skew, 0))
                out.append(_authn_case([3600, o, None], skew, 5))
        for _ in range(n // 4):
            k = rng.choice([0, 1, 1, 1, 1, 2, 3])
            out.append(_authn_case([rng.choice(offs + [rng.randint(-300, 300)]) for _ in range(k)], rng.choice([0, 1, 60, 180]),
                                   rng.choice([0, 0, 99])))
    return out


def _cond_case(nb_off, nooa_off, auds, extra, skew, schemas, nooa0):
    tab = []

    def lex(o):
        if o is None or o == "":
            return o
        t = S.NOW0 + o
        tab.append([S.fmt_time(t), t])
        return S.fmt_time(t)

    return {"fn": "condition_ok", "nb": lex(nb_off), "nooa": lex(nooa_off), "tmtab": tab, "auds": auds, "extra": extra,
            "now": S.NOW0, "skew": skew, "me": S.SP_ID, "schemas": schemas, "nooa0": nooa0}


def _authn_case(offs, skew, sess):
    stmts, tab = [], []
    for o in offs:
        if o is None or o == "":
            stmts.append(o)
        else:
            t = S.NOW0 + o
            stmts.append(S.fmt_time(t))
            tab.append([S.fmt_time(t), t])
    return {"fn": "authn_statement_ok", "stmts": stmts, "tmtab": tab, "now": S.NOW0, "skew": skew, "sess": sess}


def run_real(case):
    """The real function under CPython, canonical outcome."""
    S.install()
    fn = case["fn"]
    try:
        if fn == "for_me":
            from saml2 import saml
            from saml2.response import for_me

            conds = saml.Conditions(audience_restriction=[
                saml.AudienceRestriction(audience=[saml.Audience(text=t) for t in r]) for r in case["rs"]])
            v = for_me(conds, case["me"])
        elif fn == "correctly_signed_response":
            from saml2 import samlp
            from saml2.sigver import SecurityContext, SignatureError, pre_signature_part

            resp = samlp.Response(id="r-1", version="2.0", issue_instant=S.fmt_time(S.NOW0))
            if case["sig"] != "absent":
                resp.signature = pre_signature_part("r-1")
            sc = SecurityContext.__new__(SecurityContext)   # the method uses nothing of self but _check_signature

            def _check_signature(decoded_xml, item, node_name, origdoc=None, *a, **k):
                if case["sig"] != "valid":
                    raise SignatureError("does not verify")
                return item

            sc._check_signature = _check_signature
            v = sc.correctly_signed_response(str(resp), must=case["must"], require_response_signature=case["req"])
            return {"r": "value", "v": "<object>" if v is not None else None}
        elif fn == "scan":
            from saml2 import saml, samlp
            from saml2.response import AuthnResponse

            def conf(c):
                data = None if c is None else saml.SubjectConfirmationData(in_response_to=c["irt"])
                return saml.SubjectConfirmation(subject_confirmation_data=data)

            ar = AuthnResponse.__new__(AuthnResponse)   # the method reads self.response.assertion, nothing else
            ar.response = samlp.Response(assertion=[
                saml.Assertion(subject=None if a is None else saml.Subject(subject_confirmation=[conf(c) for c in a]))
                for a in case["as"]])
            v = ar.check_subject_confirmation_in_response_to(case["irp"])
        elif fn == "loads":
            from saml2.response import AuthnResponse
            from saml2.sigver import SignatureError

            sig_refuses = case["sig"] == "corrupted" or (case["sig"] == "absent" and case["req"])
            ar = AuthnResponse.__new__(AuthnResponse)   # the method reads/writes these attributes of self, nothing else

            def _loads(xmldata, decode=True, origxml=None):
                if sig_refuses:
                    raise SignatureError("refused by correctly_signed_response")
                ar.in_response_to = case["irt"]          # what _postamble records

            def check(irt):
                if case["attr_err"]:
                    raise AttributeError("'NoneType' object has no attribute 'subject_confirmation'")
                return not case["mis"]

            ar._loads = _loads
            ar.check_subject_confirmation_in_response_to = check
            ar.asynchop = case["asynchop"]
            ar.in_response_to = None
            ar.outstanding_queries = {}
            for k, val in reversed(case["outs"]):        # the first entry for a key is the one a look-up finds
                ar.outstanding_queries[k] = val
            ar.allow_unsolicited = case["allow_uns"]
            ar.came_from = None
            ar.loads("<xml>", False, None)
            return {"r": "value", "came_from": ar.came_from}
        elif fn == "condition_ok":
            from saml2 import saml
            from saml2.response import AuthnResponse
            from saml2.saml import XSI_TYPE

            ar = AuthnResponse.__new__(AuthnResponse)   # the method reads/writes these attributes of self, nothing else
            conds = None
            if case.get("has_conditions", True):
                extra = []
                for t in case["extra"]:
                    c = saml.Condition()
                    if t is not None:
                        c.extension_attributes = {XSI_TYPE: t}
                    extra.append(c)
                conds = saml.Conditions(not_before=case["nb"], not_on_or_after=case["nooa"], condition=extra,
                                        audience_restriction=[saml.AudienceRestriction(audience=[saml.Audience(text=t) for t in r])
                                                              for r in case["auds"]])
            ar.assertion = saml.Assertion(conditions=conds)
            ar.test = False
            ar.timeslack = case["skew"]
            ar.entity_id = case["me"]
            ar.extension_schema = {k: None for k in case["schemas"]}
            ar.not_on_or_after = case["nooa0"]
            with S.clock(case["now"]):
                v = ar.condition_ok()
            if v is True:
                return {"r": "value", "v": True, "nooa": ar.not_on_or_after}
        elif fn == "_verify":
            from saml2 import samlp
            from saml2.response import StatusError, StatusResponse

            sr = StatusResponse.__new__(StatusResponse)   # the method reads these attributes of self and calls two methods
            sr.request_id = None
            sr.in_response_to = None
            sr.response = samlp.Response(version="2.0", destination=case["dest"])
            sr.asynchop = case["asynchop"]
            sr.return_addrs = list(case["addrs"])
            sr.issue_instant_ok = lambda: case["ii"]

            def status_ok():
                if not case["st_ok"]:
                    raise StatusError("not success")
                return True

            sr.status_ok = status_ok
            v = sr._verify()
        elif fn == "authn_statement_ok":
            from saml2 import saml
            from saml2.response import AuthnResponse

            ar = AuthnResponse.__new__(AuthnResponse)   # the method reads three attributes of self, nothing else
            ar.assertion = saml.Assertion(authn_statement=[saml.AuthnStatement(session_not_on_or_after=t) for t in case["stmts"]])
            ar.timeslack = case["skew"]
            ar.session_not_on_or_after = case["sess"]
            with S.clock(case["now"]):
                ar.authn_statement_ok(False)
            return {"r": "value", "session": ar.session_not_on_or_after}
        else:
            from saml2 import validate

            f = getattr(validate, fn)
            t = case["t"]
            arg = S.fmt_time(case["tm"]) if t not in (None, "") else t
            with S.clock(case["now"]):
                v = f(arg, case["skew"])
    except Exception as e:  # the function's own exceptions are outcomes
        return {"r": "raised", "cls": type(e).__name__}
    if v is None or isinstance(v, (bool, int, str)):
        return {"r": "value", "v": v}
    return {"r": "value", "v": "<%s>" % type(v).__name__}


def differential(pid, rng, tier, run_driver):
    """-> dict(cases=n, interp_vs_cpython=[...], interp_vs_model=[...], outcomes={...})"""
    cs = cases(pid, rng, tier)
    real = [run_real(c) for c in cs]
    lean = run_driver(DRIVER, cs)
    d1, d2, d3, hist = [], [], [], {}
    for c, r, l in zip(cs, real, lean):
        k = c["fn"] + "/" + (r["cls"] if r["r"] == "raised" else (str(r["v"]) if isinstance(r.get("v"), bool) else "value"))
        if c["fn"] == "authn_statement_ok" and r["r"] == "value":
            k += ":" + ("unchanged" if r["session"] == c["sess"] else "set")
        hist[k] = hist.get(k, 0) + 1
        if l.get("interp") != r:
            d1.append({"case": c, "cpython": r, "interp": l.get("interp")})
        if l.get("interp") != l.get("model"):
            d2.append({"case": c, "interp": l.get("interp"), "model": l.get("model")})
        if l.get("model") != r:    # the real function against the hand-written model function, no interpreter involved
            d3.append({"case": c, "cpython": r, "model": l.get("model")})
    return {"cases": len(cs), "interp_vs_cpython": d1, "interp_vs_model": d2, "cpython_vs_model": d3, "outcomes": hist}


def search_cases(pid, rng, run_driver):
    """Arguments on which the regenerated term and the hand-written model differ, as cases of the property's check."""
    import importlib

    try:
        res = differential(pid, rng, "thorough", run_driver)
    except Exception:
        return []
    out = []
    # where the REAL function differs from the model function first; then where the regenerated term (when the
    # interpreter understands it) differs from the model function
    cands = res["cpython_vs_model"] + [d for d in res["interp_vs_model"] if (d.get("interp") or {}).get("r") != "stuck"]
    for d in cands[:300]:
        c = d["case"]
        try:
            if c["fn"] == "for_me" and c["me"] == S.SP_ID:
                if any(len(r) == 0 for r in c["rs"]):
                    continue   # an AudienceRestriction without Audience does not pass instance validation at load
                C = importlib.import_module("props._sp_common")
                k = C.base_case(pid)
                k["resp"]["assertions"][0]["conditions"]["audiences"] = [[a or "" for a in r] for r in c["rs"]]
                k["tag"] = "pytie:for_me"
                out.append(k)
            elif c["fn"] in ("validate_on_or_after", "validate_before") and c["t"]:
                m = importlib.import_module("props.c05")
                stamp = "c_nooa" if c["fn"] == "validate_on_or_after" else "c_nb"
                k = m.place(m.fresh(c["skew"], "z"), stamp, c["tm"] - c["now"])
                k["tag"] = "pytie:" + c["fn"]
                out.append(k)
        except Exception:
            continue
    return out
