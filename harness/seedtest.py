#!/venv/bin/python
"""Evaluate seeded changes produced by independent sub-agents.

usage: seedtest.py <Cxx> <out_dir_of_agent> [--pytest] [--checks=C01,C04] [--tag=r2]

For every <out_dir>/<k>/{patch.diff,demo.py,meta.json}:
  1. demo on the unchanged sources must exit 0, on a patched scratch copy non-zero;
  2. (optional) the baseline test command on a patched scratch worktree must pass the same tests;
  3. the registered quick check(s) run against the patched copy (PYTHONPATH override, so that /repo
     itself stays untouched while other work is going on) -- detection = exit 1 with a VIOLATION line.
Kept changes are stored as /verif/seeded/<Cxx>-<k>/ (patch.diff, demo.py, meta.json)."""
import json
import os
import shutil
import subprocess
import sys

ROOT = os.path.dirname(os.path.dirname(os.path.abspath(__file__)))
PY = "/venv/bin/python"


def sh(cmd, env=None, cwd=None, timeout=3600):
    e = dict(os.environ)
    e.update(env or {})
    p = subprocess.run(cmd, shell=True, capture_output=True, text=True, env=e, cwd=cwd, timeout=timeout)
    return p.returncode, p.stdout + p.stderr


def main():
    pid = sys.argv[1]
    out_dir = sys.argv[2]
    do_pytest = "--pytest" in sys.argv
    checks = [pid]
    tag = ""
    for a in sys.argv:
        if a.startswith("--checks="):
            checks = a.split("=", 1)[1].split(",")
        if a.startswith("--tag="):      # e.g. --tag=r2 for a second round: stored as <Cxx>-r2-<k>
            tag = a.split("=", 1)[1] + "-"
    results = []
    for k in sorted(os.listdir(out_dir)):
        d = os.path.join(out_dir, k)
        if not os.path.isdir(d):
            continue
        if not os.path.isfile(os.path.join(d, "patch.diff")):
            continue
        k = tag + k
        scratch = "/tmp/mutrun/%s-%s" % (pid, k)
        shutil.rmtree(scratch, ignore_errors=True)
        os.makedirs(scratch)
        shutil.copytree("/repo/src", os.path.join(scratch, "src"))
        rc, out = sh("patch -p1 < %s" % os.path.join(d, "patch.diff"), cwd=scratch)
        res = {"id": "%s-%s" % (pid, k), "patch_applies": rc == 0}
        if rc != 0:
            res["patch_output"] = out[-500:]
            results.append(res)
            continue
        demo = os.path.join(d, "demo.py")
        env0 = {"PYTHONPATH": "/repo/src", "PATH": "/tmp/tools/standin:" + os.environ["PATH"]}
        env1 = {"PYTHONPATH": os.path.join(scratch, "src"), "PATH": "/tmp/tools/standin:" + os.environ["PATH"]}
        rc0, o0 = sh("%s %s" % (PY, demo), env=env0, cwd=d, timeout=600)
        rc1, o1 = sh("%s %s" % (PY, demo), env=env1, cwd=d, timeout=600)
        res["demo_unchanged_rc"] = rc0
        res["demo_changed_rc"] = rc1
        res["demo_ok"] = rc0 == 0 and rc1 != 0
        if do_pytest:
            wt = scratch + "-wt"
            sh("git -C /repo worktree remove --force %s" % wt)
            sh("git -C /repo worktree add -q --detach %s HEAD" % wt)
            sh("git -C %s apply %s" % (wt, os.path.join(d, "patch.diff")))
            rc, o = sh("%s -m pytest -q -p no:cacheprovider --timeout=900 --continue-on-collection-errors tests 2>&1 | tail -1" % PY,
                       env={"PYTHONPATH": os.path.join(wt, "src")}, cwd=wt, timeout=1800)
            res["pytest_line"] = o.strip()
            res["pytest_same_as_baseline"] = "319 passed" in o and "16 failed" in o and "37 errors" in o
            sh("git -C /repo worktree remove --force %s" % wt)
        res["checks"] = {}
        for c in checks:
            rc, o = sh("./check %s" % c, env={"PYTHONPATH": os.path.join(scratch, "src")}, cwd=ROOT, timeout=3000)
            viol = [l for l in o.splitlines() if l.startswith("VIOLATION")]
            res["checks"][c] = {"rc": rc, "violations": viol[:3], "tail": o.strip().splitlines()[-1][:300] if o.strip() else ""}
            # keep the replay of the first violation next to the seeded change
            if viol:
                rp = viol[0].split("replay=")[1].split()[0]
                try:
                    shutil.copy(os.path.join(ROOT, rp), os.path.join(scratch, "replay_%s.json" % c))
                except OSError:
                    pass
        res["detected"] = any(v["rc"] == 1 and v["violations"] for v in res["checks"].values())
        res["detected_with_input"] = any(v["rc"] == 1 and any("no-failing-input-found" not in x for x in v["violations"]) for v in res["checks"].values())
        # store
        keep = os.path.join(ROOT, "seeded", "%s-%s" % (pid, k))
        os.makedirs(keep, exist_ok=True)
        shutil.copy(os.path.join(d, "patch.diff"), keep)
        shutil.copy(demo, keep)
        meta = {}
        try:
            meta = json.load(open(os.path.join(d, "meta.json")))
        except Exception:
            pass
        meta["evaluation"] = res
        meta["how_run"] = ("patch applied to a scratch copy of /repo/src; demo run on /repo/src (exit 0 expected) and on the copy "
                           "(non-zero expected); `PYTHONPATH=<copy> ./check <id>` for the registered quick checks")
        with open(os.path.join(keep, "meta.json"), "w") as f:
            json.dump(meta, f, indent=1)
        for c in checks:
            rp = os.path.join(scratch, "replay_%s.json" % c)
            if os.path.exists(rp) and os.path.getsize(rp) < 200000:
                shutil.copy(rp, os.path.join(keep, "replay_%s.json" % c))
        shutil.rmtree(scratch, ignore_errors=True)
        results.append(res)
        print(json.dumps(res)[:1200], flush=True)
    # restore evidence written by the mutated runs
    for c in checks:
        sh("./check %s" % c, cwd=ROOT)
    print("SUMMARY", pid, [(r["id"], r.get("demo_ok"), r.get("detected"), r.get("detected_with_input")) for r in results])


if __name__ == "__main__":
    main()
