"""C06 — Responses are accepted only as successful answers to outstanding requests."""
import copy
import itertools

import scenario as S
from props._sp_common import *  # noqa: F401,F403
from props import _sp_common as C

PROP = "C06"
LEAN_PROPS = "PysamlModel.Props.C06"
AUDIT = "PysamlModel/Audit/C06.lean"
CORRESPONDENCE = "Drivers/Sp.lean (Sp.process) vs Saml2Client.parse_authn_request_response, correlation/status/shape dimension"
RULE = ("Response InResponseTo x SubjectConfirmationData InResponseTo x allow_unsolicited x outstanding set: complete; every "
        "samlp.STATUS_* constant (regenerated) plus unknown ones as second-level code x three top-level codes: complete; versions, "
        "assertion count, AuthnStatement count, subject presence: all single-defect cells plus pairwise combinations; plus random "
        "combinations of all dimensions over 1-3 assertions with 0-3 confirmations each (200 quick / 8000 thorough)")
TRUSTED = C.TRUSTED_COMMON + ["status codes and exception classes come from Gen/StatusCodes.lean regenerated from saml2.response / saml2.samlp on every run"]
ASSUMPTIONS = C.ASSUMPTIONS_COMMON
EXHAUSTIVE = True

SUCCESS = "urn:oasis:names:tc:SAML:2.0:status:Success"
REQUESTER = "urn:oasis:names:tc:SAML:2.0:status:Requester"
RESPONDER = "urn:oasis:names:tc:SAML:2.0:status:Responder"

IRT = {"ok": "req-1", "other": "req-2", "unknown": "req-unknown", "absent": None}
OUTSTANDING = {"empty": [], "one": [["req-1", "/came/1"]], "many": [["req-0", "/came/0"], ["req-1", "/came/1"], ["req-2", "/came/2"]]}


def status_constants():
    from saml2 import samlp

    return sorted(v for k, v in vars(samlp).items() if k.startswith("STATUS_") and isinstance(v, str))


def corr_case(r_irt, sc_irts, unsolicited, outstanding, binding="post", encrypted=False):
    c = C.base_case(PROP, binding=binding)
    c["cfg"]["allow_unsolicited"] = unsolicited
    c["env"]["outstanding"] = copy.deepcopy(OUTSTANDING[outstanding])
    c["resp"]["in_response_to"] = IRT[r_irt]
    a = c["resp"]["assertions"][0]
    conf0 = a["subject"]["confs"][0]
    confs = []
    for k in sc_irts:
        cf = copy.deepcopy(conf0)
        cf["data"]["irt"] = IRT[k]
        confs.append(cf)
    a["subject"]["confs"] = confs
    a["encrypted"] = encrypted
    c["tag"] = "corr:%s/%s/%s/%s/%s%s" % (r_irt, ",".join(sc_irts), unsolicited, outstanding, binding, "/enc" if encrypted else "")
    return c


def gen_cases(rng, tier):
    # correlation product
    for r_irt, sc, uns, outs in itertools.product(IRT, IRT, (False, True), OUTSTANDING):
        for binding in ("post", "redirect", "soap"):
            c = corr_case(r_irt, [sc], uns, outs, binding)
            if binding == "soap":
                c["return_addrs"] = []
                c["resp"]["destination"] = None
            yield c
        yield corr_case(r_irt, [sc], uns, outs, encrypted=True)
    for r_irt, sc1, sc2, uns in itertools.product(IRT, IRT, IRT, (False, True)):
        yield corr_case(r_irt, [sc1, sc2], uns, "many")
        if tier == "thorough":
            yield corr_case(r_irt, [sc1, sc2], uns, "many", encrypted=True)
    # confirmation without data / subject missing combined with correlation
    for r_irt, uns in itertools.product(IRT, (False, True)):
        c = corr_case(r_irt, ["ok"], uns, "many")
        c["resp"]["assertions"][0]["subject"]["confs"][0] = {"method": "sender-vouches", "data": None}
        c["tag"] += "/sv-nodata"
        yield c
    # a data-less confirmation in front of / behind a confirmation with another InResponseTo
    for r_irt, sc, uns, first in itertools.product(IRT, IRT, (False, True), (True, False)):
        for method in ("bearer", "holder-of-key"):
            c = corr_case(r_irt, [sc], uns, "many")
            confs = c["resp"]["assertions"][0]["subject"]["confs"]
            nodata = {"method": method, "data": None}
            c["resp"]["assertions"][0]["subject"]["confs"] = [nodata] + confs if first else confs + [nodata]
            c["tag"] += "/nodata-%s-%s" % (method, "first" if first else "last")
            yield c
    # status codes
    seconds = status_constants() + ["urn:oasis:names:tc:SAML:2.0:status:NoSuchThing", "urn:example:status"]
    for top in (REQUESTER, RESPONDER, "urn:oasis:names:tc:SAML:2.0:status:VersionMismatch"):
        for sec in [None] + seconds:
            c = C.base_case(PROP)
            c["resp"]["status_top"] = top
            c["resp"]["status_second"] = sec
            c["resp"]["status_message"] = rng.choice([None, "it failed"])
            if rng.random() < 0.5:
                c["resp"]["assertions"] = []
            c["tag"] = "status:%s/%s" % (top.rsplit(":", 1)[1], sec.rsplit(":", 1)[-1] if sec else sec)
            yield c
    # success with a (meaningless) second-level code
    c = C.base_case(PROP)
    c["resp"]["status_second"] = seconds[3]
    c["tag"] = "status:Success/second"
    yield c
    # shape: version x assertion count x authn statements x subject
    for version, n_assert, n_authn, subj in itertools.product(("2.0", "1.1", "2.1", "3.0"), (0, 1, 2), (0, 1, 2), (True, False)):
        if tier == "quick" and sum([version != "2.0", n_assert != 1, n_authn != 1, not subj]) > 2:
            continue
        c = C.base_case(PROP)
        c["resp"]["version"] = version
        a = c["resp"]["assertions"][0]
        a["authn"] = [{"session_index": "s%d" % i} for i in range(n_authn)]
        if not subj:
            a["subject"] = None
        c["resp"]["assertions"] = [dict(copy.deepcopy(a), id="a-%d" % i) for i in range(n_assert)]
        c["tag"] = "shape:%s/%d/%d/%s" % (version, n_assert, n_authn, subj)
        yield c
    # encrypted carriers of the shape defects
    for n_authn, subj, dec in itertools.product((0, 1, 2), (True, False), (True, False)):
        c = C.base_case(PROP)
        a = c["resp"]["assertions"][0]
        a["encrypted"] = True
        a["decryptable"] = dec
        a["authn"] = [{"session_index": "s%d" % i} for i in range(n_authn)]
        if not subj:
            a["subject"] = None
        c["tag"] = "shape-enc:%d/%s/%s" % (n_authn, subj, dec)
        yield c
    # one plain + one encrypted assertion
    for dec in (True, False):
        c = C.base_case(PROP)
        a2 = copy.deepcopy(c["resp"]["assertions"][0])
        a2.update(id="a-2", encrypted=True, decryptable=dec)
        a2["subject"]["name_id"] = "user-enc"
        c["resp"]["assertions"].append(a2)
        c["tag"] = "two:plain+enc/%s" % dec
        yield c
    # random combinations of all dimensions
    for _ in range(200 if tier == "quick" else 8000):
        yield random_mix(rng)
    # the correlation product and the shape/status defects through the second public entry point
    for r_irt, sc, uns, outs in itertools.product(IRT, IRT, (False, True), OUTSTANDING):
        yield C.as_factory(corr_case(r_irt, [sc], uns, outs, "post"))
        yield C.as_factory(corr_case(r_irt, [sc], uns, outs, encrypted=True))
    for _ in range(100 if tier == "quick" else 2000):
        yield C.as_factory(random_mix(rng))
    # … and through the third one, response_factory(...) + verify() (its second load is AuthnResponse.loads since fix
    # f342ca56; before, a Response InResponseTo that is absent / unknown / another request's passed when the bearer
    # confirmation named an outstanding request): the complete correlation product, two confirmations, random mixes
    for r_irt, sc, uns, outs in itertools.product(IRT, IRT, (False, True), OUTSTANDING):
        for binding in ("post", "redirect"):
            yield C.via_entry(corr_case(r_irt, [sc], uns, outs, binding), "response_factory")
        yield C.via_entry(corr_case(r_irt, [sc], uns, outs, encrypted=True), "response_factory")
    for r_irt, sc1, sc2, uns in itertools.product(IRT, IRT, IRT, (False, True)):
        yield C.via_entry(corr_case(r_irt, [sc1, sc2], uns, "many"), "response_factory")
    for _ in range(100 if tier == "quick" else 2000):
        yield C.via_entry(random_mix(rng), "response_factory")
    # the correlation product for a Response element WITHOUT its optional Issuer child
    for r_irt, sc, uns, outs in itertools.product(IRT, IRT, (False, True), OUTSTANDING):
        c = corr_case(r_irt, [sc], uns, outs, "post")
        c["resp"]["issuer"] = None
        c["tag"] += "/no-issuer"
        yield c
    for r_irt, sc1, sc2 in itertools.product(IRT, IRT, IRT):
        c = corr_case(r_irt, [sc1, sc2], False, "many")
        c["resp"]["issuer"] = None
        c["tag"] += "/no-issuer"
        yield c
    # top-level status codes that LOOK like Success (fragments, extensions, case variants) with and without an assertion
    for top in (SUCCESS[:-1], SUCCESS[: SUCCESS.rfind(":")], SUCCESS[: SUCCESS.rfind(":") + 5], "Success", "status:Success",
                "urn:oasis:names:tc:SAML:2.0", SUCCESS + "x", SUCCESS + " ", " " + SUCCESS, SUCCESS.upper(), SUCCESS.lower(),
                SUCCESS.replace("2.0", "1.0"), "success"):   # (an empty Value is refused earlier, as an invalid instance)
        for sec in (None, "urn:oasis:names:tc:SAML:2.0:status:AuthnFailed"):
            c = C.base_case(PROP)
            c["resp"]["status_top"] = top
            c["resp"]["status_second"] = sec
            c["tag"] = "status-lookalike:%r/%s" % (top[-14:], sec and "AuthnFailed")
            yield c
    # the forms the allow_unsolicited option may take in a configuration, and what each means
    for raw, means in (("", False), (None, False), ("false", False), (False, False), (0, False),
                       ("true", True), (True, True), ("True", True), (1, True)):
        for r_irt, sc in itertools.product(IRT, IRT):
            c = corr_case(r_irt, [sc], means, "many", "post")
            c["cfg"]["allow_unsolicited_raw"] = raw
            c["tag"] += "/raw=%r" % (raw,)
            yield c
    # one response object used twice (factory entry point): a first Response, then the Response under test
    firsts = [C.base_case(PROP)["resp"]]
    f2 = C.base_case(PROP)["resp"]
    f2["in_response_to"] = "req-2"
    f2["assertions"][0]["subject"]["confs"][0]["data"]["irt"] = "req-2"
    f3 = C.base_case(PROP)["resp"]
    f3["status_top"] = RESPONDER
    f4 = C.base_case(PROP)["resp"]
    f4["version"] = "1.1"
    firsts += [f2, f3, f4]
    for first in firsts:
        # (allow_unsolicited stays off here: with it on, a Response without a known InResponseTo leaves the came_from of
        #  the PREVIOUS message on a reused object - observed on the unchanged tree, outside the property, which does not
        #  constrain the context when unsolicited responses are allowed, and outside documented use of the object)
        for r_irt, sc, uns in itertools.product(IRT, IRT, (False,)):
            c = C.as_factory(corr_case(r_irt, [sc], uns, "many", "post"))
            c["first"] = copy.deepcopy(first)
            c["tag"] += "/reused"
            yield c
        for version, top in itertools.product(("2.0", "1.1", "2.1"), (SUCCESS, RESPONDER, REQUESTER)):
            c = C.as_factory(C.base_case(PROP))
            c["env"]["outstanding"] = copy.deepcopy(OUTSTANDING["many"])
            c["resp"]["version"] = version
            c["resp"]["status_top"] = top
            c["first"] = copy.deepcopy(first)
            c["tag"] = "factory/shape-reused:%s/%s" % (version, top.rsplit(":", 1)[1])
            yield c
    # cross-dimension stream: every dimension of the SP model varied at once
    for _ in range(150 if tier == "quick" else 4000):
        yield C.random_full(rng, PROP)
    for _ in range(60 if tier == "quick" else 1500):
        yield C.via_entry(C.random_full(rng, PROP), "response_factory")

    # subject identified by an <EncryptedID> (get_subject): entry point x carrier x decryptable x signature, crossed with
    # the correlation dimension (the identifier's form must not displace the InResponseTo tests)
    def vary_correlation(c, rng):
        r_irt, sc_irt = rng.choice(list(IRT.values())), rng.choice(list(IRT.values()))
        c["resp"]["in_response_to"] = r_irt
        c["resp"]["assertions"][0]["subject"]["confs"][0]["data"]["irt"] = sc_irt
        c["cfg"]["allow_unsolicited"] = rng.random() < 0.3
        c["env"]["outstanding"] = rng.choice([[], [["req-1", "/came/1"]], [["req-0", "/came/0"], ["req-1", "/came/1"], ["req-2", "/came/2"]]])
        c["tag"] += "/irt:%s/%s" % (r_irt, sc_irt)

    yield from C.encrypted_id_cases(rng, PROP, tier, vary_correlation)

    # two assertions sharing one (sender-chosen) ID, one in clear and one encrypted, one of them not an answer to the
    # outstanding request / of the wrong shape
    def spoil_correlation(a, rng):
        k = rng.choice(["irt-other", "irt-unknown", "irt-absent", "authn-0", "authn-2"])
        if k.startswith("irt"):
            a["subject"]["confs"][0]["data"]["irt"] = {"irt-other": "req-2", "irt-unknown": "req-unknown", "irt-absent": None}[k]
        else:
            a["authn"] = [dict(a["authn"][0], session_index="s%d" % j) for j in range(0 if k == "authn-0" else 2)]
        return k

    for c in C.dup_id_cases(rng, PROP, tier, spoil_correlation):
        c["env"]["outstanding"] = [["req-1", "/came/1"], ["req-2", "/came/2"]]
        yield c
    # signed carriers (default configuration) of a few correlation cells
    for r_irt, sc in itertools.product(IRT, IRT):
        c = corr_case(r_irt, [sc], False, "many")
        c["cfg"] = {}
        c["resp"]["sig"] = "valid"
        c["tag"] += "/signed"
        yield c


def random_mix(rng):
    """One random combination of all dimensions: 1-3 assertions (plain / encrypted / undecryptable), each with 0-3
    confirmations (with or without data, any InResponseTo), any outstanding set, binding, status and version."""
    binding = rng.choice(["post", "post", "redirect", "soap"])
    c = corr_case(rng.choice(list(IRT)), ["ok"], rng.random() < 0.4, rng.choice(list(OUTSTANDING)), binding)
    if binding == "soap":
        c["return_addrs"] = []
        c["resp"]["destination"] = None
    a0 = c["resp"]["assertions"][0]
    conf0 = a0["subject"]["confs"][0]
    asserts = []
    for i in range(rng.choice([1, 1, 1, 2, 2, 3])):
        a = copy.deepcopy(a0)
        a["id"] = "a-%d" % i
        confs = []
        for _ in range(rng.choice([1, 1, 1, 2, 3, 0])):
            if rng.random() < 0.15:
                confs.append({"method": rng.choice(["bearer", "holder-of-key", "sender-vouches"]), "data": None})
            else:
                cf = copy.deepcopy(conf0)
                cf["method"] = rng.choice(["bearer", "bearer", "bearer", "sender-vouches"])
                cf["data"]["irt"] = IRT[rng.choice(["ok", "ok", "ok", "other", "unknown", "absent"])]
                confs.append(cf)
        a["subject"]["confs"] = confs
        if rng.random() < 0.08:
            a["subject"] = None
        if rng.random() < 0.12:
            a["authn"] = [{"session_index": "s%d" % j} for j in range(rng.choice([0, 2]))]
        if rng.random() < 0.3:
            a["encrypted"] = True
            a["decryptable"] = rng.random() < 0.8
        asserts.append(a)
    c["resp"]["assertions"] = asserts
    if rng.random() < 0.1:
        c["resp"]["version"] = rng.choice(["1.1", "2.1"])
    if rng.random() < 0.12:
        c["resp"]["status_top"] = rng.choice([REQUESTER, RESPONDER])
        c["resp"]["status_second"] = rng.choice([None] + status_constants())
    if rng.random() < 0.2:
        c["cfg"] = {"allow_unsolicited": c["cfg"].get("allow_unsolicited", False)}
        c["resp"]["sig"] = "valid"
    c["tag"] = "mix"
    return c


def finding_key(case, impl, lean):
    """F17: an ENCRYPTED assertion whose SubjectConfirmationData InResponseTo differs from the
    Response's (which is outstanding) is accepted."""
    r = case["resp"]
    if impl.get("r") != "identity" or lean.get("why") != ["C06"]:
        return None
    outs = dict(map(tuple, case["env"].get("outstanding", [])))
    if r.get("in_response_to") not in outs:
        return None
    plain_bad = enc_bad = False
    for a in r.get("assertions", []):
        for sc in ((a.get("subject") or {}).get("confs") or []):
            d = sc.get("data")
            if d is not None and d.get("irt") != r.get("in_response_to"):
                if a.get("encrypted"):
                    enc_bad = True
                else:
                    plain_bad = True
    if enc_bad and not plain_bad and impl.get("came_from") == outs[r["in_response_to"]]:
        return "C06/encrypted-assertion-sc-irt-not-compared"
    return None


def distribution(recs):
    d = {}
    for r in recs:
        k = r["case"].get("tag", "?").split(":")[0] + ":" + r["impl"].get("r")
        d[k] = d.get(k, 0) + 1
    return d
