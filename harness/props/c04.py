"""C04 — assertions addressed to someone else are never accepted: audience structure, Destination,
Recipient.  Real code: Saml2Client.parse_authn_request_response (for_me, condition_ok,
StatusResponse._verify, get_subject/verify_recipient, Config.endpoint)."""
import copy
import itertools

import scenario as S
import spflow as F
from props._sp_common import *  # noqa: F401,F403  (shared run_impl / compare / setup / GEN …)
from props import _sp_common as C

PROP = "C04"
LEAN_PROPS = "PysamlModel.Props.C04"
AUDIT = "PysamlModel/Audit/C04.lean"
CORRESPONDENCE = "Drivers/Sp.lean (Sp.process) vs Saml2Client.parse_authn_request_response, audience/destination/recipient dimension"
RULE = ("audience structures: 0-3 AudienceRestrictions x 1-2 Audiences over {own, other, look-alike, padded} enumerated "
        "completely up to 2 restrictions (quick) / 3 (thorough), Destination x Recipient x conv_info x binding product "
        "enumerated completely (conversation info: none / entityID / entityID+address / address only / empty / other entityID), the same "
        "for an SP with indexed 3-tuple endpoints, audience shapes x presence of the Conditions time attributes, a cross-dimension "
        "random stream, plus random look-alike strings; non-trivial = every case (each is a distinct addressing shape)")
TRUSTED = C.TRUSTED_COMMON
ASSUMPTIONS = C.ASSUMPTIONS_COMMON + ["whitespace-padded Audience text is unconstrained by the spec (the property is silent; the code strips)"]
EXHAUSTIVE = True

OTHER = "https://other.verif.example/sp"


def lookalike(rng, s):
    c = rng.randrange(7)
    return [s[:-1], s + "/", s.upper(), s.replace("https://", "http://"), s + "x", s.replace(".example", ".example.evil.test"),
            s[:len(s) // 2]][c]


def aud_of(kind, rng):
    if kind == "own":
        return S.SP_ID
    if kind == "other":
        return OTHER
    if kind == "look":
        return lookalike(rng, S.SP_ID)
    if kind == "pad":
        return rng.choice([" " + S.SP_ID, S.SP_ID + " ", "\n" + S.SP_ID + "\n", "\t" + S.SP_ID])
    if kind == "empty":
        return ""
    raise ValueError(kind)


def audience_case(rng, shape, signed=False, encrypted=False):
    c = C.base_case(PROP)
    c["resp"]["assertions"][0]["conditions"]["audiences"] = [[aud_of(k, rng) for k in r] for r in shape]
    c["tag"] = "aud:" + "|".join(",".join(r) for r in shape)
    if signed:
        c["cfg"] = {}
        c["resp"]["sig"] = "valid"
    if encrypted:
        c["resp"]["assertions"][0]["encrypted"] = True
    return c


def addr_values(rng, binding):
    own = F.own_addrs(binding)[0]
    other_binding = F.own_addrs("redirect" if binding == "post" else "post")[0]
    return [("absent", None), ("own", own), ("own-other-binding", other_binding), ("foreign", "https://evil.example/acs"),
            ("look1", lookalike(rng, own)), ("look2", lookalike(rng, own)), ("empty", ""), ("entity-id", S.SP_ID)]


def per_restriction_small(per_restriction):
    """all audience structures with 0-2 restrictions"""
    for n in range(0, 3):
        for shape in itertools.product(per_restriction, repeat=n):
            yield shape


def gen_cases(rng, tier):
    kinds = ["own", "other", "look", "pad"]
    per_restriction = [list(p) for n in (1, 2) for p in itertools.product(kinds, repeat=n)]
    max_full = 2 if tier == "quick" else 3
    for n in range(0, max_full + 1):
        for shape in itertools.product(per_restriction, repeat=n):
            yield audience_case(rng, shape)
    if tier == "quick":
        for _ in range(250):
            yield audience_case(rng, [rng.choice(per_restriction) for _ in range(3)])
    # wider alphabets, three audiences, empty audience text, signed / encrypted carriers
    wide = kinds + ["empty"]
    for _ in range(150 if tier == "quick" else 1500):
        shape = [[rng.choice(wide) for _ in range(rng.randint(1, 3))] for _ in range(rng.randint(0, 3))]
        yield audience_case(rng, shape, signed=rng.random() < 0.2, encrypted=rng.random() < 0.15)
    # conditions element without audience restrictions / without anything
    c = C.base_case(PROP)
    c["resp"]["assertions"][0]["conditions"] = {"audiences": []}
    yield c
    c = C.base_case(PROP)
    c["resp"]["assertions"][0]["conditions"] = None
    yield c
    # Destination x Recipient x conv_info x binding
    for binding in ("post", "redirect"):
        vals = addr_values(rng, binding)
        for (dk, d), (rk, rcp) in itertools.product(vals, vals):
            for ck, conv in (("none", None), ("eid", {"entity_id": S.SP_ID}),
                             ("eid+addr", {"entity_id": S.SP_ID, "remote_addr": "192.0.2.7"}),
                             ("addr-only", {"remote_addr": "192.0.2.7"}), ("empty", {}),
                             ("other-eid", {"entity_id": OTHER})):
                c = C.base_case(PROP, binding=binding)
                c["resp"]["destination"] = d
                c["resp"]["assertions"][0]["subject"]["confs"][0]["data"]["recipient"] = rcp
                c["env"]["conv_info"] = conv
                c["tag"] = "addr:%s/%s/%s/%s" % (binding, dk, rk, ck)
                yield c
    # the same addressing values for an SP whose consumer endpoints are configured as indexed 3-tuples
    for binding in ("post", "redirect"):
        vals = addr_values(rng, binding)
        for (dk, d), (ck, conv) in itertools.product(vals, (("none", None), ("eid", {"entity_id": S.SP_ID}))):
            c = C.base_case(PROP, binding=binding)
            c["cfg"]["endpoints"] = "indexed"
            c["resp"]["destination"] = d
            c["env"]["conv_info"] = conv
            c["tag"] = "addr-indexed:%s/%s/%s" % (binding, dk, ck)
            yield c
        for (rk, rcp) in vals:
            c = C.base_case(PROP, binding=binding)
            c["cfg"]["endpoints"] = "indexed"
            c["resp"]["assertions"][0]["subject"]["confs"][0]["data"]["recipient"] = rcp
            c["env"]["conv_info"] = {"entity_id": S.SP_ID}
            c["tag"] = "addr-indexed-rcp:%s/%s" % (binding, rk)
            yield c
    # Destination x allow_unsolicited x InResponseTo {outstanding, unknown, absent}: an unsolicited Response is addressed
    # like any other
    for binding in ("post", "redirect"):
        for (dk, d) in addr_values(rng, binding):
            for uns in (True, False):
                for irt in ("req-1", "req-unknown", None):
                    c = C.base_case(PROP, binding=binding)
                    c["cfg"]["allow_unsolicited"] = uns
                    c["resp"]["destination"] = d
                    c["resp"]["in_response_to"] = irt
                    c["resp"]["assertions"][0]["subject"]["confs"][0]["data"]["irt"] = irt
                    c["tag"] = "addr-unsolicited:%s/%s/%s/%s" % (binding, dk, uns, irt)
                    yield c
    # the addressing product again through the second public entry point (authn_response + loads + verify)
    for binding in ("post", "redirect"):
        vals = addr_values(rng, binding)
        for (dk, d), (rk, rcp) in itertools.product(vals, vals):
            for ck, conv in (("none", None), ("eid", {"entity_id": S.SP_ID}), ("addr-only", {"remote_addr": "192.0.2.7"})):
                if dk != "own" and rk != "own" and ck != "eid":
                    continue
                c = C.base_case(PROP, binding=binding)
                c["resp"]["destination"] = d
                c["resp"]["assertions"][0]["subject"]["confs"][0]["data"]["recipient"] = rcp
                c["env"]["conv_info"] = conv
                c["tag"] = "addr:%s/%s/%s/%s" % (binding, dk, rk, ck)
                yield C.as_factory(c)
    for shape in per_restriction_small(per_restriction):
        yield C.as_factory(audience_case(rng, shape))
    for _ in range(100 if tier == "quick" else 2000):
        yield C.as_factory(C.random_full(rng, PROP))
    # audience structures on the attribute-query answer path
    for shape in per_restriction_small(per_restriction):
        yield C.as_attr(audience_case(rng, shape), keep_authn=len(shape) % 2 == 0)
    # audience structure x presence of the two Conditions time attributes (the audience test must not depend on them)
    small = [[], [["own"]], [["other"]], [["own"], ["other"]], [["other"], ["own"]], [["own", "other"]], [["look"]], [["own"], ["look"]]]
    for shape, has_nb, has_nooa in itertools.product(small, (True, False), (True, False)):
        c = audience_case(rng, shape)
        cond = c["resp"]["assertions"][0]["conditions"]
        if not has_nb:
            cond["nb"] = None
        if not has_nooa:
            cond["nooa"] = None
        c["tag"] = "aud-times:%s/nb=%s/nooa=%s" % ("|".join(",".join(r) for r in shape), has_nb, has_nooa)
        yield c
    # an SP that has NO consumer endpoint for the binding the Response arrives on: every present
    # Destination is foreign
    for endpoints, binding in (("post_only", "redirect"), ("redirect_only", "post"), ("post_only", "post"), ("redirect_only", "redirect")):
        for (dk, d) in addr_values(rng, binding):
            for ck, conv in (("none", None), ("eid", {"entity_id": S.SP_ID})):
                c = C.base_case(PROP, binding=binding)
                c["cfg"]["endpoints"] = endpoints
                c["return_addrs"] = F.own_addrs(binding, endpoints)
                c["resp"]["destination"] = d
                c["env"]["conv_info"] = conv
                c["tag"] = "addr-noep:%s/%s/%s/%s" % (endpoints, binding, dk, ck)
                yield c
    # Recipient look-alikes of the entityID (truncations, extensions, case) with conversation info
    for binding in ("post", "redirect"):
        for i in range(12 if tier == "quick" else 60):
            rcp = [S.SP_ID[:-1], S.SP_ID[: len(S.SP_ID) // 2], S.SP_ID[8:], S.SP_ID + "/", S.SP_ID.upper(), "sp.verif.example",
                   lookalike(rng, S.SP_ID), lookalike(rng, S.SP_ID), S.SP_ID[1:], "https://", S.SP_ID + " ", " " + S.SP_ID][i % 12]
            for conv in ({"entity_id": S.SP_ID}, {"entity_id": S.SP_ID, "remote_addr": "192.0.2.7"}):
                c = C.base_case(PROP, binding=binding)
                c["resp"]["assertions"][0]["subject"]["confs"][0]["data"]["recipient"] = rcp
                c["env"]["conv_info"] = conv
                c["tag"] = "addr-eid-lookalike:%s/%d" % (binding, i)
                yield c
    # SOAP: Destination is not looked at for synchronous bindings
    for dk, d in addr_values(rng, "post"):
        c = C.base_case(PROP, binding="soap")
        c["resp"]["destination"] = d
        c["tag"] = "addr:soap/" + dk
        yield c
    # several confirmations, Address attribute against remote_addr
    for _ in range(60 if tier == "quick" else 600):
        c = C.base_case(PROP, binding=rng.choice(["post", "redirect"]))
        own = F.own_addrs(c["env"]["binding"])[0]
        confs = []
        for _ in range(rng.randint(1, 3)):
            data = {"nooa": S.NOW0 + 300, "irt": "req-1",
                    "recipient": rng.choice([own, own, S.SP_ID, "https://evil.example/acs", lookalike(rng, own), None])}
            if rng.random() < 0.3:
                data["address"] = rng.choice(["192.0.2.7", "192.0.2.8", "2001:db8::1"])
            if rng.random() < 0.2:
                data["nb"] = S.NOW0 + 1000  # inverted window: this confirmation is skipped
            confs.append({"method": rng.choice(["bearer", "bearer", "bearer", "bearer", "sender-vouches", "holder-of-key", "other"]),
                          "data": data})
        c["resp"]["assertions"][0]["subject"]["confs"] = confs
        c["env"]["conv_info"] = rng.choice([None, {"entity_id": S.SP_ID}, {"entity_id": S.SP_ID, "remote_addr": "192.0.2.7"}])
        c["tag"] = "multi-conf"
        yield c
    # cross-dimension stream: every dimension of the SP model varied at once
    for _ in range(150 if tier == "quick" else 4000):
        yield C.random_full(rng, PROP)
    # the cross-dimension stream through the third entry point (response_factory: the only one that applies the
    # configured extension schemas)
    for _ in range(100 if tier == "quick" else 2000):
        yield C.via_entry(C.random_full(rng, PROP), "response_factory")

    # extension <Condition> elements (condition_ok): entry point x configured schemas x condition types, and the understood
    # ones crossed with the addressing dimension (an understood extension condition must not displace the audience /
    # Destination / Recipient tests)
    def vary_addressing(c, rng):
        a = c["resp"]["assertions"][0]
        if rng.random() < 0.7:
            shape = [[rng.choice(wide) for _ in range(rng.randint(1, 2))] for _ in range(rng.randint(0, 3))]
            a["conditions"]["audiences"] = [[aud_of(k, rng) for k in r] for r in shape]
            c["tag"] += "/aud:" + "|".join(",".join(r) for r in shape)
        if rng.random() < 0.3:
            dk, d = rng.choice(addr_values(rng, c["env"]["binding"]))
            c["resp"]["destination"] = d
            c["tag"] += "/dest:" + dk
        if rng.random() < 0.3:
            rk, rcp = rng.choice(addr_values(rng, c["env"]["binding"]))
            a["subject"]["confs"][0]["data"]["recipient"] = rcp
            c["env"]["conv_info"] = rng.choice([{"entity_id": S.SP_ID}, {"entity_id": S.SP_ID, "remote_addr": "192.0.2.7"}, None])
            c["tag"] += "/rcp:" + rk
        if rng.random() < 0.2:
            a["conditions"]["nb"] = None
        if rng.random() < 0.2:
            a["conditions"]["nooa"] = None

    yield from C.extension_cases(rng, PROP, tier, vary_addressing)

    # two assertions sharing one (sender-chosen) ID, one in clear and one encrypted, one of them addressed elsewhere
    def spoil_addressing(a, rng):
        k = rng.choice(["aud-other", "aud-look", "aud-and", "rcp-foreign", "rcp-look"])
        if k.startswith("aud"):
            a["conditions"]["audiences"] = {"aud-other": [[OTHER]], "aud-look": [[lookalike(rng, S.SP_ID)]],
                                            "aud-and": [[S.SP_ID], [OTHER]]}[k]
        else:
            d = a["subject"]["confs"][0]["data"]
            d["recipient"] = "https://evil.example/acs" if k == "rcp-foreign" else lookalike(rng, d["recipient"])
        return k

    for c in C.dup_id_cases(rng, PROP, tier, spoil_addressing):
        c["env"]["conv_info"] = {"entity_id": S.SP_ID}   # so that the Recipient is looked at
        yield c
    # subject identified by an <EncryptedID> (get_subject), crossed with the addressing dimension
    yield from C.encrypted_id_cases(rng, PROP, tier, vary_addressing)


def finding_key(case, impl, lean):
    return None


def shrink(case):
    a = case["resp"]["assertions"][0]
    auds = (a.get("conditions") or {}).get("audiences") or []
    for i in range(len(auds)):
        c = copy.deepcopy(case)
        del c["resp"]["assertions"][0]["conditions"]["audiences"][i]
        yield c
        if len(auds[i]) > 1:
            for j in range(len(auds[i])):
                c = copy.deepcopy(case)
                del c["resp"]["assertions"][0]["conditions"]["audiences"][i][j]
                yield c


def distribution(recs):
    d = {}
    for r in recs:
        k = (r["case"].get("tag", "?").split(":")[0]) + ":" + r["impl"].get("r")
        d[k] = d.get(k, 0) + 1
    return d
