"""C11 — the metadata store answers exactly what authentic, current metadata says:
correspondence harness.

Real code exercised: MetadataStore.imp / load / reload, MetaDataFile / InMemoryMetaData /
MetaDataLoader / MetaDataExtern / MetaDataMDX (parse, do_entity_descriptor,
parse_and_check_signature, _fetch_metadata, __getitem__) and the lookups __getitem__, service
(+ the single_sign_on_service / assertion_consumer_service / single_logout_service wrappers),
certs, attribute_requirement, entity_categories, registration_info, keys, items, with_descriptor.

A case is a history: a list of steps (imp / reload / one lookup), each at its own instant of the
virtual clock and with its own answers of the stubbed remote / MDQ servers.  The abstract documents
of the case are rendered to XML by the writer below (independent of saml2.metadata), signed through
the xmlsec1 stand-in, and handed to the real store; every observation is canonicalised to the
model's `Ans` and compared step by step.

Round 5: the store's own settings (MetadataStore(filter=, check_validity=)) are part of the case (`store`); the
per-source effect of the filter is the `filt` entry of each source specification (model: SrcSpec.filt)."""
import contextlib
import io
import json
import os
import re
import shutil
import tempfile

import scenario as S

PROP = "C11"
LEAN_PROPS = "PysamlModel.Props.C11"
MODEL_TARGETS = ["PysamlModel.Model.MdStore", "PysamlModel.Spec.C11"]
AUDIT = "PysamlModel/Audit/C11.lean"
DRIVER = "Drivers/C11.lean"
CORRESPONDENCE = ("Drivers/C11.lean (MdStore.run under Policy.code) vs MetadataStore.imp/reload and every lookup, "
                  "observation by observation over whole histories")
RULE = ("random histories on a store built with or without a `filter` callable (refuse by entityID / demand an entity "
        "attribute value / delete descriptor kinds; answer None or {}) and with check_validity True / False: "
        "1-4 sources in every configuration form (old style local file / local directories with "
        "recurring file names / inline str or bytes / remote with or without node_name / mdfile dump / loader / mdq as dict "
        "or as bare URL, new style class+metadata lists incl. a trailing directory and MetaDataMD; every way an entry "
        "can be wrong: remote without url or not a dict, unknown type, no class / metadata key, unknown loader class "
        "or module; remote and MDQ answered by real requests Response objects with "
        "varying Content-Type) x document bytes (UTF-8 with/without declaration or BOM, UTF-16, ISO-8859-1; non-ASCII "
        "entityIDs, Locations, registration authorities, category values) x random documents (1-6 entities, repeated ids, any mix of roles, 0-4 endpoints per service "
        "and binding, key use signing/encryption/absent, validUntil around now, protocol lists with/without SAML 2.0, "
        "entity attributes, registration info, requested attributes, unknown extension elements in entity and role "
        "Extensions, key descriptors without usable certificate) x signature state x certificate configured or "
        "not; load, reload with the k-th source failing (missing, malformed, bad signature, HTTP error status with or "
        "without a loadable body, too old), MDQ "
        "fetch / refresh sequences under the virtual clock; after every mutating step every observation point is "
        "queried for every entity of the scenario; non-trivial = case in which at least one lookup finds an entity; "
        "distinct = distinct case JSON")
TRUSTED = [
    "XML text -> saml2.md objects -> mdie.to_dict dictionaries is exercised on every case, not modelled "
    "(the model starts at the element-tree level: lists of entities / roles / endpoints / keys)",
    "xmlsec1 stand-in (harness/standin/xmlsec_standin.py): signature states valid / tampered / wrong key are "
    "produced and verified through it; real RSA, model of xmlsec1's documented node / reference / key selection",
    "timestamp parsing (time_util.str_to_time / add_duration) is exercised, the model takes instants as integers",
    "the harness's document writer and its canonicalisation of lookup results (harness/props/c11.py)",
    "ideal cryptography: a signature verifies under the configured certificate iff it was made with the matching "
    "key over the unmodified document",
]
ASSUMPTIONS = [
    "generated EntitiesDescriptor documents are schema-valid (MetaData.parse silently loads nothing from a "
    "schema-invalid EntitiesDescriptor); EntityDescriptor roots are not validated by the code and may omit "
    "mandatory services",
    "an MDQ answer describes the requested entity (a 200 answer carrying a different entityID is outside the "
    "quantifier; the model covers it, the generator does not produce it)",
    "sources are configured through MetadataStore.imp (old- and new-style specifications); discovery-response "
    "extensions are covered by C08",
    "a local directory is its files as consecutive file sources in listing order (os.listdir inside saml2.mdstore is "
    "stubbed to the case's order); a new-style directory entry's certificate holds for each of its files (which, like "
    "any MetaDataFile built by imp, have no SecurityContext: signed documents fail closed). Not generated: one entry "
    "whose metadata list names a certificate for one key and none for a later key (kwargs['cert'] leaks forward)",
    "an mdfile (MetaDataMD) source is fed the dump pysaml2's own dumps() makes of the document at the same instant; "
    "MetaDataMD.load applies no filter of its own, stale or hand-made dumps are outside",
    "validUntil is evaluated when a document is read (the code never re-evaluates it afterwards)",
    "which sources receive the store's filter is a harness rendering (_eff_filter: MetadataStore.load hands it to local "
    "files and remote sources, not to inline / mdq; class-style imp to every class; MetaDataMD.load never filters) of "
    "the per-source `filt` the model takes; the generated filters are pure functions of the descriptor dictionary",
]
EXHAUSTIVE = False
PARALLEL = True

KINDS = ["spsso", "idpsso", "authn_authority", "attribute_authority", "pdp", "affiliation"]
SERVICES = {  # kind -> [(dictionary key, XML tag, indexed, mandatory)] in schema order
    "idpsso": [("artifact_resolution_service", "ArtifactResolutionService", True, False),
               ("single_logout_service", "SingleLogoutService", False, False),
               ("manage_name_id_service", "ManageNameIDService", False, False),
               ("single_sign_on_service", "SingleSignOnService", False, True),
               ("name_id_mapping_service", "NameIDMappingService", False, False),
               ("assertion_id_request_service", "AssertionIDRequestService", False, False)],
    "spsso": [("artifact_resolution_service", "ArtifactResolutionService", True, False),
              ("single_logout_service", "SingleLogoutService", False, False),
              ("manage_name_id_service", "ManageNameIDService", False, False),
              ("assertion_consumer_service", "AssertionConsumerService", True, True)],
    "authn_authority": [("authn_query_service", "AuthnQueryService", False, True),
                        ("assertion_id_request_service", "AssertionIDRequestService", False, False)],
    "attribute_authority": [("attribute_service", "AttributeService", False, True),
                            ("assertion_id_request_service", "AssertionIDRequestService", False, False)],
    "pdp": [("authz_service", "AuthzService", False, True),
            ("assertion_id_request_service", "AssertionIDRequestService", False, False)],
    "affiliation": [],
}
ROLE_TAG = {"spsso": "SPSSODescriptor", "idpsso": "IDPSSODescriptor", "authn_authority": "AuthnAuthorityDescriptor",
            "attribute_authority": "AttributeAuthorityDescriptor", "pdp": "PDPDescriptor",
            "affiliation": "AffiliationDescriptor"}
BINDINGS = [S.BINDING_POST, S.BINDING_REDIRECT, S.BINDING_SOAP, S.BINDING_ARTIFACT]
CERTS = ["idp_sign", "idp_sign2", "idp_enc", "member2", "sp", "sp_enc1", "attacker"]
FILTERS = True           # switch: stores constructed with a `filter` callable are generated
COMMON_CAT = "https://cat.c11.example/research"   # a category value many entities share (what a filter may demand)
FED_KEY = "member2"      # the federation operator's signing key; its certificate is the one configured
P11 = "urn:oasis:names:tc:SAML:1.1:protocol"
ECS = "http://macedir.org/entity-category-support"
USES = ["signing", "encryption", None]

_st = {}


def setup():
    S.install()
    from saml2.attribute_converter import ac_factory
    from saml2.config import Config
    from saml2.sigver import security_context

    c = Config()
    c.load({"entityid": "https://verif.c11.example/me", "xmlsec_binary": S.xmlsec_standin.BINARY,
            "key_file": S.key_path("sp"), "cert_file": S.cert_path("sp")})
    _st["conf"] = c
    _st["attrc"] = ac_factory()
    _st["sec"] = security_context(c)
    _st["cert_name"] = {S.cert_b64(n): n for n in CERTS}
    _st["xml"] = {}


def consts():
    """constants of the code the model depends on, read from the code on every run"""
    import saml2.mdstore as M
    from saml2 import samlp

    return {"p2": samlp.NAMESPACE, "ec": M.ENTITY_CATEGORY, "true": "true"}


def default_fresh():
    """DEFAULT_FRESHNESS_PERIOD of the code, in seconds (what an MDQ source given positionally gets)"""
    import saml2.mdstore as M
    from saml2.time_util import parse_duration

    sign, d = parse_duration(M.DEFAULT_FRESHNESS_PERIOD)
    return (d["tm_mday"] * 86400 + d["tm_hour"] * 3600 + d["tm_min"] * 60 + int(d["tm_sec"])) * (1 if sign == "+" else -1)


# ------------------------------------------------------------------ document writer

NS = ('xmlns:md="urn:oasis:names:tc:SAML:2.0:metadata" xmlns:ds="http://www.w3.org/2000/09/xmldsig#" '
      'xmlns:saml="urn:oasis:names:tc:SAML:2.0:assertion" xmlns:mdattr="urn:oasis:names:tc:SAML:metadata:attribute" '
      'xmlns:mdrpi="urn:oasis:names:tc:SAML:metadata:rpi"')
X = S.xesc


NOCERT = {  # a KeyDescriptor that carries no usable certificate
    "empty": "<ds:X509Data><ds:X509Certificate></ds:X509Certificate></ds:X509Data>",
    "blank": "<ds:X509Data><ds:X509Certificate>  \n </ds:X509Certificate></ds:X509Data>",
    "no-x509data": "<ds:KeyName>k1</ds:KeyName>",
    "subject-only": "<ds:X509Data><ds:X509SubjectName>CN=c11</ds:X509SubjectName></ds:X509Data>",
}


def role_xml(r):
    kind = r["kind"]
    tag = ROLE_TAG[kind]
    keys = "".join(
        "<md:KeyDescriptor%s><ds:KeyInfo>%s</ds:KeyInfo></md:KeyDescriptor>"
        % (' use="%s"' % k["use"] if k["use"] else "",
           NOCERT[k["nocert"]] if k.get("nocert") else
           "<ds:X509Data><ds:X509Certificate>%s</ds:X509Certificate></ds:X509Data>" % S.cert_b64(k["cert"]))
        for k in r["keys"])
    if kind == "affiliation":
        return ('<md:AffiliationDescriptor affiliationOwnerID="https://owner.c11.example/aff">'
                "<md:AffiliateMember>https://member.c11.example/m</md:AffiliateMember>%s</md:AffiliationDescriptor>" % keys)
    out = ['<md:%s protocolSupportEnumeration="%s">' % (tag, X(" ".join(r["protocols"]))),
           "<md:Extensions>%s</md:Extensions>" % unk_xml(r["unk_ext"]) if r.get("unk_ext") else "", keys]
    for svc, xtag, indexed, _ in SERVICES[kind]:
        for ep in r["endpoints"]:
            if ep["svc"] != svc:
                continue
            idx = ' index="%s"' % X(ep["index"]) if ep.get("index") is not None else ""
            out.append('<md:%s Binding="%s" Location="%s"%s/>' % (xtag, X(ep["binding"]), X(ep["location"]), idx))
    if kind == "spsso":
        acss = []
        for ra in r["req_attrs"]:
            if ra["acs"] not in acss:
                acss.append(ra["acs"])
        for a in acss:
            out.append('<md:AttributeConsumingService index="%s"><md:ServiceName xml:lang="en">svc</md:ServiceName>' % X(a))
            for ra in r["req_attrs"]:
                if ra["acs"] == a:
                    req = ' isRequired="%s"' % ra["required"] if ra.get("required") is not None else ""
                    out.append('<md:RequestedAttribute Name="%s"%s/>' % (X(ra["name"]), req))
            out.append("</md:AttributeConsumingService>")
    out.append("</md:%s>" % tag)
    return "".join(out)


UNK_EXT = [  # elements of no schema pysaml2 knows: they stay ExtensionElement objects and go through to_dict as such
    '<c11x:Policy xmlns:c11x="urn:example:c11:ext" level="3" scope.kind="fed"><c11x:Item code="7">text</c11x:Item>'
    '<c11x:Item>m\u00fcnchen</c11x:Item></c11x:Policy>',
    '<c11x:Flag xmlns:c11x="urn:example:c11:ext"/>',
    '<c11y:Note xmlns:c11y="urn:example:c11:other" xml:lang="en">free text</c11y:Note>',
]


def unk_xml(sel):
    return "".join(UNK_EXT[i] for i in sel)


def ent_xml(e, root_attrs="", sig=""):
    vu = ' validUntil="%s"' % S.fmt_time(e["valid_until"]) if e.get("valid_until") is not None else ""
    out = ['<md:EntityDescriptor %sentityID="%s" ID="%s"%s>' % (root_attrs, X(e["id"]), X(e["tag"]), vu), sig]
    ext = []
    for rg in e["regs"]:
        a = ' registrationAuthority="%s"' % X(rg["authority"]) if rg.get("authority") is not None else ""
        i = ' registrationInstant="%s"' % X(rg["instant"]) if rg.get("instant") is not None else ""
        pol = "".join('<mdrpi:RegistrationPolicy xml:lang="%s">%s</mdrpi:RegistrationPolicy>' % (X(l), X(t))
                      for l, t in rg["policies"])
        ext.append("<mdrpi:RegistrationInfo%s%s>%s</mdrpi:RegistrationInfo>" % (a, i, pol))
    if e["attrs"]:
        # the attributes are spread over one or two mdattr:EntityAttributes elements (split recorded in the case)
        cut = e.get("attr_split", len(e["attrs"]))
        for chunk in (e["attrs"][:cut], e["attrs"][cut:]):
            if chunk:
                ext.append("<mdattr:EntityAttributes>%s</mdattr:EntityAttributes>" % "".join(
                    '<saml:Attribute Name="%s" NameFormat="urn:oasis:names:tc:SAML:2.0:attrname-format:uri">%s</saml:Attribute>'
                    % (X(n), "".join("<saml:AttributeValue>%s</saml:AttributeValue>" % X(v) for v in vals))
                    for n, vals in chunk))
    if e.get("unk_ext"):   # unknown extension elements before / between / after the known ones
        for n, i in enumerate(e["unk_ext"]):
            ext.insert((i + n) % (len(ext) + 1), UNK_EXT[i])
    if ext:
        out.append("<md:Extensions>%s</md:Extensions>" % "".join(ext))
    out.extend(role_xml(r) for r in e["roles"])
    out.append("</md:EntityDescriptor>")
    return "".join(out)


def sig_template(ident, embed):
    ki = ""
    if embed:
        ki = ("<ds:KeyInfo><ds:X509Data><ds:X509Certificate>%s</ds:X509Certificate></ds:X509Data></ds:KeyInfo>"
              % S.cert_b64(embed))
    return ('<ds:Signature><ds:SignedInfo><ds:CanonicalizationMethod Algorithm="http://www.w3.org/2001/10/xml-exc-c14n#"/>'
            '<ds:SignatureMethod Algorithm="http://www.w3.org/2001/04/xmldsig-more#rsa-sha256"/>'
            '<ds:Reference URI="#%s"><ds:Transforms>'
            '<ds:Transform Algorithm="http://www.w3.org/2000/09/xmldsig#enveloped-signature"/>'
            '<ds:Transform Algorithm="http://www.w3.org/2001/10/xml-exc-c14n#"/></ds:Transforms>'
            '<ds:DigestMethod Algorithm="http://www.w3.org/2001/04/xmlenc#sha256"/><ds:DigestValue></ds:DigestValue>'
            "</ds:Reference></ds:SignedInfo><ds:SignatureValue></ds:SignatureValue>%s</ds:Signature>" % (X(ident), ki))


def doc_xml(d):
    """abstract document -> XML text; signed / tampered / signed with the wrong key as `sig` says"""
    key = json.dumps(d, sort_keys=True)
    if key in _st["xml"]:
        return _st["xml"][key]
    signed = d["sig"] != "unsigned"
    signer = {"valid": FED_KEY, "tampered": FED_KEY, "wrongkey": "attacker"}.get(d["sig"])
    embed = signer if d.get("embed") else None
    if d["group"]:
        root, ident = "EntitiesDescriptor", d.get("doc_id", "g0")
        vu = ' validUntil="%s"' % S.fmt_time(d["valid_until"]) if d.get("valid_until") is not None else ""
        body = "".join(ent_xml(e) for e in d["entities"])
        xml = ('<?xml version="1.0" encoding="UTF-8"?>\n<md:EntitiesDescriptor %s ID="%s"%s>%s%s</md:EntitiesDescriptor>'
               % (NS, X(ident), vu, sig_template(ident, embed) if signed else "", body))
    else:
        root = "EntityDescriptor"
        e = d["entities"][0]
        ident = e["tag"]
        xml = '<?xml version="1.0" encoding="UTF-8"?>\n' + ent_xml(e, NS + " ", sig_template(ident, embed) if signed else "")
    if signed:
        xml = _st["sec"].sign_statement(xml, "urn:oasis:names:tc:SAML:2.0:metadata:" + root,
                                        key_file=S.key_path(signer), node_id=ident)
        if d["sig"] == "tampered":  # edit inside the signed element after signing (nothing the lookups report)
            xml = xml.replace("<md:%s " % root, '<md:%s cacheDuration="PT1H" ' % root, 1)
    if len(_st["xml"]) > 4000:
        _st["xml"].clear()
    _st["xml"][key] = xml
    return xml


ENCODINGS = ["utf-8", "utf-8", "utf-8", "utf-8", "utf-8-nodecl", "utf-8-bom", "utf-16", "iso-8859-1"]
CTYPES = ["application/samlmetadata+xml", "text/xml", "text/xml", "application/xml", "text/xml; charset=utf-8",
          "application/samlmetadata+xml; charset=utf-8", "text/plain", None]
FILE_NAMES = ["idps.xml", "sps.xml", "fed.xml", "md.xml"]


def doc_bytes(d):
    """the document as the BYTES a file / server holds: encoding and XML declaration as `enc` says (the
    signature, if any, was made over the text; the stand-in and every XML parser go by the declaration / BOM)"""
    text = doc_xml(d)
    body = text.split("?>\n", 1)[1]
    enc = d.get("enc", "utf-8")
    if enc == "utf-8":
        return ('<?xml version="1.0" encoding="UTF-8"?>\n' + body).encode("utf-8")
    if enc == "utf-8-nodecl":
        return body.encode("utf-8")
    if enc == "utf-8-bom":
        return b"\xef\xbb\xbf" + ('<?xml version="1.0" encoding="UTF-8"?>\n' + body).encode("utf-8")
    if enc == "utf-16":
        return ('<?xml version="1.0" encoding="UTF-16"?>\n' + body).encode("utf-16")
    return ('<?xml version="1.0" encoding="ISO-8859-1"?>\n' + body).encode("latin-1")


# ------------------------------------------------------------------ generator


class G:
    """one case under construction"""

    def __init__(self, rng, tier):
        self.rng = rng
        self.tier = tier
        self.n = 0
        self.eids = ["https://e%d.c11.example/ent" % i for i in range(rng.randint(2, 4))]
        if rng.random() < 0.4:   # IRIs are legal anyURI values: a non-ASCII (Latin-1) entityID
            self.eids[rng.randrange(len(self.eids))] = "https://e9.c11.example/m\u00e9tadonn\u00e9es"
        # whether the case may exercise the known departure of the code from the property (F9); MDQ
        # answers with a bad signature (the input class of F11, fixed by 85b6178b) occur in every mode
        self.mode = rng.choice(["clean", "clean", "f9"])
        self.mdq_cert = {}
        self.now = S.NOW0 + rng.randrange(0, 100000)
        # the STORE's own configuration: MetadataStore(filter=..., check_validity=...)
        self.store = {"filter": None, "chk": True}
        if FILTERS and rng.random() < 0.3:
            need = None
            if rng.random() < 0.4:
                need = [rng.choice([_st["c"]["ec"], _st["c"]["ec"], ECS]), COMMON_CAT]
            self.store["filter"] = {"drop": rng.sample(self.eids, rng.choice([0, 1, 1, 2])), "need": need,
                                    "strip": rng.sample(KINDS, rng.choice([0, 1, 1, 2, 3])),
                                    "empty": rng.random() < 0.3}
        if rng.random() < 0.12:
            self.store["chk"] = False

    def tag(self, p="t"):
        self.n += 1
        return "%s%d" % (p, self.n)

    def vu(self, now):
        r = self.rng
        if r.random() < 0.5:
            return None
        return now + r.choice([3600, 86400, 1, 0, 0, -1, -1, -3600])

    def role(self, eid, tag, kind, single):
        r = self.rng
        p2 = _st["c"]["p2"]
        c = r.randrange(20)
        protos = ([p2] if c < 11 else [p2, P11] if c < 13 else [P11, p2] if c < 14 else [P11] if c < 17
                  else [p2 + "x"] if c == 17 else [p2.upper()] if c == 18 else [P11, "", p2])
        eps = []
        host = eid.rsplit("/", 1)[0]
        for svc, _x, indexed, mandatory in SERVICES[kind]:
            lo = 0 if (single or not mandatory) else 1
            n = r.randint(lo, 4) if mandatory or r.random() < 0.5 else 0
            bs = r.sample(BINDINGS, r.randint(1, 3))
            for i in range(n):
                ep = {"svc": svc, "binding": r.choice(bs),
                      "location": "%s/%s/%s/%d%s" % (host, tag, svc, i, "/m\u00fcnchen" if r.random() < 0.12 else ""),
                      "index": str(r.choice([i, i, i + 10])) if indexed else None}
                if r.random() < 0.06 and eps:
                    ep["location"] = eps[-1]["location"]
                eps.append(ep)
        keys = [{"use": r.choice(USES), "cert": r.choice(CERTS)} for _ in range(r.choice([0, 1, 1, 2, 3]))]
        for k in keys:
            if r.random() < 0.12:
                k["nocert"] = r.choice(sorted(NOCERT))
        ras = []
        if kind == "spsso":
            for a in range(r.choice([0, 0, 1, 2])):
                for j in range(r.randint(1, 3)):
                    ras.append({"acs": str(a), "name": "urn:oid:2.5.4.%d" % r.randrange(3, 9),
                                "required": r.choice(["true", "false", None])})
        role = {"kind": kind, "protocols": protos, "endpoints": eps, "keys": keys, "req_attrs": ras}
        if r.random() < 0.1:
            role["unk_ext"] = r.sample(range(len(UNK_EXT)), r.randint(1, 2))
        return role

    def ent(self, eid, now, single):
        r = self.rng
        tag = self.tag()
        if r.random() < 0.08:
            roles = [{"kind": "affiliation", "protocols": [], "endpoints": [], "keys": [], "req_attrs": []}]
        else:
            kinds = [r.choice(KINDS[:5]) for _ in range(r.choice([1, 1, 1, 2, 2, 3]))]
            if r.random() < 0.3:   # two descriptors of one kind, often disagreeing on SAML 2.0 support (F18, fixed)
                kinds.append(kinds[0])
            roles = [self.role(eid, tag, k, single) for k in kinds]
        attrs = []
        for _ in range(r.choice([0, 0, 1, 1, 2, 3])):
            name = r.choice([_st["c"]["ec"], _st["c"]["ec"], ECS, "urn:oid:1.3.6.1.4.1.5923.1.1.1.7"])
            attrs.append([name, [COMMON_CAT if r.random() < 0.3 else
                                 "https://cat.c11.example/%s/%d%s" % (tag, r.randrange(4), "/cat\u00e9gorie" if r.random() < 0.1 else "")
                                 for _ in range(r.randint(1, 2))]])
        regs = []
        for _ in range(r.choice([0, 0, 1, 1, 1, 2])):
            langs = r.sample(["en", "sv", "de"], r.randint(0, 2))
            regs.append({"authority": "https://%s.c11.example/%s" % (r.choice(["reg", "reg", "f\u00e9d\u00e9ration"]), self.tag("ra")),
                         "instant": r.choice([None, S.fmt_time(now - 86400 * r.randint(1, 900))]),
                         "policies": [[l, "https://reg.c11.example/policy/%s" % l] for l in langs]})
        e = {"id": eid, "tag": tag, "valid_until": self.vu(now), "roles": roles, "attrs": attrs, "regs": regs}
        if r.random() < 0.25:
            e["unk_ext"] = r.sample(range(len(UNK_EXT)), r.randint(1, 2))
        if len(attrs) >= 2 and r.random() < 0.4:
            e["attr_split"] = r.randint(1, len(attrs) - 1)
        return e

    def doc(self, now, single=None, eids=None):
        r = self.rng
        if single is None:
            single = r.random() < 0.25
        c = r.randrange(8)
        sig = "unsigned" if c < 4 else "valid" if c < 6 else "tampered" if c == 6 else "wrongkey"
        d = {"group": not single, "valid_until": None, "sig": sig, "embed": r.random() < 0.4, "doc_id": self.tag("g"),
             "enc": r.choice(ENCODINGS), "as_str": r.random() < 0.5}
        if single:
            d["entities"] = [self.ent(r.choice(eids or self.eids), now, True)]
        else:
            c = r.randrange(12)
            d["valid_until"] = None if c < 8 else now + [3600, 0, -1, -86400][c - 8]
            pool = eids or self.eids
            n = r.choice([1, 1, 2, 2, 3, 3, 4, 5, 6])
            d["entities"] = [self.ent(r.choice(pool), now, False) for _ in range(n)]
        return d

    def fetch(self, now, kind, fail=None):
        r = self.rng
        if fail is None:
            c = r.randrange(20)
            fail = "unavailable" if c == 0 else "malformed" if c == 1 else None
        if fail == "unavailable" and kind != "inline":
            f = {"t": "unavailable", "how": r.choice(["404", "500", "503"]) if kind in ("remote", "mdq") else "missing"}
            if kind == "remote" and r.random() < 0.7:
                f["body_doc"] = self.doc(now)  # an error status whose body is perfectly good metadata
            f["ctype"] = r.choice(CTYPES)
            return f
        if fail in ("malformed", "unavailable"):
            return {"t": "malformed", "text": r.choice(["<md:EntitiesDescriptor", "", "not xml at all <<", "<a><b></a>"]),
                    "ctype": r.choice(CTYPES)}
        return {"t": "doc", "doc": self.doc(now), "ctype": r.choice(CTYPES)}

    def spec(self, now, i, kind=None, fail=None):
        r = self.rng
        kind = kind or r.choice(["file", "file", "file", "inline", "inline", "remote", "remote", "remote", "mdq", "loader"])
        key = {"file": "file-%d.xml", "inline": "inline-%d", "loader": "loader-%d",
               "remote": "https://remote%d.c11.example/md", "mdq": "https://mdq%d.c11.example"}[kind] % i
        if kind == "inline":  # inline sources are registered under a counter / their own text: never equal
            key = self.tag("inline-")
        sp = {"key": key, "kind": kind, "cert": kind in ("file", "remote", "mdq") and r.random() < 0.5,
              "chk": True, "fresh": 0, "fetch": {"t": "unavailable", "how": "n/a"}}
        if kind == "mdq":
            sp["cert"] = self.mdq_cert.setdefault(key, sp["cert"])
            sp["fresh"] = r.choice([600, 3600, 43200])
            if not sp["cert"] and r.random() < 0.3:   # {"mdq": ["https://..."]}: the URL alone, everything default
                sp["form"] = "positional"
                sp["fresh"] = _st["default_fresh"]
        elif kind != "loader":
            sp["fetch"] = self.fetch(now, kind, fail)
            if kind == "remote" and r.random() < 0.15:
                sp["chk"] = False
            if kind == "remote" and r.random() < 0.35:   # old style only: an explicit node_name (that of the root)
                sp["node_name"] = True
        return sp

    def break_spec(self, sp, now):
        """make the load of this source fail in one of the ways of the quantifier"""
        r = self.rng
        how = r.choice(["unavailable", "malformed", "signature", "too-old"])
        if sp["kind"] in ("mdq", "loader"):
            sp["kind"] = "loader"
            sp["key"] = sp["key"] + "#loader"
            sp["cert"] = False
            sp.pop("form", None)
            return
        if how == "signature" and sp["kind"] in ("file", "remote"):
            sp["cert"] = True
            d = self.doc(now)
            d["sig"] = r.choice(["tampered", "wrongkey"])
            sp["fetch"] = {"t": "doc", "doc": d}
        elif how == "too-old":
            d = self.doc(now, single=False)
            d["valid_until"] = now - r.choice([1, 3600])
            sp["chk"] = True
            sp["fetch"] = {"t": "doc", "doc": d}
        else:
            sp["fetch"] = self.fetch(now, sp["kind"], "malformed" if how != "unavailable" else "unavailable")

    def specs(self, now, fail_at=None):
        r = self.rng
        n = r.choice([1, 1, 2, 2, 2, 3, 3])
        self.force_dirs = r.random() < 0.15
        if self.force_dirs:   # several local directories with the same file names (plus, sometimes, another source)
            n = r.choice([2, 3, 3, 4])
            sps = [self.spec(now, i, kind="file" if i < n - 1 or r.random() < 0.6 else None) for i in range(n)]
        else:
            sps = [self.spec(now, i) for i in range(n)]
        if fail_at is not None and fail_at < n:
            self.break_spec(sps[fail_at], now)
        style = "new"
        if any(s["kind"] == "mdq" or not s["chk"] for s in sps) or r.random() < 0.4 or \
                (any(s["kind"] == "loader" for s in sps) and r.random() < 0.5):
            style = "old"
            order = []
            for s in sps:  # an old-style specification is a dict type -> sources: same types are contiguous
                if s["kind"] not in order:
                    order.append(s["kind"])
            sps.sort(key=lambda s: order.index(s["kind"]))
            for s in sps:
                if s["kind"] == "file":
                    s["cert"] = False  # {"local": [...]} cannot name a certificate
        else:
            for s in sps:
                s["chk"] = True
        if self.force_dirs:
            style = "old" if r.random() < 0.8 else style
            for s in sps:
                s["force_dirs"] = True
        return sps, style

    def shape(self, op):
        """choose the CONFIGURATION FORM of the sources of one imp / reload (the abstract source list and its
        order stay what they are): old-style type grouping, MetaDataMD dump files, local directories"""
        r = self.rng
        sps = op["specs"]
        if any([s.pop("force_dirs", False) for s in sps]):
            op["force_dirs"] = True
        for s in sps:
            if s["kind"] == "file" and r.random() < 0.15 and not op.get("force_dirs"):
                s["form"] = "mdfile"      # a dump of already digested metadata: {"mdfile": [...]} / MetaDataMD
                s["cert"] = False
        for s in sps:   # a source that cannot be constructed: every way the configuration can be wrong
            if s["kind"] == "loader" and "form" not in s:
                s["form"] = r.choice(["loader", "remote-no-url", "remote-not-a-dict", "unknown-type"] if op["style"] == "old"
                                     else ["loader", "no-class", "unknown-loader", "unknown-module", "no-metadata"])
        if op["style"] == "old":
            order = []
            for s in sps:  # an old-style specification is a dict type -> sources: same types are contiguous
                if _cfgtype(s) not in order:
                    order.append(_cfgtype(s))
            sps.sort(key=lambda s: order.index(_cfgtype(s)))
            for s in sps:
                if s["kind"] == "file":
                    s["cert"] = False  # {"local": [...]} cannot name a certificate
        # local directories: a run of consecutive plain-file sources becomes the files of one or more directories.
        # New style (since fix e209f727): a directory entry may be followed by further entries and may name a
        # certificate, which then holds for every file of the directory.
        i, ndir = 0, 0
        while i < len(sps):
            if _cfgtype(sps[i]) != "file":
                i += 1
                continue
            j = i
            while j < len(sps) and _cfgtype(sps[j]) == "file":
                j += 1
            k = i
            while k < j:
                force = op.get("force_dirs")
                size = r.randint(1, min(2, j - k)) if force else r.randint(1, j - k)
                group = sps[k:k + size]
                if force or r.random() < 0.45:
                    dname = "dir%s" % "ABCDEF"[ndir % 6]
                    ndir += 1
                    dcert = op["style"] == "new" and r.random() < 0.4
                    for s, name in zip(group, r.sample(FILE_NAMES[:2] if force else FILE_NAMES, len(group))):
                        s["dir"] = dname
                        s["cert"] = dcert
                        s["key"] = "%s/%s" % (dname, name)   # same file names recur in different directories
                        if s["fetch"]["t"] == "unavailable":  # a file that is not there is not listed either
                            s["fetch"] = {"t": "malformed", "text": "<broken"}
                k += size
            i = j

    # ---- queries

    def sweep(self, eids=None, light=False):
        r = self.rng
        qs = []
        ids = list(eids or self.eids) + ["https://unknown.c11.example/ent"]
        for eid in ids:
            qs.append({"t": "get", "eid": eid})
            for kind in KINDS[:5]:
                for svc, _x, _i, _m in SERVICES[kind]:
                    for b in BINDINGS + [None, "urn:bogus:binding"]:
                        if light and r.random() < 0.8:
                            continue
                        q = {"t": "service", "eid": eid, "kind": kind, "svc": svc, "binding": b}
                        if b is not None and r.random() < 0.3 and svc in ("single_sign_on_service", "assertion_consumer_service", "single_logout_service"):
                            q["via"] = "wrapper"
                        qs.append(q)
            for use in ("signing", "encryption", "other"):
                for kind in [None] + KINDS[:5]:
                    if kind is not None and (light or r.random() < 0.5):
                        continue
                    qs.append({"t": "certs", "eid": eid, "kind": kind, "use": use})
            qs.append({"t": "attr_req", "eid": eid, "index": None})
            qs.append({"t": "attr_req", "eid": eid, "index": r.choice(["0", "1", "7"])})
            qs.append({"t": "cats", "eid": eid})
            qs.append({"t": "reg", "eid": eid})
        qs.append({"t": "keys"})
        qs.append({"t": "items"})
        for kind in KINDS:
            qs.append({"t": "with_desc", "kind": kind})
        return qs

    def adjust(self, steps):
        """keep the case inside its mode: unsigned documents meet a certificate only in mode f9"""
        for st in steps:
            op = st["op"]
            for sp in op.get("specs", []):
                f = sp["fetch"]
                if f["t"] == "doc" and sp["cert"] and sp["kind"] != "inline" and f["doc"]["sig"] == "unsigned":
                    if self.mode != "f9":
                        if sp.get("dir") or self.rng.random() < 0.5:   # a directory's certificate is the entry's
                            f["doc"]["sig"] = "valid"
                        else:
                            sp["cert"] = False
            for m in st.get("mdq") or []:
                f = m["fetch"]
                if f["t"] == "doc" and self.mdq_cert.get(m["src"]):
                    if f["doc"]["sig"] == "unsigned" and self.mode != "f9":
                        f["doc"]["sig"] = "valid"


def _cfgtype(s):
    f = s.get("form")
    if s["kind"] == "loader":
        return {"remote-no-url": "remote", "remote-not-a-dict": "remote", "unknown-type": "bogus"}.get(f, "loader")
    return "mdfile" if f == "mdfile" else s["kind"]


def _eff_filter(store, style, s):
    """the store's filter as far as it reaches the source built for `s`: MetadataStore.load hands it to local
    files and remote sources (not to inline, mdq), class-style imp to every class; MetaDataMD.load never
    runs do_entity_descriptor"""
    if not store.get("filter") or _cfgtype(s) in ("mdfile", "mdq", "loader", "bogus") or s["kind"] in ("mdq", "loader"):
        return None
    if style == "old" and s["kind"] == "inline":
        return None
    f = store["filter"]
    return {"drop": f["drop"], "need": f["need"], "strip": f["strip"]}


def case_of(g, steps):
    for st in steps:
        if "specs" in st["op"]:
            g.shape(st["op"])
    g.adjust(steps)
    for st in steps:    # what the store's own settings mean for each source (see _eff_filter; imp, old style:
        op = st["op"]   # `if not self.check_validity: val["check_validity"] = False` reaches the dict entries)
        for s in op.get("specs", []):
            if not g.store["chk"] and op["style"] == "old" and s["kind"] == "remote":
                s["chk"] = False
            if op["style"] != "old":
                s.pop("node_name", None)
            s["filt"] = _eff_filter(g.store, op["style"], s)
    return {"consts": _st["c"], "mode": g.mode, "store": g.store, "steps": steps}


def qsteps(now, qs, mdq=None):
    out = []
    for i, q in enumerate(qs):
        st = {"now": now, "op": {"t": "q", "q": q}}
        if i == 0 and mdq is not None:
            st["mdq"] = mdq
        out.append(st)
    return out


def gen_load_case(g):
    r = g.rng
    now = g.now
    n_fail = r.choice([None, None, 0, 1, 2])
    sps, style = g.specs(now, n_fail)
    steps = [{"now": now, "mdq": [], "op": {"t": "imp", "style": style, "specs": sps}}]
    mdq = g.mdq_answers(now, sps) if hasattr(g, "mdq_answers") else []
    steps += qsteps(now, g.sweep(), mdq)
    if r.random() < 0.4:  # a second imp on top (MetadataStore.load adds to what is there)
        now2 = now + r.choice([1, 3600])
        sps2, style2 = g.specs(now2, r.choice([None, 0, 1]))
        steps.append({"now": now2, "op": {"t": "imp", "style": style2, "specs": sps2}})
        steps += qsteps(now2, g.sweep(light=True), g.mdq_answers(now2, sps + sps2))
    return case_of(g, steps)


def gen_reload_case(g):
    r = g.rng
    now = g.now
    sps, style = g.specs(now, None)
    steps = [{"now": now, "mdq": [], "op": {"t": "imp", "style": style, "specs": sps}}]
    steps += qsteps(now, g.sweep(light=True), g.mdq_answers(now, sps))
    cur = sps
    for _round in range(r.choice([1, 1, 2, 3])):
        now += r.choice([1, 60, 3600, 100000])
        if r.random() < 0.35:   # same configuration again, sources now answering differently
            sps2 = json.loads(json.dumps(cur))
            style2 = style
            for sp in sps2:
                if sp["kind"] not in ("mdq", "loader"):
                    sp["fetch"] = g.fetch(now, sp["kind"])
            k = r.choice([None] + list(range(len(sps2))))
            if k is not None:
                g.break_spec(sps2[k], now)
                if sps2[k]["kind"] == "loader":
                    style2 = "old"
                    order = []
                    for s in sps2:
                        if s["kind"] not in order:
                            order.append(s["kind"])
                    sps2.sort(key=lambda s: order.index(s["kind"]))
            if style2 == "old":
                for s in sps2:
                    if s["kind"] == "file":
                        s["cert"] = False
        else:
            k = r.choice([None, None, 0, 1, 2])
            sps2, style2 = g.specs(now, k)
        steps.append({"now": now, "op": {"t": "reload", "style": style2, "specs": sps2}})
        steps += qsteps(now, g.sweep(light=r.random() < 0.6), g.mdq_answers(now, cur + sps2))
        style = style2
        cur = sps2
    return case_of(g, steps)


def gen_mdq_case(g):
    r = g.rng
    now = g.now
    sps = []
    n_other = r.choice([0, 0, 1, 2])
    pos = r.randint(0, n_other)
    for i in range(n_other + 1):
        sps.append(g.spec(now, i, kind="mdq" if i == pos else r.choice(["file", "inline", "remote"])))
    if r.random() < 0.25:
        sps.append(g.spec(now, len(sps), kind="mdq"))
    order = []
    for s in sps:
        if s["kind"] not in order:
            order.append(s["kind"])
    sps.sort(key=lambda s: order.index(s["kind"]))
    for s in sps:
        if s["kind"] == "file":
            s["cert"] = False
    steps = [{"now": now, "mdq": [], "op": {"t": "imp", "style": "old", "specs": sps}}]
    for _round in range(r.choice([2, 3, 4, 5])):
        mdq = g.mdq_answers(now, sps)
        eids = g.eids + ["https://unknown.c11.example/ent"]
        qs = []
        for _ in range(r.randint(1, 5)):
            eid = r.choice(eids)
            c = r.randrange(8)
            if c < 4:
                qs.append({"t": "get", "eid": eid})
            elif c == 4:
                qs.append({"t": "service", "eid": eid, "kind": "idpsso", "svc": "single_sign_on_service",
                           "binding": r.choice(BINDINGS + [None])})
            elif c == 5:
                qs.append({"t": "certs", "eid": eid, "kind": None, "use": "signing"})
            elif c == 6:
                qs.append({"t": "attr_req", "eid": eid, "index": None})
            else:
                qs.append({"t": "cats", "eid": eid})
            qs += [{"t": "keys"}, {"t": "items"}]
            if r.random() < 0.5:
                qs.append({"t": "with_desc", "kind": r.choice(KINDS)})
        steps += qsteps(now, qs, mdq)
        if r.random() < 0.4:
            steps += qsteps(now, g.sweep(light=True))
        fresh = [s["fresh"] for s in sps if s["kind"] == "mdq"]
        now += r.choice([0, 1, 60, fresh[0] - 1, fresh[0], fresh[0] + 1, fresh[0] + 1, 2 * fresh[0], 100000])
        if r.random() < 0.2:
            k = r.choice([None, None, 0, 1])
            sps2, style2 = g.specs(now, k)
            steps.append({"now": now, "op": {"t": "reload", "style": style2, "specs": sps2}})
            if any(s["kind"] == "mdq" for s in sps2) and k is None:
                sps = sps2
    return case_of(g, steps)


def _mdq_answers(self, now, sps):
    """answers of every MDQ server of the scenario for every entity id, at this instant"""
    r = self.rng
    out = []
    for key in sorted({s["key"] for s in sps if s["kind"] == "mdq"}):
        for eid in self.eids:
            c = r.randrange(12)
            if c < 2:
                continue  # 404 (no entry = unavailable)
            if c == 2:
                f = {"t": "unavailable", "how": r.choice(["500", "404", "503"]), "ctype": r.choice(CTYPES)}
                if r.random() < 0.7:
                    f["body_doc"] = self.doc(now, single=True, eids=[eid])
                    f["body_doc"]["sig"] = "valid"
                out.append({"src": key, "eid": eid, "fetch": f})
            elif c == 3:
                out.append({"src": key, "eid": eid, "fetch": {"t": "malformed", "text": "<broken", "ctype": r.choice(CTYPES)}})
            elif c == 4 and not self.mdq_cert.get(key):
                # an (unsigned) EntitiesDescriptor as MDQ answer: repeated / expired occurrences of the entity,
                # possibly past the group's own validUntil
                d = self.doc(now, single=False, eids=[eid])
                d["sig"] = "unsigned"
                out.append({"src": key, "eid": eid, "fetch": {"t": "doc", "doc": d, "ctype": r.choice(CTYPES)}})
            else:
                d = self.doc(now, single=True, eids=[eid])
                out.append({"src": key, "eid": eid, "fetch": {"t": "doc", "doc": d, "ctype": r.choice(CTYPES)}})
    return out


G.mdq_answers = _mdq_answers


def gen_cases(rng, tier):
    _st["c"] = consts()
    _st["default_fresh"] = default_fresh()
    n = 360 if tier == "quick" else 4000
    for i in range(n):
        g = G(rng, tier)
        c = rng.randrange(10)
        if c < 3:
            yield gen_load_case(g)
        elif c < 6:
            yield gen_reload_case(g)
        else:
            yield gen_mdq_case(g)


# ------------------------------------------------------------------ implementation side


def _resp(code, content, ctype=None, url=None):
    """a real requests Response, set up the way the HTTP adapter does (so .text goes by the header charset)"""
    from requests.models import Response
    from requests.utils import get_encoding_from_headers

    r = Response()
    r.status_code = code
    r._content = content
    r.url = url
    if ctype:
        r.headers["Content-Type"] = ctype
    r.encoding = get_encoding_from_headers(r.headers)
    return r


def _content(f):
    """(status, body bytes, Content-Type) a stubbed server returns for an abstract fetch outcome"""
    if f["t"] == "doc":
        return 200, doc_bytes(f["doc"]), f.get("ctype")
    if f["t"] == "malformed":
        return 200, f.get("text", "<broken").encode("utf-8"), f.get("ctype")
    status = int(f.get("how", "404")) if f.get("how", "404").isdigit() else 404
    return status, (doc_bytes(f["body_doc"]) if f.get("body_doc") else b""), f.get("ctype")


class _OsShim:
    """stands in for `os` inside saml2.mdstore: the listing ORDER of a metadata directory is the case's"""

    def __init__(self):
        self.listing = {}

    def listdir(self, path):
        return list(self.listing[path]) if path in self.listing else os.listdir(path)

    def __getattr__(self, k):
        return getattr(os, k)


class _Requests:
    """stands in for the `requests` module inside saml2.mdstore (MetaDataMDX._fetch_metadata)"""

    def __init__(self):
        self.answers = {}

    def get(self, url, headers=None, timeout=None, **kw):
        return _resp(*self.answers.get(url, (404, b"", None)), url=url)


def _mdq_url(src, eid):
    from saml2.mdstore import MetaDataMDX

    return "%s/entities/%s" % (src.rstrip("/"), MetaDataMDX.sha1_entity_transform(eid))


MD_NS = "urn:oasis:names:tc:SAML:2.0:metadata:"


def _build_spec(op, tmp, remote, listing, store=None):
    """abstract source list -> the configuration value MetadataStore.imp / reload takes"""
    from saml2.mdstore import InMemoryMetaData

    store = store or {"filter": None, "chk": True}
    old, new = {}, []
    seen_dirs = set()
    for sp in op["specs"]:
        kind, f = sp["kind"], sp["fetch"]
        cert = S.cert_path(FED_KEY) if sp["cert"] else None
        form = sp.get("form")
        if kind == "loader" and form not in (None, "loader"):
            # a source the store cannot even construct: each way the configuration value can be wrong
            if form == "remote-no-url":
                old.setdefault("remote", []).append({"cert": S.cert_path(FED_KEY), "check_validity": False})
            elif form == "remote-not-a-dict":
                old.setdefault("remote", []).append("https://plain.c11.example/md")
            elif form == "unknown-type":
                old.setdefault("bogus", []).append(os.path.join(tmp, "nothing.xml"))
            else:
                old.setdefault("loader", []).append(lambda: b"")
            if form == "no-class":
                new.append({"metadata": [(os.path.join(tmp, "nothing.xml"),)]})
            elif form == "unknown-loader":
                new.append({"class": "saml2.mdstore.NoSuchLoader", "metadata": [(os.path.join(tmp, "nothing.xml"),)]})
            elif form == "unknown-module":
                new.append({"class": "saml2.no_such_module_c11.Loader", "metadata": [(os.path.join(tmp, "nothing.xml"),)]})
            elif form == "no-metadata":
                new.append({"class": "saml2.mdstore.MetaDataFile"})
            else:
                new.append({"class": "saml2.mdstore.MetaDataLoader", "metadata": [(lambda: b"",)]})
            continue
        if kind == "file" and sp.get("dir"):
            dpath = os.path.join(tmp, sp["dir"])
            if dpath not in seen_dirs:      # first file of the directory: start from an empty directory
                seen_dirs.add(dpath)
                shutil.rmtree(dpath, ignore_errors=True)
                os.makedirs(dpath)
                listing[dpath] = []
                old.setdefault("local", []).append(dpath)
                new.append({"class": "saml2.mdstore.MetaDataFile", "metadata": [(dpath, cert) if cert else (dpath,)]})
            name = sp["key"].split("/", 1)[1]
            listing[dpath].append(name)
            with open(os.path.join(dpath, name), "wb") as fp:
                fp.write(_content(f)[1])
        elif kind == "file" and sp.get("form") == "mdfile":
            path = os.path.join(tmp, sp["key"])
            if f["t"] == "unavailable":
                if os.path.exists(path):
                    os.remove(path)
            else:
                dump = b"this is not a metadata dump"
                if f["t"] == "doc":   # the dump pysaml2 itself writes for this document, made at this instant
                    try:
                        m = InMemoryMetaData(_st["attrc"], doc_bytes(f["doc"]))
                        m.load()
                        dump = m.dumps().encode("utf-8")
                    except Exception:  # a document that cannot be digested leaves no usable dump
                        pass
                with open(path, "wb") as fp:
                    fp.write(dump)
            old.setdefault("mdfile", []).append(path)
            new.append({"class": "saml2.mdstore.MetaDataMD", "metadata": [(path,)]})
        elif kind == "file":
            path = os.path.join(tmp, sp["key"])
            if f["t"] == "unavailable":
                if os.path.exists(path):
                    os.remove(path)
            else:
                with open(path, "wb") as fp:
                    fp.write(_content(f)[1])
            old.setdefault("local", []).append(path)
            new.append({"class": "saml2.mdstore.MetaDataFile", "metadata": [(path, cert) if cert else (path,)]})
        elif kind == "inline":
            text = _content(f)[1]
            if f["t"] != "doc" or (f["doc"].get("as_str") and f["doc"].get("enc", "utf-8") in ("utf-8", "utf-8-nodecl")):
                text = text.decode("utf-8")   # inline metadata is usually configured as str
            old.setdefault("inline", []).append(text)
            new.append({"class": "saml2.mdstore.InMemoryMetaData", "metadata": [(text,)]})
        elif kind == "loader":
            fn = lambda: b""  # never called: MetaDataLoader cannot be constructed
            old.setdefault("loader", []).append(fn)
            new.append({"class": "saml2.mdstore.MetaDataLoader", "metadata": [(fn,)]})
        elif kind == "remote":
            remote[sp["key"]] = _content(f)
            d = {"url": sp["key"]}
            if cert:
                d["cert"] = cert
            if not sp["chk"] and store["chk"]:   # a store built with check_validity=False writes the entry itself
                d["check_validity"] = False
            if sp.get("node_name"):
                single = f["t"] == "doc" and not f["doc"]["group"]
                d["node_name"] = MD_NS + ("EntityDescriptor" if single else "EntitiesDescriptor")
            old.setdefault("remote", []).append(d)
            new.append({"class": "saml2.mdstore.MetaDataExtern", "metadata": [(sp["key"], cert) if cert else (sp["key"],)]})
        elif form == "positional":
            old.setdefault("mdq", []).append(sp["key"])
        else:
            d = {"url": sp["key"], "freshness_period": "PT%dS" % sp["fresh"]}
            if cert:
                d["cert"] = cert
            old.setdefault("mdq", []).append(d)
    return old if op.get("style") == "old" else new


EA_CLASS = "urn:oasis:names:tc:SAML:metadata:attribute&EntityAttributes"


def _make_filter(fd):
    """the callable a store is constructed with, from its description: dict -> dict | None / {}"""
    if not fd:
        return None

    def flt(ent):
        if ent.get("entity_id") in fd["drop"]:
            return {} if fd.get("empty") else None
        if fd.get("need"):
            name, val = fd["need"]
            found = False
            for elem in (ent.get("extensions") or {}).get("extension_elements", []):
                if elem.get("__class__") != EA_CLASS:
                    continue
                for attr in elem.get("attribute", []):
                    if attr.get("name") == name and any(v.get("text") == val for v in attr.get("attribute_value", [])):
                        found = True
            if not found:
                return {} if fd.get("empty") else None
        for k in fd["strip"]:
            ent.pop(k + "_descriptor", None)
        return ent

    return flt


def _kinds(ent):
    out = []
    for k in KINDS:
        v = ent.get(k + "_descriptor")
        out.append(len(v) if isinstance(v, list) else (1 if v else 0))
    return out


def _ep(svc, d):
    return {"svc": svc, "binding": d.get("binding"), "location": d.get("location"), "index": d.get("index")}


def _query(store, q):
    from saml2.s_utils import UnknownSystemEntity, UnsupportedBinding

    t = q["t"]
    try:
        if t == "get":
            e = store[q["eid"]]
            return {"a": "ent", "tag": e.get("id"), "kinds": _kinds(e)}
        if t == "service":
            typ = q["kind"] + "_descriptor"
            if q.get("via") == "wrapper" and q["svc"] == "single_sign_on_service" and q["kind"] == "idpsso":
                res = store.single_sign_on_service(q["eid"], q["binding"])
            elif q.get("via") == "wrapper" and q["svc"] == "assertion_consumer_service" and q["kind"] == "spsso":
                res = store.assertion_consumer_service(q["eid"], q["binding"])
            elif q.get("via") == "wrapper" and q["svc"] == "single_logout_service" and q["kind"] in ("spsso", "idpsso"):
                res = store.single_logout_service(q["eid"], q["binding"], q["kind"])
            else:
                res = store.service(q["eid"], typ, q["svc"], q["binding"])
            if isinstance(res, dict):
                res = [s for l in res.values() for s in l]
            return {"a": "eps", "l": [_ep(q["svc"], s) for s in res]}
        if t == "certs":
            res = store.certs(q["eid"], q["kind"] or "any", q["use"])
            return {"a": "strs", "l": [_st["cert_name"].get("".join(c.split()), "?") for _n, c in res]}
        if t == "attr_req":
            res = store.attribute_requirement(q["eid"], q["index"])
            if res is None:
                return {"a": "missing"}
            return {"a": "req", "required": [a["name"] for a in res["required"]],
                    "optional": [a["name"] for a in res["optional"]]}
        if t == "cats":
            return {"a": "strs", "l": list(store.entity_categories(q["eid"]))}
        if t == "reg":
            res = store.registration_info(q["eid"])
            if res["registration_authority"] is None and res["registration_instant"] is None and not res["registration_policy"]:
                return {"a": "reg", "r": None}
            return {"a": "reg", "r": {"authority": res["registration_authority"], "instant": res["registration_instant"],
                                      "policies": [[l, x] for l, x in res["registration_policy"].items()]}}
        if t == "keys":
            return {"a": "strs", "l": list(store.keys())}
        if t == "items":
            return {"a": "ents", "l": [[k, v.get("id")] for k, v in store.items()]}
        if t == "with_desc":
            return {"a": "ents", "l": [[k, v.get("id")] for k, v in store.with_descriptor(q["kind"]).items()]}
    except (KeyError, UnknownSystemEntity):
        return {"a": "missing"}
    except UnsupportedBinding:
        return {"a": "unsupported"}
    except Exception:  # raised by the code under test (SignatureError, SAMLError, ToOld, ... from an MDQ fetch)
        return {"a": "raised"}
    raise ValueError(t)


def run_impl(case):
    import saml2.mdstore as M
    from saml2.mdstore import MetadataStore

    tmp = tempfile.mkdtemp(prefix="verif-c11-")
    req = _Requests()
    real_requests, real_os = M.requests, M.os
    M.requests = req
    M.os = _OsShim()
    remote = {}
    obs = []
    quiet = contextlib.redirect_stderr(io.StringIO())  # do_entity_descriptor prints every repeated entityID
    quiet.__enter__()
    try:
        cfg = case.get("store") or {"filter": None, "chk": True}
        store = MetadataStore(_st["attrc"], _st["conf"], filter=_make_filter(cfg.get("filter")),
                              check_validity=cfg.get("chk", True))
        store.http.send = lambda url, **kw: _resp(*remote.get(url, (404, b"", None)), url=url)
        for st in case["steps"]:
            if st.get("mdq") is not None:
                req.answers = {_mdq_url(m["src"], m["eid"]): _content(m["fetch"]) for m in st["mdq"]}
            op = st["op"]
            with S.clock(st["now"]):
                if op["t"] in ("imp", "reload"):
                    spec = _build_spec(op, tmp, remote, M.os.listing, cfg)
                    try:
                        if op["t"] == "imp":
                            store.imp(spec)
                        else:
                            store.reload(spec)
                        obs.append({"a": "done", "ok": True})
                    except Exception:  # whatever the code under test raises for a source it cannot load
                        obs.append({"a": "done", "ok": False})
                else:
                    obs.append(_query(store, op["q"]))
    finally:
        quiet.__exit__(None, None, None)
        M.requests, M.os = real_requests, real_os
        shutil.rmtree(tmp, ignore_errors=True)
    return {"obs": obs}


# ------------------------------------------------------------------ verdict helpers


def compare(case, impl, model):
    return model is not None and impl["obs"] == model.get("obs")


def _features(case):
    """which inputs of the known root-cause classes the history contains"""
    f9 = f11 = False
    mdq_cert = set()
    for st in case["steps"]:
        for sp in st["op"].get("specs", []):
            f = sp["fetch"]
            if sp["kind"] == "mdq" and sp["cert"]:
                mdq_cert.add(sp["key"])
            if sp["kind"] in ("file", "remote") and sp["cert"] and f["t"] == "doc" and f["doc"]["sig"] == "unsigned":
                f9 = True
    for st in case["steps"]:
        for m in st.get("mdq") or []:
            f = m["fetch"]
            if f["t"] == "doc" and m["src"] in mdq_cert:
                if f["doc"]["sig"] == "unsigned":
                    f9 = True
                elif f["doc"]["sig"] != "valid":
                    f11 = True
    return f9, f11


def _pre_e209f727(case):
    """the history as new-style imp treated it BEFORE fix e209f727: the import ended after the first directory
    entry and the directory's files were loaded without the entry's certificate; None = no such input"""
    c = json.loads(json.dumps(case))
    hit = False
    for st in c["steps"]:
        op = st["op"]
        if op.get("style") != "new" or "specs" not in op:
            continue
        sps = op["specs"]
        first = next((i for i, sp in enumerate(sps) if sp.get("dir")), None)
        if first is None:
            continue
        end = first
        while end < len(sps) and sps[end].get("dir") == sps[first]["dir"]:
            end += 1
        if end < len(sps) or any(sp["cert"] for sp in sps[first:end]):
            hit = True
        for sp in sps[first:end]:
            sp["cert"] = False
        op["specs"] = sps[:end]
    return c if hit else None


def finding_key(case, impl, lean):
    """A failing history is attributed to a root-cause class only if (a) it contains an input of that
    class and (b) the implementation's observations are exactly what the reference machine gives once
    that ONE departure is granted (computed by the Lean driver).  F9 is a `known` record; the other
    classes are `fixed` (85b6178b, e209f727): naming them suppresses nothing, it tells the reader which
    old defect is back."""
    why = lean.get("why") or {}
    f9, f11 = _features(case)
    if f9 and why.get("holds_if_unsigned_passes") is True:
        return "C11/unsigned-document-served-despite-cert"
    if f11 and why.get("holds_if_mdq_stores_first") is True:
        return "C11/mdq-failed-verification-leaves-entity"
    old = _pre_e209f727(case)
    if old is not None:
        import runner

        ans = runner.run_driver(DRIVER, [{"case": old, "impl": impl}])[0]
        if ans.get("spec_impl") is True or (ans.get("why") or {}).get("holds_if_unsigned_passes") is True:
            return "C11/directory-entry-ends-import-and-drops-certificate"
    return None


def nontrivial(case, impl, lean):
    return any(o.get("a") == "ent" for o in impl.get("obs", []))


def _without(case, drop):
    """the case minus the steps whose index is in `drop`; the stub answers of a dropped step move on"""
    out, pending = [], None
    for i, st in enumerate(case["steps"]):
        if i in drop:
            if st.get("mdq") is not None:
                pending = st["mdq"]
            continue
        st = dict(st)
        if pending is not None and st.get("mdq") is None:
            st["mdq"] = pending
        pending = None
        out.append(st)
    return dict(case, steps=out)


def shrink(case):
    """few, aggressive candidates first (the runner evaluates all of them in every round)"""
    steps = case["steps"]
    qidx = [i for i, st in enumerate(steps) if st["op"]["t"] == "q"]
    n, size = 0, len(qidx)
    while size >= 1 and n < 36:            # delta debugging over the lookups
        for start in range(0, len(qidx), size):
            yield _without(case, set(qidx[start:start + size]))
            n += 1
        size //= 2
    for i, st in enumerate(steps):          # a mutating step
        if st["op"]["t"] != "q" and len(steps) > 1:
            yield _without(case, {i})
    cfg = case.get("store") or {}
    if cfg.get("filter") or cfg.get("chk") is False:      # the store's own settings, one at a time
        for part in ("filter", "chk", "drop", "need", "strip"):
            c = json.loads(json.dumps(case))
            fd = c["store"].get("filter")
            if part == "filter" and fd:
                c["store"]["filter"] = None
            elif part == "chk" and cfg.get("chk") is False and not any(
                    not sp["chk"] for st in steps for sp in st["op"].get("specs", [])):
                c["store"]["chk"] = True
            elif part == "drop" and fd and fd["drop"]:
                fd["drop"] = []
            elif part == "need" and fd and fd["need"]:
                fd["need"] = None
            elif part == "strip" and fd and fd["strip"]:
                fd["strip"] = []
            else:
                continue
            for st in c["steps"]:
                op = st["op"]
                for sp in op.get("specs", []):
                    sp["filt"] = _eff_filter(c["store"], op.get("style"), sp)
            yield c
    n = 0
    for i, st in enumerate(steps):
        op = st["op"]
        for j, sp in enumerate(op.get("specs", [])):
            if len(op["specs"]) > 1 and n < 40:
                c = json.loads(json.dumps(case))
                del c["steps"][i]["op"]["specs"][j]
                n += 1
                yield c
        docs = [("op", j, sp["fetch"]["doc"]) for j, sp in enumerate(op.get("specs", [])) if sp["fetch"]["t"] == "doc"]
        docs += [("mdq", j, m["fetch"]["doc"]) for j, m in enumerate(st.get("mdq") or []) if m["fetch"]["t"] == "doc"]
        if st.get("mdq") and n < 60:
            for j in range(len(st["mdq"])):
                c = json.loads(json.dumps(case))
                del c["steps"][i]["mdq"][j]
                n += 1
                yield c
        for where, j, d in docs:
            def doc_of(c):
                return (c["steps"][i]["op"]["specs"][j] if where == "op" else c["steps"][i]["mdq"][j])["fetch"]["doc"]
            for k, e in enumerate(d["entities"]):
                if n >= 90:
                    return
                if len(d["entities"]) > 1:
                    c = json.loads(json.dumps(case))
                    del doc_of(c)["entities"][k]
                    n += 1
                    yield c
                for x in range(len(e["roles"])):
                    if len(e["roles"]) > 1:
                        c = json.loads(json.dumps(case))
                        del doc_of(c)["entities"][k]["roles"][x]
                        n += 1
                        yield c
                if e["attrs"] or e["regs"] or any(r["keys"] or r["req_attrs"] for r in e["roles"]):
                    c = json.loads(json.dumps(case))
                    ee = doc_of(c)["entities"][k]
                    ee["attrs"], ee["regs"] = [], []
                    ee.pop("attr_split", None)
                    for r in ee["roles"]:
                        r["keys"], r["req_attrs"] = [], []
                    n += 1
                    yield c


def distribution(recs):
    d = {"steps": 0, "ops": {}, "answers": {}, "branches": {}, "modes": {}, "sources": {}, "sig_x_cert": {}, "store": {}}
    for r in recs:
        case = r["case"]
        cfg = case.get("store") or {}
        for k2 in (["filter"] if cfg.get("filter") else ["no-filter"]) + ([] if cfg.get("chk", True) else ["check_validity=False"]):
            d["store"][k2] = d["store"].get(k2, 0) + 1
        d["modes"][case.get("mode", "corpus")] = d["modes"].get(case.get("mode", "corpus"), 0) + 1
        for st, o in zip(case["steps"], r["impl"].get("obs", [])):
            d["steps"] += 1
            op = st["op"]
            k = op["t"] if op["t"] != "q" else "q:" + op["q"]["t"]
            d["ops"][k] = d["ops"].get(k, 0) + 1
            a = k + "->" + (o["a"] if o["a"] != "done" else ("ok" if o["ok"] else "failed"))
            d["answers"][a] = d["answers"].get(a, 0) + 1
            for sp in op.get("specs", []):
                form = "%s%s/%s" % (_cfgtype(sp), "-in-directory" if sp.get("dir") else "", op.get("style"))
                d["sources"][form] = d["sources"].get(form, 0) + 1
                for extra in ([sp["kind"] + ":" + sp["form"]] if sp.get("form") not in (None, "mdfile") else []) + \
                        (["remote:node_name"] if sp.get("node_name") else []) + (["with-filter"] if sp.get("filt") else []):
                    d["sources"][extra] = d["sources"].get(extra, 0) + 1
                if sp["fetch"]["t"] == "doc":
                    e = "enc:" + sp["fetch"]["doc"].get("enc", "utf-8")
                    d["sources"][e] = d["sources"].get(e, 0) + 1
                if sp["fetch"]["t"] == "doc":
                    k2 = "%s/%s" % (sp["fetch"]["doc"]["sig"], "cert" if sp["cert"] else "no-cert")
                    d["sig_x_cert"][k2] = d["sig_x_cert"].get(k2, 0) + 1
        for b in r["lean"].get("branches", []):
            d["branches"][b] = d["branches"].get(b, 0) + 1
    for k in ("ops", "answers", "branches", "sources", "sig_x_cert"):
        d[k] = dict(sorted(d[k].items()))
    return d
