"""C18 — name identifiers are stable, pairwise and reversible: correspondence harness.

Real code exercised: saml2.ident.code/decode, IdentDB on a plain dict (persistent_nameid,
transient_nameid, get_nameid, construct_nameid, find_nameid, find_local_id,
handle_name_id_mapping_request, handle_manage_name_id_request, remove_remote, remove_local),
saml2.sdb.SessionStorage + Server.clean_out_user (code() as a storage key), saml2.eptid.Eptid.

Randomness is the only thing replaced: `saml2.ident.rndbytes` draws from the case's seed list (so a
history is replayable and the `while _id in self.db` loop of create_id can be driven into a
collision); the ids the real `_create_id` then computes are recorded and handed to the model as the
candidate stream.  Presented NameIDs refer to earlier results of the same history ("ref"); the
resolved value is recorded with the step."""
import hashlib
import types
import urllib.parse

PROP = "C18"
LEAN_PROPS = "PysamlModel.Props.C18"
MODEL_TARGETS = ["PysamlModel.Model.Ident", "PysamlModel.Spec.C18"]
AUDIT = "PysamlModel/Audit/C18.lean"
DRIVER = "Drivers/C18.lean"
CORRESPONDENCE = ("Drivers/C18.lean vs saml2.ident (code/decode, IdentDB on a dict), saml2.sdb.SessionStorage, "
                  "Server.clean_out_user, saml2.eptid.Eptid")
RULE = ("random histories (<= 60 operations; 1-4 users x 1-4 requesters; names with separators, spaces, %, =, ',', "
        "'__', non-ASCII) compared step by step (result + store delta + statement counts) with the Lean model; "
        "five-field identifiers for code/decode; Eptid call sequences on separator-laden names; "
        "non-trivial = history with >= 1 state-changing step, or codec pair with a non-empty field, or eptid history "
        "with a repeated or colliding call; distinct = distinct case JSON")
TRUSTED = [
    "random id generation (rndbytes/sha256 in IdentDB._create_id): recorded ids are the model's candidate stream; "
    "freshness against identifiers that were removed again rests on randomness",
    "md5 in Eptid.make and sha1 in SessionStorage are taken as injective (digest table supplied by the harness / "
    "model keyed by the code itself)",
    "urllib.parse.quote/unquote are modelled on bytes and checked by exact-output correspondence only",
    "IdentDB on a plain dict (shelve/memcache/mongo back ends are not exercised)",
]
ASSUMPTIONS = [
    "user names are disjoint from issued identifier values (stated in the property); identifier values presented in "
    "requests are non-empty and are not user names; operations name users of the history's user list "
    "(anything else is run for correspondence only: specTrace stops judging at the first out-of-scope operation)",
    "e-mail-format identifiers: id@domain is not yet a key of the store (create_id's loop tests the bare id only)",
    "name-id-mapping requests carry a Format",
    "one Eptid instance serves one provider (idp and secret fixed), called as get(idp, sp, user)",
    "decode() on text that is not an output of code(): index fields are ASCII digit strings or clearly non-numeric, "
    "percent-escapes decode to valid UTF-8",
]
EXHAUSTIVE = False
PARALLEL = False

KNOWN_EPTID = "C18/eptid-cache-key-collision"
KNOWN_REORDER = "C18/manage-reorders-persistent-match"

UNSPEC = "urn:oasis:names:tc:SAML:1.1:nameid-format:unspecified"
FIELDS = ["nq", "spq", "fmt", "spid", "text"]
ATTRS = ["name_qualifier", "sp_name_qualifier", "format", "sp_provided_id", "text"]
ISSUE = ("persistent", "transient", "get_nameid", "construct", "mapping")


def setup():
    import saml2.ident  # noqa: F401  (fail early if the package is not importable)


def _consts():
    from saml2 import saml

    return {"persistent": saml.NAMEID_FORMAT_PERSISTENT, "transient": saml.NAMEID_FORMAT_TRANSIENT,
            "email": saml.NAMEID_FORMAT_EMAILADDRESS}


# ------------------------------------------------------------------ generators

FRAG = ["a", "b", "Z", "0", "7", " ", ",", "=", "%", "/", "~", "-", "_", ".", "__", "%20", "%2C", "%3D", "%25", "0=", ",1=",
        ",4=", "4=x", "é", "ß", "日", "😀", "+", "&", "!", ":", "@", "\t", "\n", "%zz", "%4", "%%"]


def rstr(rng, lo=1, hi=6):
    return "".join(rng.choice(FRAG) for _ in range(rng.randint(lo, hi)))


def rfield(rng):
    c = rng.randrange(8)
    if c == 0:
        return None
    if c == 1:
        return ""
    return rstr(rng)


def rnid(rng):
    return {f: rfield(rng) for f in FIELDS}


def codec_pair(rng):
    a = rnid(rng)
    b = dict(a)
    c = rng.randrange(7)
    if c == 0:
        pass
    elif c == 1:  # empty <-> absent
        for f in FIELDS:
            if not b[f]:
                b[f] = "" if b[f] is None else None
    elif c == 2:
        b[rng.choice(FIELDS)] = rfield(rng)
    elif c == 3:  # injection: try to make one field look like two
        f, g = rng.sample(FIELDS, 2)
        i = FIELDS.index(g)
        v = rstr(rng, 1, 3)
        w = rstr(rng, 1, 3)
        a[f], a[g] = v + "," + str(i) + "=" + w, None
        b[f], b[g] = v, w
    elif c == 4:  # quoted vs raw
        f = rng.choice(FIELDS)
        if a[f]:
            b[f] = urllib.parse.quote(a[f])
    elif c == 5:  # move a value to another field
        f, g = rng.sample(FIELDS, 2)
        b[f], b[g] = a[g], a[f]
    else:
        b = rnid(rng)
    return {"op": "codec", "a": a, "b": b}


def decode_text(rng):
    parts = []
    for _ in range(rng.randint(0, 5)):
        c = rng.randrange(10)
        idx = rng.choice(["0", "1", "2", "3", "4", "4", "5", "9", "12", "007", "", "x", "text"])
        val = rng.choice(["", "abc", urllib.parse.quote(rstr(rng)), "%zz", "%", "%4", "a%2", "%41%42", "%c3%a9", "a b", "%%41"])
        if c == 0:
            parts.append(rng.choice(["", "junk", " ", "4"]))
        elif c == 1:
            parts.append(idx + "=" + val + "=" + val)  # ValueError
        else:
            parts.append(idx + "=" + val)
    return {"op": "decode", "txt": ",".join(parts)}


USERS = ["alice", "bob", "user 1", "u,2", "u=3", "100%", "a__b", "c", "b__c", "jörg", "日本", "x y,z=1%20", "u/4", "0=alice", "4=bob",
         "a", "carol@example.com", "d e"]
SPS = ["https://sp1.example/sp", "https://sp2.example/sp", "urn:mace:example.com:sp:1", "sp 3", "sp,4", "sp=5", "sp%6", "a__b", "a",
       "sp__", "https://sp1.example/sp ", "https://sp1.example/sp,1=x", "HTTPS://SP1.EXAMPLE/SP", "ßp"]
NQS = [None, None, "", "https://idp.example/idp", "nq 1", "nq,2", "nq=3%", "idp"]


def gen_hist(rng, tier, flavour):
    """flavour: 'pt' (persistent/transient formats only), 'mixed' (also e-mail / unspecified formats),
    'wild' (also operations outside the quantifier: no requester, user name presented as identifier, ...)"""
    K = _consts()
    users = rng.sample(USERS, rng.randint(1, 4))
    sps = rng.sample(SPS, rng.randint(1, 4))
    nqs = rng.sample(NQS, rng.randint(1, 3))
    cfg = {"domain": rng.choice(["", "example.com", "example.com", "d,1=x"]),
           "name_qualifier": rng.choice(["", "https://idp.example/idp", "idp nq"])}
    fmts = [K["persistent"], K["transient"]]
    if flavour != "pt":
        fmts += [K["email"], UNSPEC]
    n = rng.randint(3, 60 if tier == "thorough" else 40)
    ops = []
    issued = []  # indexes of issuing steps
    removed = []
    ctr = [0]

    def rnd(prev_ok=True, email=False):
        ctr[0] += 3
        r = [ctr[0], ctr[0] + 1, ctr[0] + 2]
        if prev_ok and not email and ops and ops[-1]["k"] in ISSUE and rng.random() < 0.2:
            r[0] = ops[-1]["rnd"][-1] if rng.random() < 0.3 else ops[-1]["rnd"][0]
            if rng.random() < 0.3:
                r[1] = ops[-1]["rnd"][0]
        return r

    def spq():
        if flavour == "wild" and rng.random() < 0.1:
            return rng.choice([None, ""])
        return rng.choice(sps)

    def ref():
        c = rng.random()
        if issued and c < 0.62:
            r = {"ref": rng.choice(issued)}
            if rng.random() < 0.45:
                r["alias"] = True  # hand the very object the store returned back in (no copy)
            return r
        if issued and c < 0.8:
            f = rng.choice(["spq", "fmt", "nq", "spid"])
            v = {"spq": rng.choice(SPS), "fmt": rng.choice(fmts + [None]), "nq": rng.choice(NQS), "spid": rng.choice(["sp-id-1", None, ""])}[f]
            return {"ref": rng.choice(issued), "set": {f: v}}
        if removed and c < 0.88:
            return {"ref": rng.choice(removed)}
        if flavour == "wild" and c < 0.93:
            return {"n": {"nq": None, "spq": rng.choice(sps), "fmt": K["persistent"], "spid": None, "text": rng.choice(users)}}
        if flavour == "wild" and c < 0.95:
            return {"n": {"nq": None, "spq": None, "fmt": None, "spid": None, "text": rng.choice([None, ""])}}
        return {"n": {"nq": rng.choice(NQS), "spq": rng.choice(sps), "fmt": rng.choice(fmts), "spid": None,
                      "text": "unknown-%d" % rng.randrange(3)}}

    def pol():
        c = rng.random()
        f = rng.choice(fmts) if c < 0.85 else (None if flavour == "wild" else rng.choice(fmts))
        s = rng.choice(sps) if rng.random() < 0.9 or flavour != "wild" else rng.choice([None, ""])
        return {"fmt": f, "spq": s, "allow_create": rng.choice([None, "true", "false", "false", "False"])}

    weights = [("persistent", 22), ("transient", 9), ("get_nameid", 8), ("construct", 9), ("find_nameid", 6), ("find_local_id", 6),
               ("mapping", 8), ("manage", 13), ("remove_remote", 5), ("remove_local", 2), ("store_authn", 5), ("authn_count", 3),
               ("clean_out", 4)]
    names = [w[0] for w in weights]
    ws = [w[1] for w in weights]
    for _ in range(n):
        k = rng.choices(names, ws)[0]
        u = rng.choice(users)
        if k in ("persistent", "transient"):
            op = {"k": k, "u": u, "spq": spq(), "nq": rng.choice(nqs), "rnd": rnd()}
        elif k == "get_nameid":
            f = rng.choice(fmts)
            op = {"k": k, "u": u, "fmt": f, "spq": spq(), "nq": rng.choice(nqs), "rnd": rnd(email=f == K["email"])}
        elif k == "construct":
            p = pol() if rng.random() < 0.5 else None
            if p is not None and flavour != "wild":
                p["spq"] = rng.choice([p["spq"], None, ""])  # falls back to the argument
                p["fmt"] = rng.choice([p["fmt"], None, ""])
            lf = rng.choice(fmts) if rng.random() < 0.85 else None
            if flavour != "wild" and lf is None and not (p and p["fmt"]):
                lf = rng.choice(fmts)
            op = {"k": k, "u": u, "local_fmt": lf, "spq": spq(), "pol": p, "nq": rng.choice(nqs),
                  "rnd": rnd(email=K["email"] in (lf, (p or {}).get("fmt")))}
        elif k == "find_nameid":
            flt = []
            if rng.random() < 0.7:
                flt.append([1, rng.choice(sps)])
            if rng.random() < 0.4:
                flt.append([2, rng.choice(fmts)])
            if rng.random() < 0.1:
                flt.append([rng.choice([0, 3]), rng.choice([None, "sp-id-1", "idp"])])
            op = {"k": k, "u": u, "flt": flt}
        elif k == "find_local_id":
            op = {"k": k}
            op.update(ref())
        elif k == "mapping":
            p = pol()
            op = {"k": k, "pol": p, "rnd": rnd(email=p["fmt"] == K["email"])}
            op.update(ref())
        elif k == "manage":
            m = rng.choice(["new_id", "new_id", "new_id", "terminate", "terminate", "noop", "new_encrypted"])
            op = {"k": k, "m": m, "new_text": rng.choice(["sp-id-1", "sp id,2=x", "sp-id-1", None, ""]) if m == "new_id" else None}
            op.update(ref())
        elif k in ("remove_remote", "clean_out", "store_authn", "authn_count"):
            op = {"k": k}
            op.update(ref())
            if k == "remove_remote" and "ref" in op and "set" not in op:
                removed.append(op["ref"])
        else:
            op = {"k": k, "u": u}
        op["obj"] = rng.choice(["same", "copy", "copy", "xml"])  # object identity of the string arguments
        if k in ISSUE or k in ("manage", "find_nameid"):
            issued.append(len(ops))  # steps whose answer can be presented again later
        ops.append(op)
    return {"op": "hist", "consts": K, "cfg": cfg, "users": users, "ops": ops, "flavour": flavour}


def scenario_reorder(rng):
    """persistent id + second non-transient format for the same requester, then ManageNameID, then ask again."""
    K = _consts()
    u, sp, nq = rng.choice(USERS), rng.choice(SPS), rng.choice(NQS)
    other = rng.choice([K["email"], UNSPEC])
    ops = [{"k": "persistent", "u": u, "spq": sp, "nq": nq, "rnd": [1, 2, 3]},
           {"k": "get_nameid", "u": u, "fmt": other, "spq": sp, "nq": nq, "rnd": [4, 5, 6]},
           {"k": "manage", "m": rng.choice(["new_id", "terminate"]), "new_text": "sp-id-1", "ref": 0},
           {"k": "persistent", "u": u, "spq": sp, "nq": nq, "rnd": [7, 8, 9]}]
    return {"op": "hist", "consts": K, "cfg": {"domain": "example.com", "name_qualifier": ""}, "users": [u], "ops": ops,
            "flavour": "mixed"}


def scenario_alias_cycle(rng):
    """issue -> look up -> NewID with the looked-up object -> look up -> Terminate with that object -> look up
    and list: the store is back at its earlier content, every answer must be what is stored now."""
    K = _consts()
    u, v = rng.sample(USERS, 2)
    sp, sp2, nq = rng.choice(SPS), rng.choice(SPS), rng.choice(NQS)
    alias = rng.random() < 0.8
    ops = [{"k": "persistent", "u": u, "spq": sp, "nq": nq, "rnd": [1, 2, 3]},
           {"k": "persistent", "u": v, "spq": sp, "nq": nq, "rnd": [4, 5, 6]},
           {"k": "persistent", "u": u, "spq": sp, "nq": nq, "rnd": [7, 8, 9]},
           {"k": "manage", "m": "new_id", "new_text": rng.choice(["sp-id-1", "sp id,2=x"]), "ref": 2, "alias": alias},
           {"k": rng.choice(["persistent", "find_nameid"]), "u": u, "spq": sp, "nq": nq, "rnd": [10, 11, 12], "flt": [[1, sp]]},
           {"k": "manage", "m": rng.choice(["terminate", "terminate", "new_id"]), "new_text": None, "ref": 4, "alias": alias},
           {"k": "persistent", "u": u, "spq": sp, "nq": nq, "rnd": [13, 14, 15]},
           {"k": "find_nameid", "u": u, "flt": [[1, sp]]},
           {"k": "mapping", "ref": 6, "alias": alias, "pol": {"fmt": K["persistent"], "spq": sp, "allow_create": "false"}, "rnd": [16, 17, 18]},
           {"k": "persistent", "u": v, "spq": sp, "nq": nq, "rnd": [19, 20, 21]},
           {"k": "persistent", "u": u, "spq": sp2, "nq": nq, "rnd": [22, 23, 24]}]
    return {"op": "hist", "consts": K, "cfg": {"domain": "example.com", "name_qualifier": ""}, "users": [u, v], "ops": ops,
            "flavour": "pt"}


EPT_SP = ["a", "a__b", "sp__", "__", "https://sp.example/__x", "sp 1", "a_", "_b", "https://sp1.example/sp", "a__b__c", ""]
EPT_US = ["c", "b__c", "__c", "u 1", "_c", "c__", "alice", "b", "b__c__d", ""]


def boundary_shifts(rng):
    """Different (requester, user) pairs whose plain concatenation is the same string: the boundary between the two
    parts is moved (entity id a prefix of the other, the user ids making up the difference), in both orders
    (sp+user as in a cache key, user+sp as in the digest input), with and without "__" inside either part."""
    out = []
    for _ in range(rng.randint(1, 3)):
        c = rng.randrange(4)
        if c == 0:
            sp, us = rng.choice(["https://sp.example.org/app", "https://sp1.example/sp", "urn:mace:example.com:sp:1"]), \
                str(rng.randrange(10000, 99999))
        elif c == 1:
            sp, us = rstr(rng, 2, 4), rstr(rng, 2, 4)
        elif c == 2:
            sp, us = rstr(rng, 1, 2) + "__" + rstr(rng, 1, 2), rstr(rng, 2, 3)
        else:
            sp, us = rstr(rng, 2, 3), rstr(rng, 1, 2) + "__" + rstr(rng, 1, 2)
        out.append([sp, us])
        for _ in range(rng.randint(1, 2)):
            k = rng.randint(1, max(1, min(3, len(us) - 1)))
            if rng.random() < 0.6:
                out.append([sp + us[:k], us[k:]])      # sp' + us' == sp + us, requester grew
            else:
                k2 = rng.randint(1, max(1, min(3, len(sp) - 1)))
                out.append([sp[:-k2], sp[-k2:] + us])  # sp' + us' == sp + us, requester shrank
            if rng.random() < 0.4:
                out.append([sp[k:] if len(sp) > k else sp, us + sp[:k]])  # us' + sp' == us + sp (digest input order)
    return [c for c in out if c[0] or c[1]]


def gen_eptid(rng, collide=None, shift=None):
    secret = rng.choice(["secret", "s e c", "", "ß"])
    idp = rng.choice(["https://idp.example/idp", "idp", "i!d!p"])
    calls = []
    if collide is None:
        collide = rng.random() < 0.15
    n = rng.randint(2, 12)
    if collide:
        sp, us = rstr(rng, 1, 2), rstr(rng, 1, 2)
        mid = rstr(rng, 0, 2)
        calls.append([sp + "__" + mid, us])
        calls.append([sp, mid + "__" + us])
    if shift is None:
        shift = rng.random() < 0.3
    if shift:
        calls.extend(boundary_shifts(rng))
        n = max(n, len(calls) + 2)
    while len(calls) < n:
        if calls and rng.random() < 0.3:
            calls.append(list(rng.choice(calls)))
        elif rng.random() < 0.5:
            calls.append([rng.choice(EPT_SP), rng.choice(EPT_US)])
        else:
            calls.append([rstr(rng, 1, 3), rstr(rng, 1, 3)])
    rng.shuffle(calls)
    if not collide:  # keep the non-colliding stream free of accidental collisions
        seen = {}
        keep = []
        for sp, us in calls:
            k = sp + "__" + us
            if seen.setdefault(k, (sp, us)) == (sp, us):
                keep.append([sp, us])
        calls = keep
    md5 = sorted({(us + sp + secret): hashlib.md5((us + sp + secret).encode("utf-8")).hexdigest() for sp, us in calls}.items())
    return {"op": "eptid", "secret": secret, "idp": idp, "calls": calls, "md5": [list(x) for x in md5]}


def gen_cases(rng, tier):
    big = tier == "thorough"
    for _ in range(3000 if big else 400):
        yield codec_pair(rng)
    for _ in range(1500 if big else 200):
        yield decode_text(rng)
    for _ in range(1500 if big else 200):
        yield gen_eptid(rng, collide=False)
    for _ in range(600 if big else 100):
        yield gen_eptid(rng, collide=False, shift=True)
    for _ in range(60 if big else 12):
        yield gen_eptid(rng, collide=True)
    for _ in range(20 if big else 4):
        yield scenario_reorder(rng)
    for _ in range(40 if big else 8):
        yield scenario_alias_cycle(rng)
    for i in range(3500 if big else 700):
        fl = ("pt", "pt", "mixed", "mixed", "wild")[i % 5]
        yield gen_hist(rng, tier, fl)


# ------------------------------------------------------------------ implementation side


_INTERN = {}


def _S(x, mode):
    """Object identity of string arguments: "same" hands over the module constant object itself when the value
    equals one (formats), anything else an equal-but-distinct str object -- what a value parsed from a request,
    read from JSON or built at run time is.  The model is value-based; only the real code can tell the difference."""
    if not isinstance(x, str):
        return x
    if mode == "same":
        if not _INTERN:
            from saml2 import saml

            for name in dir(saml):
                v = getattr(saml, name)
                if name.startswith(("NAMEID_FORMAT", "NAME_FORMAT")) and isinstance(v, str):
                    _INTERN[v] = v
        return _INTERN.get(x, x)
    return str(bytes(x, "utf-8"), "utf-8")


def _objects(o, mode):
    """the operation with every string argument replaced as `_S` says (nested: policy, filter, presented NameID)"""
    if isinstance(o, dict):
        return {k: (v if k in ("k", "m", "obj") else _objects(v, mode)) for k, v in o.items()}
    if isinstance(o, list):
        return [_objects(v, mode) for v in o]
    return _S(o, mode)


def _policy(p, mode):
    """a NameIDPolicy as the application would have it: built in code, or ("xml") parsed from request XML"""
    from xml.sax.saxutils import quoteattr

    from saml2 import samlp

    if mode == "xml":
        attrs = "".join(" %s=%s" % (a, quoteattr(v)) for a, v in
                        (("Format", p["fmt"]), ("SPNameQualifier", p["spq"]), ("AllowCreate", p["allow_create"])) if v is not None)
        try:
            nip = samlp.name_id_policy_from_string('<NameIDPolicy xmlns="urn:oasis:names:tc:SAML:2.0:protocol"%s/>' % attrs)
        except Exception:  # characters XML cannot carry: fall back to the constructor below
            nip = None
        if nip is not None and (nip.format, nip.sp_name_qualifier, nip.allow_create) == (p["fmt"], p["spq"], p["allow_create"]):
            return nip
    return samlp.NameIDPolicy(format=p["fmt"], sp_name_qualifier=p["spq"], allow_create=p["allow_create"])


def _mk_nid(d):
    from saml2.saml import NameID

    return NameID(name_qualifier=d.get("nq"), sp_name_qualifier=d.get("spq"), format=d.get("fmt"),
                  sp_provided_id=d.get("spid"), text=d.get("text"))


def _obs_nid(n):
    return {f: getattr(n, a) for f, a in zip(FIELDS, ATTRS)}


def _legit():
    from saml2 import SAMLError
    from saml2.s_utils import PolicyError

    return (KeyError, ValueError, SAMLError, PolicyError)


def run_impl(case):
    op = case["op"]
    if op == "codec":
        return _run_codec(case)
    if op == "decode":
        from saml2.ident import decode

        try:
            return {"r": "nid", "n": _obs_nid(decode(case["txt"]))}
        except ValueError:
            return {"r": "refused"}
    if op == "eptid":
        from saml2.eptid import Eptid

        e = Eptid(case["secret"])
        return {"vals": [e.get(_S(case["idp"], "copy"), _S(sp, "copy" if i % 2 else "same"), _S(us, "copy" if i % 2 else "same"))
                         for i, (sp, us) in enumerate(case["calls"])]}
    if op == "hist":
        return _run_hist(case)
    raise ValueError(op)


def _run_codec(case):
    from saml2.ident import code, decode

    out = {}
    for x in ("a", "b"):
        c = code(_mk_nid(_objects(case[x], "copy")))
        out["code_" + x] = c
        try:
            out["dec_" + x] = _obs_nid(decode(c))
        except ValueError:
            out["dec_" + x] = None
    return out


def _run_hist(case):
    import saml2.ident as ident_mod
    from saml2 import saml, samlp
    from saml2.assertion import Policy
    from saml2.ident import IdentDB
    from saml2.sdb import SessionStorage
    from saml2.server import Server

    legit = _legit()
    db = {}
    idb = IdentDB(db, _S(case["cfg"]["domain"], "copy"), _S(case["cfg"]["name_qualifier"], "copy"))
    sdb = SessionStorage()
    stub = types.SimpleNamespace(ident=idb, session_db=sdb)
    cands = []
    stream = []
    extra = [10 ** 6]
    orig_create = idb._create_id

    def rec_create(*a, **k):
        v = orig_create(*a, **k)
        cands.append(v)
        return v

    idb._create_id = rec_create

    def fake_rnd(n=32, *a, **k):
        if stream:
            r = stream.pop(0)
        else:
            extra[0] += 1
            r = extra[0]
        return b"%032d" % r

    results = []  # per step: the NameID answered (fields as observed when it was handed out), or None
    handles = []  # per step: the very object the real code returned (first one of a list), or None
    events = []  # every object handed out: {"obj", "snap", "step"}; checked for mutation after each step
    steps = []
    watch = []
    snaps = []
    prev = {}
    authn_snap = {}
    saved = ident_mod.rndbytes
    ident_mod.rndbytes = fake_rnd

    def hand_out(obj, step):
        for ev in events:
            if ev["obj"] is obj:
                return
        events.append({"obj": obj, "snap": _obs_nid(obj), "step": step})

    try:
        for i, o in enumerate(case["ops"]):
            mode = o.get("obj", "copy")
            o = _objects(o, mode)
            k = o["k"]
            del cands[:]
            stream[:] = list(o.get("rnd", []))
            arg = None
            argobj = None
            if "ref" in o or "n" in o:
                if "n" in o:
                    arg = dict(o["n"])
                else:
                    j = o["ref"]
                    base = results[j] if j < len(results) else None
                    if o.get("alias") and "set" not in o and j < len(handles) and handles[j] is not None:
                        argobj = handles[j]  # aliasing: the caller passes the object it was given
                        arg = _obs_nid(argobj)  # ... with whatever it holds NOW
                    else:
                        arg = dict(base) if base else {"nq": None, "spq": None, "fmt": None, "spid": None,
                                                       "text": "unresolved-%d" % j}
                        arg.update(o.get("set", {}))
                if argobj is None:
                    argobj = _mk_nid(_objects(arg, mode))
            handle = None
            res_nid = None
            try:
                if k == "persistent":
                    r = idb.persistent_nameid(o["u"], sp_name_qualifier=o["spq"], name_qualifier=o["nq"])
                    res_nid = _obs_nid(r)
                    handle = r
                    res = {"r": "nid", "n": res_nid}
                elif k == "transient":
                    r = idb.transient_nameid(o["u"], sp_name_qualifier=o["spq"], name_qualifier=o["nq"])
                    res_nid = _obs_nid(r)
                    handle = r
                    res = {"r": "nid", "n": res_nid}
                elif k == "get_nameid":
                    r = idb.get_nameid(o["u"], o["fmt"], o["spq"], o["nq"])
                    res_nid = _obs_nid(r)
                    handle = r
                    res = {"r": "nid", "n": res_nid}
                elif k == "construct":
                    lp = Policy({"default": {"nameid_format": o["local_fmt"]}}) if o["local_fmt"] is not None else None
                    p = o["pol"]
                    nip = _policy(p, mode) if p else None
                    r = idb.construct_nameid(o["u"], lp, o["spq"], nip, o["nq"])
                    res_nid = _obs_nid(r)
                    handle = r
                    res = {"r": "nid", "n": res_nid}
                elif k == "find_nameid":
                    kw = {ATTRS[j]: v for j, v in o["flt"]}
                    found = idb.find_nameid(o["u"], **kw)
                    res = {"r": "nids", "l": [_obs_nid(x) for x in found]}
                    for x in found:
                        hand_out(x, i)
                    if found:
                        handle, res_nid = found[0], _obs_nid(found[0])
                elif k == "find_local_id":
                    res = {"r": "user", "u": idb.find_local_id(argobj)}
                elif k == "mapping":
                    p = o["pol"]
                    nip = _policy(p, mode)
                    r = idb.handle_name_id_mapping_request(argobj, nip)
                    res_nid = _obs_nid(r)
                    handle = r
                    res = {"r": "nid", "n": res_nid}
                elif k == "manage":
                    m = o["m"]
                    r = idb.handle_manage_name_id_request(
                        argobj,
                        new_id=samlp.NewID(text=o["new_text"]) if m == "new_id" else None,
                        new_encrypted_id="encrypted" if m == "new_encrypted" else "",
                        terminate=samlp.Terminate() if m == "terminate" else "")
                    res_nid = _obs_nid(r)
                    handle = r  # on the unchanged tree the very object that was passed in, modified in place
                    res = {"r": "nid", "n": res_nid}
                elif k == "remove_remote":
                    idb.remove_remote(argobj)
                    res = {"r": "done"}
                elif k == "remove_local":
                    idb.remove_local(o["u"])
                    res = {"r": "done"}
                elif k == "store_authn":
                    a = saml.Assertion(id="a%d" % i, subject=saml.Subject(name_id=argobj),
                                       authn_statement=[saml.AuthnStatement(session_index="s%d" % i)])
                    sdb.store_assertion(a, [])
                    watch.append(dict(arg))
                    res = {"r": "done"}
                elif k == "authn_count":
                    res = {"r": "count", "c": len(sdb.get_authn_statements(argobj))}
                elif k == "clean_out":
                    res = {"r": "user", "u": Server.clean_out_user(stub, argobj)}
                else:
                    raise AssertionError("unknown op kind " + k)
            except legit as e:
                res = {"r": "refused", "e": type(e).__name__}
            except (AttributeError, TypeError) as e:
                # not an answer and not a refusal: the call broke down inside pysaml2 (seen only with a
                # store corrupted by an earlier step).  The history ends here; the driver reports it.
                steps.append({"res": {"r": "crash", "e": type(e).__name__}, "cands": list(cands), "delta": [], "crash": True})
                snaps.append(authn_snap)
                break
            # objects handed out earlier must not change behind the caller's back; the one contract that
            # says otherwise: handle_manage_name_id_request modifies the NameID it is given, in place
            mutated = []
            for ev in events:
                cur = _obs_nid(ev["obj"])
                if cur != ev["snap"]:
                    if not (k == "manage" and ev["obj"] is argobj):
                        mutated.append({"from_step": ev["step"], "was": ev["snap"], "now": cur})
                    ev["snap"] = cur
            if handle is not None:
                hand_out(handle, i)
            results.append(res_nid)
            handles.append(handle)
            if not all(isinstance(a, str) and isinstance(b, str) for a, b in db.items()):
                # the store no longer maps strings to strings (e.g. a None key): outside anything the
                # property or the model can talk about; the history ends here and the driver reports it
                steps.append({"res": res, "cands": list(cands), "delta": [], "corrupt": True})
                snaps.append(authn_snap)
                break
            now = dict(db)
            delta = sorted([[kk, now.get(kk)] for kk in set(prev) | set(now) if prev.get(kk) != now.get(kk)],
                           key=lambda x: x[0])
            prev = now
            if k in ("store_authn", "clean_out"):
                authn_snap = {kk: len(v) for kk, v in sdb.authn.items()}
            snaps.append(authn_snap)
            st = {"res": res, "cands": list(cands), "delta": delta, "mutated": mutated}
            if arg is not None:
                st["arg"] = arg
            steps.append(st)
    finally:
        ident_mod.rndbytes = saved
    from saml2.ident import code_binary

    wkeys = [hashlib.sha1(code_binary(_mk_nid(w))).hexdigest() for w in watch]
    for st, snap in zip(steps, snaps):
        st["counts"] = [snap.get(wk, 0) for wk in wkeys]
    return {"steps": steps, "watch": watch}


# ------------------------------------------------------------------ comparison, classification


def _canon_res(r):
    if r is None:
        return None
    if r.get("r") == "refused":
        return {"r": "refused"}
    return r


def compare(case, impl, model):
    if case["op"] != "hist":
        if case["op"] == "decode":
            return _canon_res(impl) == _canon_res(model)
        return impl == model
    ms = (model or {}).get("steps")
    if ms is None or len(ms) != len(impl["steps"]) or len(ms) != len(case["ops"]):
        return False
    for a, b in zip(impl["steps"], ms):
        if _canon_res(a["res"]) != _canon_res(b["res"]):
            return False
        if {k: v for k, v in a["delta"]} != {k: v for k, v in b["delta"]}:
            return False
        if a["counts"] != b["counts"]:
            return False
        if a.get("mutated"):  # the model is value-based: nothing changes behind the caller's back
            return False
    return True


def finding_key(case, impl, lean):
    if case["op"] == "eptid":
        # known class, kept narrow: EVERY pair of calls on which the implementation's values break the spec is a pair of
        # different (sp, user) with the same sp + "__" + user, and the values are exactly what the cache-by-joined-key
        # model predicts.  Any other sharing of a cache slot (e.g. plain concatenation sp + user) is not this class.
        calls = [tuple(c) for c in case["calls"]]
        vals = impl.get("vals", [])
        if len(vals) != len(calls) or impl != lean.get("model"):
            return None
        bad = [(a, b) for i, a in enumerate(calls) for j, b in enumerate(calls)
               if i < j and ((a == b) != (vals[i] == vals[j]))]
        if bad and all(a != b and a[0] + "__" + a[1] == b[0] + "__" + b[1] for a, b in bad):
            return KNOWN_EPTID
        return None
    if case["op"] == "hist":
        # regression label for the defect repaired by cd87445c ("fixed" entries suppress nothing):
        # persistent_nameid answers with an identifier whose format is not persistent
        why = lean.get("why") or ""
        if not why.startswith("step ") or "res=false" not in why:
            return None
        i = int(why.split(":")[0].split()[1])
        o = case["ops"][i]
        r = impl["steps"][i]["res"]
        if o["k"] == "persistent" and r.get("r") == "nid" and r["n"]["fmt"] != case["consts"]["persistent"]:
            return KNOWN_REORDER
        return None
    return None


def nontrivial(case, impl, lean):
    if case["op"] == "hist":
        return any(st["delta"] for st in impl["steps"])
    if case["op"] == "codec":
        return any(case["a"].values())
    if case["op"] == "eptid":
        return lean.get("path") != "eptid/all-new"
    return True


def shrink(case):
    if case["op"] == "hist":
        ops = case["ops"]
        n = len(ops)
        # references only point backwards, so every prefix is a valid history
        for L in sorted({n // 2, 3 * n // 4, n - 1}):
            if 0 < L < n:
                c = dict(case)
                c["ops"] = ops[:L]
                yield c
        count = 0
        for i in range(n - 1):  # the last step is the one that fails once the prefix is minimal
            if any(o.get("ref") == i for o in ops):
                continue
            new = []
            for j, o in enumerate(ops):
                if j == i:
                    continue
                o = dict(o)
                if "ref" in o and o["ref"] > i:
                    o["ref"] -= 1
                new.append(o)
            c = dict(case)
            c["ops"] = new
            yield c
            count += 1
            if count >= 40:
                break
        used = {o.get("u") for o in ops}
        for u in case["users"]:
            if u not in used and len(case["users"]) > 1:
                c = dict(case)
                c["users"] = [x for x in case["users"] if x != u]
                yield c
    elif case["op"] == "eptid":
        for i in range(len(case["calls"])):
            c = dict(case)
            c["calls"] = case["calls"][:i] + case["calls"][i + 1:]
            used = {us + sp + case["secret"] for sp, us in c["calls"]}
            c["md5"] = [m for m in case["md5"] if m[0] in used]
            yield c


def distribution(recs):
    d = {"kinds": {}, "step_paths": {}, "hist_lengths": {}, "flavours": {}}
    for r in recs:
        k = r["case"]["op"]
        d["kinds"][k] = d["kinds"].get(k, 0) + 1
        if k == "hist":
            for p in r["lean"].get("paths", []):
                d["step_paths"][p] = d["step_paths"].get(p, 0) + 1
            b = "%d-%d" % (len(r["case"]["ops"]) // 10 * 10, len(r["case"]["ops"]) // 10 * 10 + 9)
            d["hist_lengths"][b] = d["hist_lengths"].get(b, 0) + 1
            f = r["case"].get("flavour", "?")
            d["flavours"][f] = d["flavours"].get(f, 0) + 1
    return d
