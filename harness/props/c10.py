"""C10 — attribute release never exceeds policy: correspondence harness.

Real code exercised (in-process, unmodified): saml2.assertion.Policy.filter / Policy.restrict /
Assertion.apply_policy (with filter_on_attributes, filter_attribute_value_assertions, compile,
Policy.get, get_entity_categories underneath), Server.setup_assertion, Server.create_authn_response
and Server.create_attribute_response of a scenario IdP/AA whose metadata is written by the harness's
own XML writer (scenario.entity_xml: RequestedAttributes, entity-category / registration-info /
subject-id extensions).  The model's input is the harness's own specification of that metadata
and policy, never something read back from pysaml2.

Per case the harness also hands the Lean driver (`impl.env`) the values of the abstract
parameters of the model, computed with the real Python functions on the strings of the case:
`str.lower`, `re.compile(p).match(v)`, and the slice of the attribute
converters' `_fro` tables for the requested names."""
import copy
import re
import sys
import types
import xml.etree.ElementTree as ET

import scenario as S
from translate import entity_categories as _ec_translate

PROP = "C10"
LEAN_PROPS = "PysamlModel.Props.C10"
MODEL_TARGETS = ["PysamlModel.Model.Release", "PysamlModel.Spec.C10", "PysamlModel.Gen.EntityCategories"]
AUDIT = "PysamlModel/Audit/C10.lean"
DRIVER = "Drivers/C10.lean"
GEN = [_ec_translate.generate]
CORRESPONDENCE = ("Drivers/C10.lean vs Policy.filter / Policy.restrict / Assertion.apply_policy / "
                  "Server.setup_assertion / Server.create_authn_response / Server.create_attribute_response")
RULE = ("random identities (str- and list-valued attributes, case variants, repeated values) x policy "
        "configurations (requester / registration-authority / default / \"\" sections, None and {} sections, "
        "attribute_restrictions with None / [] / regex lists and case-variant keys, fail_on_missing_requested, "
        "entity_categories from the bundled modules and one harness-injected module with ONLY_REQUIRED / "
        "NO_AGGREGATION / tuple keys) x requester metadata (required/optional RequestedAttributes in uri / basic / "
        "unspecified / absent name formats, with and without FriendlyName and values, entity-category, "
        "registration-info and subject-id extensions, unknown requester), each through Policy.filter / restrict / "
        "apply_policy / setup_assertion / create_authn_response / create_attribute_response; plus one sweep over "
        "every RELEASE item of every bundled entity-category module; non-trivial = the case reaches a "
        "filter (entity categories, requested attributes or attribute restrictions in effect); distinct = "
        "distinct case JSON")
EXHAUSTIVE = False
PARALLEL = False
TRUSTED = [
    "metadata XML -> mdstore dictionaries (attribute_requirement, entity_categories, registration_info, "
    "subject_id_requirement lookups; class default for an absent NameFormat; whitespace stripping of "
    "AttributeValue text) is exercised, not modelled; the model's input is the harness's own metadata specification",
    "abstract parameters of the model are evaluated by Python on the strings of each case: str.lower, "
    "re.compile(p).match(v); attribute-converter `_fro` tables are read from ac_factory() (C17 covers the maps)",
    "'filtering never alters the caller's identity data' is an aliasing fact a pure model cannot state: it is "
    "decided ONLY by the harness's deep before/after comparison of the caller's identity dictionary "
    "(impl.unchanged), which the driver conjoins to the spec verdict",
    "Response level: the attribute statement is read back with xml.etree (FriendlyName, else Name; values "
    "concatenated per name), from_local/do_ava are exercised, not modelled; list- and str-valued attributes are "
    "indistinguishable on the wire and compared as value lists",
    "translator harness/translate/entity_categories.py (imports saml2.entity_category.* of the current tree); the "
    "tables ARE the release policy: apart from the two pinned facts (Code-of-Conduct items are ONLY_REQUIRED, the "
    "always-released items list nothing but eduPersonTargetedID) a table edit changes model and implementation alike",
]
ASSUMPTIONS = [
    "identity values are str or list of str (no None / int / nested values); regular expressions in "
    "attribute_restrictions are valid (an invalid one fails at configuration time)",
    "one SPSSODescriptor per requester; a single metadata source (multi-source fall-through is C11); "
    "Response-level cases use requesters present in metadata (Entity._response raises KeyError otherwise)",
    "entity categories come from the bundled modules or a module shaped like them (RELEASE / ONLY_REQUIRED / "
    "NO_AGGREGATION dictionaries)",
    "the empty attribute name is unconstrained by the entity-category clause (the code uses the key \"\" as a marker)",
    "when the applicable policy section configures entity categories, the requested-attribute filter and its "
    "missing-required error are not in effect (Policy.filter is if/elif); the spec states each clause for the "
    "branch in which it is in effect",
]

URI = "urn:oasis:names:tc:SAML:2.0:attrname-format:uri"
BASIC = "urn:oasis:names:tc:SAML:2.0:attrname-format:basic"
UNSPEC = "urn:oasis:names:tc:SAML:2.0:attrname-format:unspecified"

KEY_F8 = "C10/missing-required-releases-unfiltered"

OID = {
    "mail": "urn:oid:0.9.2342.19200300.100.1.3",
    "sn": "urn:oid:2.5.4.4",
    "givenName": "urn:oid:2.5.4.42",
    "displayName": "urn:oid:2.16.840.1.113730.3.1.241",
    "cn": "urn:oid:2.5.4.3",
    "title": "urn:oid:2.5.4.12",
    "uid": "urn:oid:0.9.2342.19200300.100.1.1",
    "c": "urn:oid:2.5.4.6",
    "o": "urn:oid:2.5.4.10",
    "eduPersonPrincipalName": "urn:oid:1.3.6.1.4.1.5923.1.1.1.6",
    "eduPersonScopedAffiliation": "urn:oid:1.3.6.1.4.1.5923.1.1.1.9",
    "eduPersonAffiliation": "urn:oid:1.3.6.1.4.1.5923.1.1.1.1",
    "eduPersonEntitlement": "urn:oid:1.3.6.1.4.1.5923.1.1.1.7",
    "eduPersonAssurance": "urn:oid:1.3.6.1.4.1.5923.1.1.1.11",
    "eduPersonTargetedID": "urn:oid:1.3.6.1.4.1.5923.1.1.1.10",
    "schacHomeOrganization": "urn:oid:1.3.6.1.4.1.25178.1.2.9",
    "norEduPersonNIN": "urn:oid:1.3.6.1.4.1.2428.90.1.5",
    "pairwise-id": "urn:oasis:names:tc:SAML:attribute:pairwise-id",
    "subject-id": "urn:oasis:names:tc:SAML:attribute:subject-id",
}
LOCALS = list(OID) + ["x-custom", "Ümlaut", "PVP-GID", "schacPersonalUniqueCode"]
VALUES = ["a@b.c", "x@y.z", "Jeter", "Derek", "staff", "member", "student@example.org", "admin",
          "admin-readonly", "1", "ünï", "a|b", "(x)", "urn:mace:example.org:entitlement:one"]
PATTERNS = ["^a@", ".*c$", "Jeter", ".*", "", "staff|member", "^admin$", "x", "^$", "\\d+", "(?i)DEREK",
            "nomatch", "^urn:mace:", ".+@.+"]
RA1, RA2 = "http://ra1.c10.example/", "http://ra2.c10.example/"
SP1, SP2, SPX = "https://sp1.c10.example/sp", "https://sp2.c10.example/sp", "https://unknown.c10.example/sp"
CUSTOM = "c10_custom_cat"
CC = ["urn:c10:cat:a", "urn:c10:cat:b", "urn:c10:cat:na", "urn:c10:cat:or"]

_state = {}
_tables = {}


def setup():
    S.install()


def _bundled():
    if "t" not in _tables:
        _tables["t"] = _ec_translate.read_tables()
    return _tables["t"]


# ------------------------------------------------------------------ generators


def case_variant(rng, s):
    c = rng.randrange(5)
    if c == 0:
        return s.lower()
    if c == 1:
        return s.upper()
    if c == 2:
        return s[:1].swapcase() + s[1:]
    return s


INT = "\x01int:"  # how a non-str (int) identity value is written for the model and in observables


def lookalikes(v):
    """strings that resemble `v` without being it: case, surrounding white space, Unicode normalisation /
    homoglyph, prefix / suffix"""
    import unicodedata

    out = [v.upper(), v.lower(), v.swapcase(), v.capitalize(), v + " ", " " + v, "\t" + v + "\n", v[:-1], v + "x",
           "x" + v, v[1:], unicodedata.normalize("NFD", v), unicodedata.normalize("NFKC", v),
           v.replace("a", "\u0430").replace("e", "\u0435").replace("o", "\u043e"),  # Cyrillic homoglyphs
           v.replace("f", "\uff46"), v + "\u200b"]
    res = []
    for x in out:
        if x != v and x not in res:
            res.append(x)
    return res


def gen_value(rng, attr):
    if attr in ("pairwise-id", "subject-id"):
        return rng.choice(["abc123@idp.example", "u1@idp.example"])
    return rng.choice(VALUES)


def gen_identity(rng, prefer):
    n = rng.choice([0, 1, 2, 3, 3, 4, 5, 7])
    out, seen = [], set()
    for _ in range(n):
        base = rng.choice(prefer) if prefer and rng.random() < 0.6 else rng.choice(LOCALS)
        k = case_variant(rng, base) if rng.random() < 0.25 else base
        if rng.random() < 0.01:
            k = ""
        if rng.random() < 0.05:
            k = rng.choice(lookalikes(base))  # resembles a known attribute name without being it
        if k in seen:
            continue
        seen.add(k)
        if rng.random() < 0.3:
            v = {"s": gen_value(rng, base)}
        else:
            m = rng.choice([0, 1, 1, 2, 2, 3])
            vals = [gen_value(rng, base) for _ in range(m)]
            if vals and rng.random() < 0.2:
                vals.append(vals[0])
            if vals and rng.random() < 0.12:
                vals.append(rng.choice(lookalikes(vals[0])))  # two values that resemble each other
            v = {"l": vals}
        out.append([k, v])
    return out


def gen_ra(rng, local, identity, direct, required=False):
    """one RequestedAttribute designating (mostly) the local attribute name `local`"""
    style = rng.randrange(10)
    oid = OID.get(local)
    if style < 5 and oid:
        ra = {"name": oid, "name_format": URI, "friendly_name": local}
        c = rng.randrange(8)
        if c == 0:
            ra["friendly_name"] = None
        elif c == 1:
            ra["friendly_name"] = case_variant(rng, local)
        elif c == 2:
            ra["friendly_name"] = "other-" + local
        elif c == 3:
            ra["name"] = oid.upper()
    elif style == 5 and oid:
        ra = {"name": "urn:mace:dir:attribute-def:" + local, "name_format": BASIC,
              "friendly_name": rng.choice([None, local])}
    elif style == 6:
        ra = {"name": "urn:x-c10:unknown:" + local, "name_format": rng.choice([URI, BASIC, None]),
              "friendly_name": rng.choice([local, local, case_variant(rng, local), None])}
    else:
        ra = {"name": case_variant(rng, local), "name_format": rng.choice([None, None, UNSPEC, URI]),
              "friendly_name": rng.choice([None, None, local, ""])}
    if rng.random() < 0.06:
        ra["friendly_name"] = rng.choice(lookalikes(local))
    if rng.random() < 0.04 and ra.get("name_format"):
        ra["name_format"] = rng.choice([ra["name_format"].upper(), ra["name_format"] + "x", ra["name_format"][:-1]])
    if direct and rng.random() < 0.15:
        ra["name_format"] = None
    if required and not ra.get("friendly_name") and rng.random() < 0.7:
        # mostly valid: a required attribute without FriendlyName that no map knows makes
        # post_entity_categories raise; keep that for a minority of the cases
        if not (ra["name_format"] == URI and ra["name"] == OID.get(local)):
            ra["friendly_name"] = local
    vals = []
    if rng.random() < 0.3:
        held = []
        for k, v in identity:
            if k.lower() == local.lower():
                held = [v["s"]] if "s" in v else list(v["l"])
                scalar = "s" in v
                if scalar and held and len(held[0]) > 2 and rng.random() < 0.5:
                    held.append(held[0][: max(1, len(held[0]) // 2)])  # a substring of the user's value
        pool = held + held + [rng.choice(VALUES), "nope"]
        strs = [h for h in held if isinstance(h, str) and h]
        if strs:  # look-alikes of what the user holds
            pool += [rng.choice(lookalikes(rng.choice(strs))) for _ in range(2)]
        vals = [rng.choice(pool) for _ in range(rng.choice([1, 1, 2, 3]))]
        vals = [v if isinstance(v, str) else str(v) for v in vals]
        if rng.random() < 0.15:
            vals.append(vals[0])
        if rng.random() < 0.05:
            vals.append("")
    ra["values"] = vals
    return ra


def gen_ras(rng, identity, prefer, direct=False):
    n = rng.choice([0, 0, 1, 2, 3, 4, 6])
    ras = []
    have = [k for k, _ in identity if k]
    for _ in range(n):
        c = rng.random()
        if have and c < 0.7:
            local = rng.choice(have)
            # map the identity key back to a vocabulary name when it is a case variant of one
            for l in LOCALS:
                if l.lower() == local.lower():
                    local = l if rng.random() < 0.8 else local
                    break
        elif prefer and c < 0.85:
            local = rng.choice(prefer)
        else:
            local = rng.choice(LOCALS)
        req = rng.choice([True, True, False, False, None])
        ra = gen_ra(rng, local, identity, direct, bool(req))
        ra["required"] = req
        ras.append(ra)
        if rng.random() < 0.12:  # the same attribute named twice (required and optional, or twice required)
            req2 = rng.choice([True, False])
            ra2 = gen_ra(rng, local, identity, direct, req2) if rng.random() < 0.5 else dict(ra)
            ra2["required"] = req2
            ras.append(ra2)
    return ras


def all_categories():
    cats = []
    for _, entries in _bundled():
        for kind, keys, attrs, o, n in entries:
            for k in keys:
                if k not in cats:
                    cats.append(k)
    return cats


def gen_custom(rng):
    entries = []
    used = set()
    for _ in range(rng.randint(2, 6)):
        kind = rng.choice([0, 1, 1, 1, 2, 2])
        if kind == 0:
            keys = []
        elif kind == 1:
            keys = [rng.choice(CC)]
        else:
            keys = rng.sample(CC, rng.choice([0, 1, 2, 2, 3]))
        kk = (kind, tuple(keys))
        if kk in used:
            continue
        used.add(kk)
        attrs = rng.sample(LOCALS, rng.randint(0, 4))
        attrs = [case_variant(rng, a) for a in attrs]
        if kind == 0:
            # the injected module honours the pinned fact about always-released items (Spec/C10.lean):
            # nothing but eduPersonTargetedID
            attrs = rng.choice([[], ["eduPersonTargetedID"], ["EDUPERSONTARGETEDID"], ["edupersontargetedid"]])
        entries.append([kind, keys, attrs, rng.random() < 0.35, rng.random() < 0.3])
    return entries


def gen_section(rng, identity, use_custom):
    c = rng.random()
    if c < 0.07:
        return None
    if c < 0.12:
        return {"ar": None, "ar_key": False, "fomr": None, "ec": [], "ec_key": False, "lifetime": False, "nonempty": False}
    sec = {"ar": None, "ar_key": rng.random() < 0.5, "fomr": None, "ec": [], "ec_key": rng.random() < 0.3,
           "lifetime": rng.random() < 0.5}
    c = rng.random()
    if c < 0.5:
        sec["ar_key"] = True
        ar = []
        keys = [k for k, _ in identity] + [rng.choice(LOCALS) for _ in range(2)]
        rng.shuffle(keys)
        seen = set()
        for k in keys[: rng.choice([0, 1, 2, 3, 5])]:
            k = case_variant(rng, k) if rng.random() < 0.4 else k
            if k and rng.random() < 0.06:
                k = rng.choice(lookalikes(k))
            if k in seen:
                continue
            seen.add(k)
            d = rng.random()
            if d < 0.3:
                pats = None
            elif d < 0.4:
                pats = []
            else:
                pats = [rng.choice(PATTERNS) for _ in range(rng.choice([1, 1, 2, 3]))]
                held = [x for kk, v in identity if kk.lower() == k.lower()
                        for x in ([v["s"]] if "s" in v else v["l"]) if isinstance(x, str) and x]
                if held and rng.random() < 0.5:
                    # literal patterns made of a held value and of its look-alikes
                    h = rng.choice(held)
                    pats.append(re.escape(rng.choice([h, h] + lookalikes(h))) + rng.choice(["", "$"]))
            ar.append([k, pats])
        sec["ar"] = ar
    c = rng.random()
    if c < 0.25:
        sec["fomr"] = False
    elif c < 0.45:
        sec["fomr"] = True
    if rng.random() < 0.4:
        sec["ec_key"] = True
        mods = [m for m, _ in _bundled()]
        ec = rng.sample(mods, rng.choice([1, 1, 2, 3]))
        if use_custom and rng.random() < 0.6:
            ec.insert(rng.randrange(len(ec) + 1), CUSTOM)
            if rng.random() < 0.4:
                ec = [CUSTOM]
        sec["ec"] = ec
    sec["nonempty"] = bool(sec["ar_key"] or sec["fomr"] is not None or sec["ec_key"] or sec["lifetime"])
    return sec


def gen_policy(rng, identity, sps, use_custom):
    if rng.random() < 0.08:
        return None
    whos = []
    if rng.random() < 0.45:
        whos.append(rng.choice([sp["entity_id"] for sp in sps] + [SPX]))
    if rng.random() < 0.35:
        whos.append(rng.choice([RA1, RA2]))
    if rng.random() < 0.75:
        whos.append("default")
    if rng.random() < 0.2:
        whos.append("")
    rng.shuffle(whos)
    return [[w, gen_section(rng, identity, use_custom)] for w in whos]


def gen_sp(rng, eid, identity, prefer):
    cats = []
    pool = all_categories() + CC
    c = rng.random()
    if c < 0.6:
        cats = rng.sample(pool, rng.choice([1, 1, 2, 3]))
    if rng.random() < 0.3:
        cats += rng.sample(CC, rng.choice([1, 2, 3]))
    sp = {"entity_id": eid, "ra": rng.choice([None, None, RA1, RA2]), "cats": cats,
          "subj": rng.choice([None, None, None, None, "any", "pairwise-id", "subject-id", "none", "bogus"]),
          "ras": gen_ras(rng, identity, prefer), "split": rng.random() < 0.35}
    if rng.random() < 0.7:
        sp["layout"] = {"order": [rng.randrange(5) for _ in range(5)], "ea": rng.randrange(4), "other": rng.random() < 0.5}
    return sp


def category_attrs(rng):
    t = rng.choice(_bundled())[1]
    attrs = []
    for e in t:
        attrs += e[2]
    return [a for a in attrs if a in LOCALS] or LOCALS[:6]


def table_sweep_cases():
    """every RELEASE item of every bundled module once: a requester in exactly the item's categories, a user
    holding every attribute any bundled item lists (plus one none lists), without and with required attributes"""
    tables = _bundled()
    every = []
    for _, entries in tables:
        for e in entries:
            for a in e[2]:
                if a not in every:
                    every.append(a)
    identity = [[a, {"l": ["v-" + a]}] for a in every] + [["x-unlisted", {"l": ["v"]}]]
    sec = {"ar": None, "ar_key": False, "fomr": None, "ec": [], "ec_key": True, "lifetime": True, "nonempty": True}
    for name, entries in tables:
        for kind, keys, attrs, o, n in entries:
            for with_req in (False, True):
                ras = []
                if with_req:
                    ras = [{"name": OID.get(a, "urn:x-c10:unknown:" + a), "name_format": URI, "friendly_name": a,
                            "values": [], "required": True} for a in attrs[:2]]
                yield {"op": "restrict", "identity": identity, "policy": [["default", dict(sec, ec=[name])]],
                       "sps": [{"entity_id": SP1, "ra": None, "cats": list(keys), "subj": None, "ras": ras, "split": False}],
                       "sp": SP1, "custom": {}, "has_mds": True}


def sequence_kinds(case):
    """what a sequence exercises (for the evidence histogram)"""
    kinds = set()
    steps = case["steps"]
    if any(st["op"] == "reload" for st in steps):
        for i, st in enumerate(steps):
            if st["op"] != "reload":
                continue
            old = {sp["entity_id"]: sp for sp in step_case(case, i)["sps"]}
            new = {sp["entity_id"]: sp for sp in st["sps"]}
            later = {s2["sp"] for s2 in steps[i + 1:] if s2["op"] != "reload"}
            for eid in later:
                o, n_ = old.get(eid), new.get(eid)
                if o is None and n_ is not None:
                    kinds.add("reload:requester-added")
                elif o is not None and n_ is None:
                    kinds.add("reload:requester-removed")
                elif o is not None:
                    for fld, name in (("cats", "categories"), ("ras", "requested-attributes"), ("ra", "registration-authority"),
                                      ("subj", "subject-id-requirement")):
                        if o.get(fld) != n_.get(fld):
                            kinds.add("reload:" + name + "-changed")
                    if o == n_:
                        kinds.add("reload:requester-unchanged")
            if set(old) != set(new):
                kinds.add("reload:other-requester-added-or-removed")
        return sorted(kinds)
    by = {sp["entity_id"]: sp for sp in case["sps"]}
    for i in range(len(steps)):
        for j in range(i + 1, len(steps)):
            a, b = steps[i], steps[j]
            if a["sp"] == b["sp"]:
                kinds.add("same-sp-changed-identity" if a["identity"] != b["identity"] else "same-sp-same-identity")
                if a["op"] == b["op"] == "filter" and (a.get("req"), a.get("opt")) != (b.get("req"), b.get("opt")):
                    kinds.add("same-sp-different-requested")
                continue
            sa, sb = by.get(a["sp"]), by.get(b["sp"])
            if sa is None or sb is None:
                kinds.add("unknown-requester")
                continue
            kinds.add("same-categories" if sorted(sa["cats"]) == sorted(sb["cats"]) else "different-categories")
            kinds.add("same-requested" if sa["ras"] == sb["ras"] else "different-requested")
            secs = {w for w, _ in case["policy"] or []}
            ka = a["sp"] if a["sp"] in secs else sa["ra"] if sa["ra"] in secs else "default"
            kb = b["sp"] if b["sp"] in secs else sb["ra"] if sb["ra"] in secs else "default"
            kinds.add("same-section" if ka == kb else "different-sections")
    return sorted(kinds)


def _permutations(items):
    if len(items) <= 1:
        yield list(items)
        return
    for i in range(len(items)):
        for rest in _permutations(items[:i] + items[i + 1:]):
            yield [items[i]] + rest


def sequence_sweep_cases():
    """deterministic: for every RELEASE item of every bundled module, two requesters carrying exactly the item's
    categories but requiring different attributes, served by one Policy / one Server in both orders"""
    tables = _bundled()
    every = []
    for _, entries in tables:
        for e in entries:
            for a in e[2]:
                if a not in every:
                    every.append(a)
    identity = [[a, {"l": ["v-" + a]}] for a in every] + [["x-unlisted", {"l": ["v"]}]]
    sec = {"ar": None, "ar_key": False, "fomr": False, "ec": [], "ec_key": True, "lifetime": True, "nonempty": True}

    def ras(attrs):
        return [{"name": OID.get(a, "urn:x-c10:unknown:" + a), "name_format": URI, "friendly_name": a,
                 "values": [], "required": True} for a in attrs]

    for name, entries in tables:
        for kind, keys, attrs, o, n in entries:
            if kind == 0 or len(attrs) < 2:
                continue
            half = max(1, len(attrs) // 2)
            sps = [{"entity_id": SP1, "ra": None, "cats": list(keys), "subj": None, "ras": ras(attrs[:half]), "split": False},
                   {"entity_id": SP2, "ra": None, "cats": list(keys), "subj": None, "ras": ras(attrs[half:half + 2]), "split": False}]
            for op in (("restrict", "authn_response") if o else ("restrict",)):
                for order in ((SP1, SP2), (SP2, SP1)):
                    steps = [{"op": op, "sp": sp, "identity": identity} for sp in order]
                    if op == "authn_response":
                        for st in steps:
                            st["best_effort"] = None
                    yield {"op": "sequence", "policy": [["default", dict(sec, ec=[name])]], "sps": sps, "custom": {},
                           "steps": steps}


def gen_sequences(rng, n_scen):
    """one long-lived Policy / Server answering 2-4 requests: different requesters with the same or different
    entity-category sets, requested attributes and policy sections (all orders for 2 and 3 steps), and repeated
    requests of one requester with a changed identity / changed requested attributes"""
    focus = ["http://www.geant.net/uri/dataprotection-code-of-conduct/v1",
             "https://refeds.org/category/code-of-conduct/v2",
             "https://myacademicid.org/entity-categories/esi",
             "http://refeds.org/category/research-and-scholarship"] + CC
    for _ in range(n_scen):
        prefer = category_attrs(rng)
        use_custom = rng.random() < 0.4
        identity = gen_identity(rng, prefer)
        while len(identity) < 3:
            identity = gen_identity(rng, prefer)
        n_sp = rng.choice([2, 2, 3])
        sps = []
        shared_cats = rng.sample(focus, rng.choice([1, 1, 2, 3]))
        same_cats = rng.random() < 0.65
        for k in range(n_sp):
            sp = gen_sp(rng, [SP1, SP2, "https://sp3.c10.example/sp"][k], identity, prefer)
            if same_cats:
                sp["cats"] = list(shared_cats) if rng.random() < 0.85 else list(reversed(shared_cats))
            # mostly well-formed requirements (FriendlyName present), differing between the requesters
            have = [k_ for k_, _ in identity if k_]
            ras = []
            for a in rng.sample(have + prefer, min(len(have + prefer), rng.choice([1, 2, 3]))):
                base = next((l for l in LOCALS if l.lower() == a.lower()), a)
                ras.append({"name": OID.get(base, "urn:x-c10:unknown:" + base), "name_format": URI,
                            "friendly_name": base, "values": [], "required": rng.random() < 0.75})
            if rng.random() < 0.7:
                sp["ras"] = ras
            if rng.random() < 0.25 and sps:
                sp["ras"] = copy.deepcopy(sps[0]["ras"])
            sps.append(sp)
        policy = gen_policy(rng, identity, sps, use_custom)
        if rng.random() < 0.7:
            mods = rng.sample(["swamid", "edugain", "refeds", "incommon"], rng.choice([1, 1, 2]))
            if use_custom and rng.random() < 0.5:
                mods.append(CUSTOM)
            sec = {"ar": None, "ar_key": False, "fomr": rng.choice([None, False, False]), "ec": mods, "ec_key": True,
                   "lifetime": True, "nonempty": True}
            policy = [[w, s_] for w, s_ in (policy or []) if w != "default"] + [["default", sec]]
        custom = {CUSTOM: gen_custom(rng)} if use_custom else {}
        base = {"op": "sequence", "policy": policy, "sps": sps, "custom": custom}

        def mk(sp, op=None, ident=None):
            op = op or rng.choice(["restrict", "restrict", "apply_policy", "authn_response", "setup_assertion",
                                   "attribute_response", "filter"])
            st = {"op": op, "sp": sp, "identity": ident if ident is not None else identity}
            if op == "filter":
                ras = gen_ras(rng, st["identity"], prefer, direct=True)
                st["req"] = [r for r in ras if r["required"]]
                st["opt"] = [r for r in ras if not r["required"]]
                st["has_mds"] = rng.random() < 0.9
            if op == "authn_response":
                st["best_effort"] = rng.choice([None, False, True])
            if op == "setup_assertion":
                st["best_effort"] = rng.choice([False, True])
            return st

        c = rng.random()
        if c < 0.55:
            # different requesters, one request each, the same entry point: every order
            op = rng.choice(["restrict", "restrict", "authn_response", "apply_policy", "attribute_response"])
            steps = [mk(sp["entity_id"], op) for sp in sps]
            for perm in _permutations(steps):
                yield dict(base, steps=perm)
        elif c < 0.75:
            # mixed entry points, 2-4 steps
            steps = [mk(rng.choice(sps)["entity_id"]) for _ in range(rng.choice([2, 3, 4]))]
            yield dict(base, steps=steps)
            yield dict(base, steps=list(reversed(steps)))
        elif c < 0.9:
            # the same requester again with a changed identity (and another requester in between, sometimes)
            sp = rng.choice(sps)["entity_id"]
            op = rng.choice(["restrict", "authn_response", "apply_policy"])
            ident2 = gen_identity(rng, prefer)
            steps = [mk(sp, op), mk(sp, op, ident2)]
            if rng.random() < 0.5:
                steps.insert(1, mk(rng.choice(sps)["entity_id"], op))
            yield dict(base, steps=steps)
            yield dict(base, steps=list(reversed(steps)))
        else:
            # Policy.filter called for one requester with different requested-attribute lists
            sp = rng.choice(sps)["entity_id"]
            steps = [mk(sp, "filter"), mk(sp, "filter"), mk(sp, "restrict")]
            for perm in _permutations(steps):
                yield dict(base, steps=perm)


SP3 = "https://sp3.c10.example/sp"


def _req_ras(attrs, required=True):
    return [{"name": OID.get(a, "urn:x-c10:unknown:" + a), "name_format": URI, "friendly_name": a,
             "values": [], "required": required} for a in attrs]


def history_sweep_cases():
    """deterministic histories on one Server with its CONFIGURED policy: issue, Server.reload_metadata with the
    requester's metadata changed, issue again (create_authn_response / create_attribute_response); each release is
    judged against the metadata in force at that step"""
    tables = _bundled()
    every = []
    for _, entries in tables:
        for e in entries:
            for a in e[2]:
                if a not in every:
                    every.append(a)
    identity = [[a, {"l": ["v-" + a]}] for a in every] + [["x-unlisted", {"l": ["v"]}]]
    sec = {"ar": None, "ar_key": False, "fomr": False, "ec": [], "ec_key": True, "lifetime": True, "nonempty": True}

    def sp(eid=SP1, cats=(), ras=(), ra=None, subj=None):
        return {"entity_id": eid, "ra": ra, "cats": list(cats), "subj": subj, "ras": list(ras), "split": False}

    def hist(policy, before, after, ops, ident=identity, who=SP1):
        for op in ops:
            st = {"op": op, "sp": who, "identity": ident}
            if op == "authn_response":
                st["best_effort"] = None
            yield {"op": "sequence", "policy": policy, "sps": before, "custom": {},
                   "steps": [dict(st), {"op": "reload", "sps": after}, dict(st)]}

    # entity category withdrawn / granted, per bundled RELEASE item
    for name, entries in tables:
        for kind, keys, attrs, o, n in entries:
            if kind == 0:
                continue
            ras = _req_ras(attrs[:2])
            pol = [["default", dict(sec, ec=[name])]]
            for c in hist(pol, [sp(cats=keys, ras=ras)], [sp(cats=[], ras=ras)], ("authn_response",)):
                yield c
            for c in hist(pol, [sp(cats=[], ras=ras)], [sp(cats=keys, ras=ras)], ("attribute_response",)):
                yield c
    ident = [["mail", {"l": ["a@b.c"]}], ["sn", {"l": ["Jeter"]}], ["givenName", {"s": "Derek"}],
             ["pairwise-id", {"l": ["p1@idp.example"]}], ["title", {"l": ["x"]}]]
    ops = ("authn_response", "attribute_response", "restrict")
    nofail = [["default", dict(sec, ec=[], ec_key=False)]]
    # RequestedAttributes narrowed / widened / required flag flipped
    wide, narrow = _req_ras(["mail", "sn", "givenName"]), _req_ras(["mail"])
    for a, b in ((wide, narrow), (narrow, wide), (_req_ras(["mail", "sn"]), _req_ras(["mail"]) + _req_ras(["sn"], False))):
        for c in hist(nofail, [sp(ras=a)], [sp(ras=b)], ops, ident):
            yield c
    # ONLY_REQUIRED category with changed requirements
    coco = ["http://www.geant.net/uri/dataprotection-code-of-conduct/v1"]
    for c in hist([["default", dict(sec, ec=["swamid"])]], [sp(cats=coco, ras=_req_ras(["mail", "sn"]))],
                  [sp(cats=coco, ras=_req_ras(["givenName"]))], ops, ident):
        yield c
    # registration authority changed / dropped: sections of both authorities and a default
    pol = [[RA1, dict(sec, ec=[], ec_key=False, ar=[["mail", None]], ar_key=True)],
           [RA2, dict(sec, ec=[], ec_key=False, ar=[["sn", None]], ar_key=True)],
           ["default", dict(sec, ec=[], ec_key=False, ar=[["title", None]], ar_key=True)]]
    for a, b in ((RA1, RA2), (RA1, None), (None, RA2)):
        for c in hist(pol, [sp(ra=a)], [sp(ra=b)], ops, ident):
            yield c
    # subject-id requirement added / removed (failing on missing in effect: the user holds pairwise-id only)
    strict = [["default", dict(sec, ec=[], ec_key=False, fomr=True)]]
    for a, b in ((None, "pairwise-id"), ("pairwise-id", None), (None, "subject-id"), ("any", None)):
        for c in hist(strict, [sp(ras=narrow, subj=a)], [sp(ras=narrow, subj=b)], ops, ident):
            yield c
    # requester removed (only Policy-level entry points can be asked then) / another requester added
    for c in hist(nofail, [sp(ras=narrow), sp(SP2, ras=wide)], [sp(SP2, ras=wide)], ("restrict", "apply_policy"), ident):
        yield c
    for c in hist(nofail, [sp(ras=narrow)], [sp(ras=narrow), sp(SP2, ras=wide)], ops, ident, who=SP1):
        yield c
    for op in ("authn_response", "attribute_response"):
        st = {"op": op, "sp": SP2, "identity": ident}
        if op == "authn_response":
            st["best_effort"] = None
        yield {"op": "sequence", "policy": nofail, "sps": [sp(ras=narrow)], "custom": {},
               "steps": [dict(st, sp=SP1), {"op": "reload", "sps": [sp(ras=narrow), sp(SP2, ras=wide)]}, st]}


def mutate_sp(rng, sp, identity, prefer):
    """one release-relevant change of a requester's metadata"""
    sp = copy.deepcopy(sp)
    pool = all_categories() + CC
    c = rng.randrange(8)
    if c == 0:
        sp["cats"] = []
    elif c == 1:
        sp["cats"] = sp["cats"][:-1] if sp["cats"] else rng.sample(pool, 1)
    elif c == 2:
        sp["cats"] = list(sp["cats"]) + rng.sample(pool, rng.choice([1, 2]))
    elif c == 3:
        sp["ras"] = sp["ras"][: len(sp["ras"]) // 2]
    elif c == 4:
        sp["ras"] = gen_ras(rng, identity, prefer) or _req_ras([k for k, _ in identity if k][:1])
    elif c == 5:
        for ra in sp["ras"]:
            if rng.random() < 0.6:
                ra["required"] = not ra["required"]
        if not sp["ras"]:
            sp["ras"] = _req_ras([k for k, _ in identity if k][:2])
    elif c == 6:
        sp["ra"] = rng.choice([x for x in (None, RA1, RA2) if x != sp["ra"]])
    else:
        sp["subj"] = rng.choice([x for x in (None, "any", "pairwise-id", "subject-id") if x != sp["subj"]])
    return sp


def gen_histories(rng, n_scen):
    """random histories: 1-2 reloads between 2-4 issues on one Server; mostly well-formed requirements"""
    for _ in range(n_scen):
        prefer = category_attrs(rng)
        identity = gen_identity(rng, prefer)
        while len(identity) < 3:
            identity = gen_identity(rng, prefer)
        use_custom = rng.random() < 0.3
        sps = []
        for k in range(rng.choice([1, 2, 2])):
            sp = gen_sp(rng, [SP1, SP2][k], identity, prefer)
            have = [k_ for k_, _ in identity if k_]
            picks = rng.sample(have + prefer, min(len(have + prefer), rng.choice([1, 2, 3])))
            base = [next((l for l in LOCALS if l.lower() == a.lower()), a) for a in picks]
            if rng.random() < 0.75:
                sp["ras"] = [dict(r, required=rng.random() < 0.7) for r in _req_ras(base)]
            sps.append(sp)
        policy = gen_policy(rng, identity, sps, use_custom) or []
        policy = [[w, s_] for w, s_ in policy if w not in ("default", RA1, RA2)]
        mods = rng.sample(["swamid", "edugain", "refeds", "incommon"], rng.choice([1, 1, 2]))
        if use_custom and rng.random() < 0.5:
            mods.append(CUSTOM)
        dsec = {"ar": None, "ar_key": False, "fomr": rng.choice([None, False, False]), "ec": mods if rng.random() < 0.6 else [],
                "ec_key": True, "lifetime": True, "nonempty": True}
        policy.append(["default", dsec])
        for ra in (RA1, RA2):
            if rng.random() < 0.45:
                policy.append([ra, gen_section(rng, identity, use_custom)])
        custom = {CUSTOM: gen_custom(rng)} if use_custom else {}
        cur = sps
        steps = []

        def issue(cur_sps, allow_removed=None):
            ids = [x["entity_id"] for x in cur_sps]
            op = rng.choice(["authn_response", "authn_response", "attribute_response", "attribute_response",
                             "restrict", "apply_policy", "setup_assertion"])
            who = rng.choice(ids)
            if allow_removed and rng.random() < 0.5:
                who, op = allow_removed, rng.choice(["restrict", "apply_policy"])
            st = {"op": op, "sp": who, "identity": identity if rng.random() < 0.8 else gen_identity(rng, prefer)}
            if op == "authn_response":
                st["best_effort"] = rng.choice([None, None, True])
            if op == "setup_assertion":
                st["best_effort"] = rng.choice([False, True])
            return st

        steps.append(issue(cur))
        for _r in range(rng.choice([1, 1, 2])):
            new = [mutate_sp(rng, sp, identity, prefer) if rng.random() < 0.8 else copy.deepcopy(sp) for sp in cur]
            removed = None
            c = rng.random()
            if c < 0.12 and len(new) > 1:
                removed = new.pop(rng.randrange(len(new)))["entity_id"]
            elif c < 0.3 and not any(x["entity_id"] == SP3 for x in new):
                new.append(gen_sp(rng, SP3, identity, prefer))
            steps.append({"op": "reload", "sps": new})
            cur = new
            # the requester asked before the reload is asked again (its metadata changed), sometimes another one too
            prev = steps[-2] if steps[-2]["op"] != "reload" else steps[0]
            if any(x["entity_id"] == prev["sp"] for x in cur):
                steps.append(dict(copy.deepcopy(prev)))
            elif removed:
                steps.append(dict(copy.deepcopy(prev), op=rng.choice(["restrict", "apply_policy"])))
                steps[-1].pop("best_effort", None)
            if rng.random() < 0.4:
                steps.append(issue(cur, removed))
        yield {"op": "sequence", "policy": policy, "sps": sps, "custom": custom, "steps": steps}


def _regex_keys(policy):
    keys = set()
    for _, sec in policy or []:
        for k, pats in (sec or {}).get("ar") or []:
            if pats:
                keys.add(k.lower())
    return keys


def _inject_int(rng, case):
    """type look-alike: the user holds the int 1 beside / instead of the str "1" (the code accepts non-str
    values); only for attributes no regular expression is applied to (re.match raises TypeError on an int)"""
    cands = [i for i, (k, v) in enumerate(case["identity"]) if "l" in v and k.lower() not in _regex_keys(case["policy"])]
    if not cands:
        return
    i = rng.choice(cands)
    ident = copy.deepcopy(case["identity"])
    ident[i][1]["l"] = rng.choice([[1], [1, "1"], ["1", 1, 1], [10, "1"]]) + ident[i][1]["l"][:1]
    case["identity"] = ident
    if case["op"] == "filter":
        case["opt"] = list(case["opt"]) + [{"name": ident[i][0], "name_format": None, "friendly_name": ident[i][0],
                                            "values": [rng.choice(["1", "10", "1 "])], "required": False}]


def lookalike_sweep_cases():
    """deterministic: wherever the code compares a value or a name, every look-alike of it once"""
    def sp(ras=()):
        return {"entity_id": SP1, "ra": None, "cats": [], "subj": None, "ras": list(ras), "split": False}

    sec = {"ar": None, "ar_key": False, "fomr": False, "ec": [], "ec_key": False, "lifetime": True, "nonempty": True}
    base = {"policy": [["default", sec]], "sps": [sp()], "sp": SP1, "custom": {}, "has_mds": True}
    held_values = ["staff", "Jeter", "a@b.c", "member@example.org", "\u00fcn\u00ef"]
    # requested AttributeValue vs held value (list- and str-valued), optional and required
    for v in held_values:
        for t in lookalikes(v):
            for val in ({"l": [v]}, {"s": v}):
                for required in (False, True):
                    ra = {"name": "eduPersonAffiliation", "name_format": None, "friendly_name": "eduPersonAffiliation",
                          "values": [t], "required": required}
                    yield dict(base, op="filter", identity=[["eduPersonAffiliation", val]],
                               req=[ra] if required else [], opt=[] if required else [ra])
    # the same through requester metadata (the parser strips surrounding white space there: model input stripped too)
    for v in held_values[:3]:
        for t in lookalikes(v):
            ra = {"name": OID["eduPersonAffiliation"], "name_format": URI, "friendly_name": "eduPersonAffiliation",
                  "values": [t, "nope"], "required": False}
            yield dict(base, op="restrict", identity=[["eduPersonAffiliation", {"l": [v]}]], sps=[sp([ra])])
    # attribute NAME look-alikes: identity key vs RequestedAttribute (FriendlyName / Name) and vs restriction key
    for name in ("mail", "eduPersonAffiliation"):
        for t in lookalikes(name):
            ident = [[t, {"l": ["v"]}]]
            ra = {"name": OID[name], "name_format": URI, "friendly_name": name, "values": [], "required": False}
            yield dict(base, op="filter", identity=ident, req=[], opt=[ra])
            yield dict(base, op="filter", identity=[[name, {"l": ["v"]}]], req=[],
                       opt=[dict(ra, name="urn:x-c10:unknown:" + name, friendly_name=t)])
            yield dict(base, op="filter", identity=[[name, {"l": ["v"]}]], req=[], opt=[dict(ra, name=t, name_format=None, friendly_name=None)])
            yield dict(base, op="filter", identity=ident, req=[], opt=[],
                       policy=[["default", dict(sec, ar=[[name, None]], ar_key=True)]])
    # NameFormat look-alikes: the attribute map of the format is not consulted then
    for nf in (URI.upper(), URI + " ", URI[:-1], BASIC):
        ra = {"name": OID["mail"], "name_format": nf, "friendly_name": None, "values": [], "required": False}
        yield dict(base, op="filter", identity=[["mail", {"l": ["v"]}]], req=[], opt=[ra])
    # restriction literals vs held values: one policy, one attribute per (value, look-alike) pair
    pairs = [(v, t) for v in held_values for t in [v] + lookalikes(v)]
    names = ["x-la-%d" % i for i in range(len(pairs))]
    for suffix in ("", "$"):
        ar = [[n, [re.escape(t) + suffix]] for n, (v, t) in zip(names, pairs)]
        yield dict(base, op="filter", identity=[[n, {"l": [v]}] for n, (v, t) in zip(names, pairs)], req=[], opt=[],
                   policy=[["default", dict(sec, ar=ar, ar_key=True)]])
    # type look-alike: int 1 vs str "1"
    for held in ([1], ["1"], [1, "1"], [True]):
        for want in ("1", "True"):
            ra = {"name": "x-num", "name_format": None, "friendly_name": "x-num", "values": [want], "required": False}
            yield dict(base, op="filter", identity=[["x-num", {"l": held}]], req=[], opt=[ra])


def layout_sweep_cases():
    """deterministic: every order of the md:Extensions children (RegistrationInfo, EntityAttributes, a foreign
    element) x every shape of the EntityAttributes containers; the same attribute required by one
    AttributeConsumingService and optional in another, both orders"""
    sec = {"ar": None, "ar_key": False, "fomr": True, "ec": [], "ec_key": False, "lifetime": True, "nonempty": True}
    rs = "http://refeds.org/category/research-and-scholarship"
    ident = [["mail", {"l": ["a@b.c"]}], ["sn", {"l": ["Jeter"]}], ["title", {"l": ["x"]}]]
    # A: the registration authority's section (mail only, R&S in effect) vs an open default section
    pol_a = [[RA1, dict(sec, ar=[["mail", None]], ar_key=True, ec=["refeds"], ec_key=True)], ["default", dict(sec, fomr=False)]]
    # B: the subject-id requirement makes the release fail (the user holds no pairwise-id); strict section via RA
    pol_b = [[RA1, dict(sec, fomr=True)], ["default", dict(sec, fomr=False)]]
    orders = [[0, 1, 2, 3], [0, 2, 1, 3], [1, 0, 2, 3], [1, 2, 0, 3], [2, 0, 1, 3], [2, 1, 0, 3], [3, 2, 1, 0], [1, 3, 0, 2]]
    for order in orders:
        for ea in range(4):
            lay = {"order": order, "ea": ea, "other": True}
            spa = {"entity_id": SP1, "ra": RA1, "cats": [rs, "urn:c10:cat:a"], "subj": None, "ras": [], "split": False, "layout": lay}
            yield {"op": "restrict", "identity": ident, "policy": pol_a, "sps": [spa], "sp": SP1, "custom": {}, "has_mds": True}
            spb = dict(spa, cats=["urn:c10:cat:a", "urn:c10:cat:b"], subj="pairwise-id",
                       ras=_req_ras(["mail"], True))
            yield {"op": "restrict", "identity": ident, "policy": pol_b, "sps": [spb], "sp": SP1, "custom": {}, "has_mds": True}
    pol = [["default", dict(sec, fomr=True)]]
    for first_required in (True, False):
        for op in ("restrict", "authn_response"):
            ras = _req_ras(["mail"], first_required) + _req_ras(["title"], False) + _req_ras(["mail"], not first_required)
            ras[0]["values"], ras[2]["values"] = ["a@b.c"], ["nope"]
            spc = {"entity_id": SP1, "ra": None, "cats": [], "subj": None, "ras": ras, "split": True}
            c = {"op": op, "identity": ident, "policy": pol, "sps": [spc], "sp": SP1, "custom": {}, "has_mds": True}
            if op == "authn_response":
                c["best_effort"] = None
            yield c


def gen_cases(rng, tier):
    for c in lookalike_sweep_cases():
        yield c
    for c in layout_sweep_cases():
        yield c
    for c in sequence_sweep_cases():
        yield c
    for c in history_sweep_cases():
        yield c
    for c in gen_histories(rng, 120 if tier == "quick" else 900):
        yield c
    for c in gen_sequences(rng, 110 if tier == "quick" else 900):
        yield c
    n_scen = 430 if tier == "quick" else 2800
    per = 7 if tier == "quick" else 9
    for c in table_sweep_cases():
        yield c
    for s in range(n_scen):
        prefer = category_attrs(rng) if rng.random() < 0.6 else []
        base_identity = gen_identity(rng, prefer)
        use_custom = rng.random() < 0.4
        sps = [gen_sp(rng, SP1, base_identity, prefer)]
        if rng.random() < 0.3:
            sps.append(gen_sp(rng, SP2, base_identity, prefer))
        policy = gen_policy(rng, base_identity, sps, use_custom)
        custom = {CUSTOM: gen_custom(rng)} if use_custom else {}
        for i in range(per):
            identity = base_identity if i == 0 or rng.random() < 0.4 else gen_identity(rng, prefer)
            sp = rng.choice([x["entity_id"] for x in sps]) if rng.random() < 0.93 else SPX
            op = rng.choice(["restrict", "restrict", "filter", "filter", "apply_policy", "authn_response",
                             "authn_response", "attribute_response"])
            if sp == SPX and op in ("authn_response", "attribute_response"):
                # Entity._response looks the requester's certificates up in metadata and raises KeyError
                # for an unknown one: no Response either way (outside this property)
                op = "apply_policy"
            case = {"op": op, "identity": identity, "policy": policy, "sps": sps, "sp": sp, "custom": custom,
                    "has_mds": True}
            if op == "filter":
                ras = gen_ras(rng, identity, prefer, direct=True)
                case["req"] = [r for r in ras if r["required"]]
                case["opt"] = [r for r in ras if not r["required"]]
                case["has_mds"] = rng.random() < 0.85
            if op in ("filter", "restrict", "apply_policy") and rng.random() < 0.08:
                _inject_int(rng, case)
            if op == "authn_response":
                if rng.random() < 0.3:
                    case["op"] = "setup_assertion"  # the anchored mechanism itself, with its best_effort argument
                    case["best_effort"] = rng.choice([False, False, True])
                else:
                    case["best_effort"] = rng.choice([None, None, False, True])
            yield case


# ------------------------------------------------------------------ scenario construction


DIGEST_EXT = ('<alg:DigestMethod xmlns:alg="urn:oasis:names:tc:SAML:metadata:algsupport" '
              'Algorithm="http://www.w3.org/2001/04/xmlenc#sha256"/>')


def _ext_xml(sp):
    """children of md:Extensions.  `layout` varies only the SHAPE (order of the children, number of
    EntityAttributes containers, a foreign child, the category attribute split in two): what the requester says
    - registration authority `ra`, categories `cats`, subject-id requirement `subj` - stays what the case records,
    and that record (not the store) is what the model is given."""
    lay = sp.get("layout") or {}
    parts = []
    if sp.get("ra"):
        parts.append('<mdrpi:RegistrationInfo xmlns:mdrpi="urn:oasis:names:tc:SAML:metadata:rpi" '
                     'registrationAuthority="%s"/>' % S.xesc(sp["ra"]))

    def cat_attr(cs):
        if not cs:
            return ""
        return ('<saml:Attribute Name="http://macedir.org/entity-category" NameFormat="%s">%s</saml:Attribute>'
                % (URI, "".join("<saml:AttributeValue>%s</saml:AttributeValue>" % S.xesc(c) for c in cs)))

    subj = ""
    if sp.get("subj"):
        subj = ('<saml:Attribute Name="urn:oasis:names:tc:SAML:profiles:subject-id:req" NameFormat="%s">'
                "<saml:AttributeValue>%s</saml:AttributeValue></saml:Attribute>" % (URI, S.xesc(sp["subj"])))
    cats = list(sp.get("cats") or [])
    mode = lay.get("ea", 0)
    half = len(cats) // 2
    if mode == 1:
        containers = [cat_attr(cats), subj]
    elif mode == 2 and len(cats) >= 2:
        containers = [cat_attr(cats[:half]) + subj, cat_attr(cats[half:])]
    elif mode == 3 and len(cats) >= 2:
        containers = [cat_attr(cats[:half]) + subj + cat_attr(cats[half:])]
    else:
        containers = [cat_attr(cats) + subj]
    for c in containers:
        if c:
            parts.append('<mdattr:EntityAttributes xmlns:mdattr="urn:oasis:names:tc:SAML:metadata:attribute" '
                         'xmlns:saml="urn:oasis:names:tc:SAML:2.0:assertion">%s</mdattr:EntityAttributes>' % c)
    if lay.get("other"):
        parts.append(DIGEST_EXT)
    order = lay.get("order") or []
    idx = sorted(range(len(parts)), key=lambda i: (order[i] if i < len(order) else 99, i))
    return "".join(parts[i] for i in idx)


def _sp_entity(sp):
    e = S.default_sp_entity(entity_id=sp["entity_id"])
    ext = _ext_xml(sp)
    if ext:
        e["entity_ext"] = ext
    ras = sp["ras"]
    groups = [ras]
    if sp.get("split") and len(ras) > 1:
        groups = [ras[: len(ras) // 2], ras[len(ras) // 2:]]
    e["spsso"] = dict(e["spsso"])
    e["spsso"]["attr_cs"] = [g for g in groups if g] if ras else []
    return e


def _policy_conf(policy):
    if policy is None:
        return None
    conf = {}
    for who, sec in policy:
        if sec is None:
            conf[who] = None
            continue
        d = {}
        if sec["lifetime"]:
            d["lifetime"] = {"minutes": 15}
        if sec["ar_key"]:
            d["attribute_restrictions"] = None if sec["ar"] is None else {k: v for k, v in sec["ar"]}
        if sec["fomr"] is not None:
            d["fail_on_missing_requested"] = sec["fomr"]
        if sec["ec_key"]:
            d["entity_categories"] = list(sec["ec"])
        conf[who] = d
    return conf


def _install_custom(custom):
    for name, entries in custom.items():
        mod = types.ModuleType(name)
        mod.RELEASE, mod.ONLY_REQUIRED, mod.NO_AGGREGATION = {}, {}, {}
        for kind, keys, attrs, o, n in entries:
            key = "" if kind == 0 else keys[0] if kind == 1 else tuple(keys)
            mod.RELEASE[key] = list(attrs)
            if o:
                mod.ONLY_REQUIRED[key] = True
            if n:
                mod.NO_AGGREGATION[key] = True
        sys.modules[name] = mod


def _idp(case):
    key = repr((case["sps"], case["policy"], case["custom"]))
    if _state.get("key") != key:
        _state.clear()
        idp, pconf = _build_idp(case)
        _state["key"] = key
        _state["idp"] = idp
        _state["pconf"] = pconf
    return _state["idp"]


# ------------------------------------------------------------------ implementation side


def _py_identity(identity):
    return {k: (v["s"] if "s" in v else list(v["l"])) for k, v in identity}


def has_ints(identity):
    return any("l" in v and any(not isinstance(x, str) for x in v["l"]) for _, v in identity)


def _canon_ava(d):
    out = []
    for k, v in d.items():
        if isinstance(v, str):
            out.append([k, {"s": v}])
        else:
            out.append([k, {"l": [x if isinstance(x, str) else INT + str(x) for x in v]}])
    return out


def _ra_dict(ra):
    d = {"name": ra["name"]}
    if ra.get("name_format") is not None:
        d["name_format"] = ra["name_format"]
    if ra.get("friendly_name") is not None:
        d["friendly_name"] = ra["friendly_name"]
    if ra.get("values"):
        d["attribute_value"] = [({"text": v} if v != "" else {}) for v in ra["values"]]
    return d


def _subj_ras(kind):
    names = {"any": ["pairwise-id", "subject-id"], "pairwise-id": ["pairwise-id"], "subject-id": ["subject-id"]}
    return [{"name": "urn:oasis:names:tc:SAML:attribute:" + n, "name_format": URI, "friendly_name": n, "values": []}
            for n in names.get(kind, [])]


def _env(case):
    """values of the model's abstract parameters on the strings of this case (real Python functions)"""
    from saml2.attribute_converter import ac_factory

    if "acs" not in _tables:
        _tables["acs"] = ac_factory()
    ras = []
    if case["op"] == "filter":
        ras = list(case["req"]) + list(case["opt"])
    else:
        for sp in case["sps"]:
            if sp["entity_id"] == case["sp"]:
                ras = list(sp["ras"]) + _subj_ras(sp.get("subj"))
    strings = set()
    idvals, scalars = set(), set()
    for k, v in case["identity"]:
        strings.add(k)
        if "s" in v:
            idvals.add(v["s"])
            scalars.add(v["s"])
        else:
            idvals.update(x for x in v["l"] if isinstance(x, str))
    names = set()
    reqvals = set()
    for ra in ras:
        names.add(ra["name"])
        names.add(ra["name"].lower())
        strings.add(ra["name"])
        if ra.get("friendly_name"):
            strings.add(ra["friendly_name"])
        reqvals.update(v for v in ra.get("values", []))
    acs = []
    for ac in _tables["acs"]:
        tbl = [[k, ac._fro[k]] for k in sorted(names) if k in ac._fro]
        for _, loc in tbl:
            strings.add(loc)
        acs.append([ac.name_format, tbl])
    pats = set()
    for who, sec in case["policy"] or []:
        if sec and sec.get("ar"):
            for k, ps in sec["ar"]:
                strings.add(k)
                pats.update(ps or [])
    for entries in case["custom"].values():
        for e in entries:
            strings.update(e[2])
    closure = set(strings)
    for s in strings:
        closure.add(s.lower())
    return {
        "lower": [[s, s.lower()] for s in sorted(closure)],
        "match": [[p, v, bool(re.compile(p).match(v))] for p in sorted(pats) for v in sorted(idvals)],
        "acs": acs,
    }


def _read_response(resp):
    """independent reader: status + attribute statement of the created Response"""
    root = ET.fromstring(str(resp))
    P = "{urn:oasis:names:tc:SAML:2.0:protocol}"
    A = "{urn:oasis:names:tc:SAML:2.0:assertion}"
    code = root.find(P + "Status/" + P + "StatusCode")
    assertions = root.findall(A + "Assertion")
    if code is None or code.get("Value") != "urn:oasis:names:tc:SAML:2.0:status:Success" or not assertions:
        if assertions:
            raise AssertionError("error status together with an assertion")
        return {"r": "error_response"}
    return _read_attribute_statements(assertions)


def _read_attribute_statements(assertions):
    A = "{urn:oasis:names:tc:SAML:2.0:assertion}"
    ava = {}
    for a in assertions:
        for st in a.findall(A + "AttributeStatement"):
            for at in st.findall(A + "Attribute"):
                k = at.get("FriendlyName") if at.get("FriendlyName") is not None else at.get("Name")
                vals = ava.setdefault(k, [])
                for av in at.findall(A + "AttributeValue"):
                    nid = av.find(A + "NameID")
                    vals.append((nid.text if nid is not None else av.text) or "")
    return {"r": "assertion", "ava": [[k, {"l": v}] for k, v in ava.items()]}


def _read_setup_result(res):
    """Server.setup_assertion returns a saml.Assertion, or the lines of an error Response"""
    if isinstance(res, list):
        return _read_response("\n".join(res))
    root = ET.fromstring(str(res))
    if root.tag != "{urn:oasis:names:tc:SAML:2.0:assertion}Assertion":
        raise AssertionError("unexpected result of setup_assertion: %s" % root.tag)
    return _read_attribute_statements([root])


STEP_FIELDS = ("op", "sp", "identity", "req", "opt", "best_effort", "has_mds")


def governing(case, i):
    """index of the reload step whose metadata is in force at step i (None = the metadata the Server was built with)"""
    g = None
    for j in range(i):
        if case["steps"][j]["op"] == "reload":
            g = j
    return g


def step_case(case, i):
    """the single-step case the i-th step of a sequence amounts to: step fields override shared ones, the
    requester metadata is the one in force at that step (last `reload` before it)"""
    c = {k: v for k, v in case.items() if k != "steps"}
    g = governing(case, i)
    if g is not None:
        c["sps"] = case["steps"][g]["sps"]
    st = case["steps"][i]
    c.update({k: v for k, v in st.items() if not (st["op"] == "reload" and k == "sps")})
    c.setdefault("has_mds", True)
    return c


def _build_idp(case):
    from saml2.assertion import Policy  # noqa: F401

    _install_custom(case["custom"])
    pconf = _policy_conf(case["policy"])
    conf = S.idp_config(sp_entities=[_sp_entity(sp) for sp in case["sps"]])
    conf["service"]["idp"]["policy"] = copy.deepcopy(pconf)
    conf["service"]["aa"] = {
        "endpoints": {"attribute_service": [("https://idp.verif.example/aa/soap", S.BINDING_SOAP)]},
        "policy": copy.deepcopy(pconf),
    }
    return S.make_idp(conf), pconf


def run_impl(case):
    from saml2.assertion import Policy

    if case["op"] == "sequence":
        # ONE Server (whose configuration holds ONE Policy per service) and one metadata-less Policy answer
        # every step; nothing is shared with other cases, so the sequence is its own replay
        idp, pconf = _build_idp(case)
        pols = {"mds": idp.config.getattr("policy", "idp"), "nomds": Policy(copy.deepcopy(pconf), None)}
        outs = []
        for i, st in enumerate(case["steps"]):
            if st["op"] == "reload":
                # Server.reload_metadata with the requester metadata changed; what follows is judged against it
                ok = idp.reload_metadata({"inline": [S.metadata_xml([_sp_entity(sp) for sp in st["sps"]])]})
                outs.append({"r": "reloaded" if ok else "reload_failed", "unchanged": True, "env": {}})
            else:
                outs.append(_run_step(step_case(case, i), idp, pols))
        return {"steps": outs}
    idp = _idp(case)
    # single-step cases are self-contained: fresh Policy objects, also inside the cached Server
    pconf = _state["pconf"]
    idp.config.setattr("idp", "policy", Policy(copy.deepcopy(pconf), idp.metadata))
    idp.config.setattr("aa", "policy", Policy(copy.deepcopy(pconf), idp.metadata))
    pols = {"mds": Policy(copy.deepcopy(pconf), idp.metadata), "nomds": Policy(copy.deepcopy(pconf), None)}
    return _run_step(case, idp, pols)


def _run_step(case, idp, pols):
    from saml2 import saml
    from saml2.assertion import Assertion
    from saml2.s_utils import MissingValue

    op = case["op"]
    env = _env(case)
    ident = _py_identity(case["identity"])
    before = copy.deepcopy(ident)
    out = None
    res = resp = None
    if op in ("filter", "restrict", "apply_policy"):
        pol = pols["nomds"] if (op == "filter" and not case["has_mds"]) else pols["mds"]
        try:
            if op == "filter":
                req = [_ra_dict(r) for r in case["req"]]
                opt = [_ra_dict(r) for r in case["opt"]]
                res = pol.filter(ident, case["sp"], required=req, optional=opt)
                out = {"r": "ok", "ava": _canon_ava(res)}
            elif op == "restrict":
                res = pol.restrict(ident, case["sp"])
                out = {"r": "ok", "ava": _canon_ava(res)}
            else:
                ast = Assertion(ident)
                res = ast.apply_policy(case["sp"], pol)
                out = {"r": "ok", "ava": _canon_ava(res), "self": _canon_ava(dict(ast))}
        except MissingValue:
            out = {"r": "missing"}
        except (AttributeError, KeyError, TypeError) as e:  # what the anchored code raises on malformed requests
            out = {"r": "crash", "exc": type(e).__name__}
        if op == "apply_policy" and out["r"] != "ok":
            out["self"] = _canon_ava(dict(ast))
    else:
        nid = saml.NameID(text="subject-c10", format=saml.NAMEID_FORMAT_TRANSIENT)
        try:
            with S.clock(S.NOW0):
                if op == "setup_assertion":
                    res = idp.setup_assertion(
                        {"class_ref": "urn:oasis:names:tc:SAML:2.0:ac:classes:Password", "authn_auth": "c10"},
                        case["sp"], "id-c10", S.SP_ACS_POST, nid, idp.config.getattr("policy", "idp"),
                        idp._issuer(), None, ident, bool(case["best_effort"]), False)
                    resp = None
                elif op == "authn_response":
                    kw = {} if case.get("best_effort") is None else {"best_effort": case["best_effort"]}
                    resp = idp.create_authn_response(
                        ident, "id-c10", S.SP_ACS_POST, case["sp"], name_id=nid,
                        authn={"class_ref": "urn:oasis:names:tc:SAML:2.0:ac:classes:Password", "authn_auth": "c10"},
                        sign_response=False, sign_assertion=False, **kw)
                else:
                    resp = idp.create_attribute_response(ident, "id-c10", S.SP_ACS_POST, case["sp"], name_id=nid,
                                                         sign_response=False, sign_assertion=False)
            out = _read_setup_result(res) if op == "setup_assertion" else _read_response(resp)
        except MissingValue:
            out = {"r": "raised", "e": "missing"}
        except (AttributeError, KeyError, TypeError, UnboundLocalError) as e:
            out = {"r": "raised", "e": "crash", "exc": type(e).__name__}
    out["unchanged"] = (ident == before)
    out["env"] = env
    return out


# ------------------------------------------------------------------ comparison / classification


def _norm_ava(ava, wire):
    d = {}
    for k, v in ava or []:
        if "s" in v and not wire:
            d[k] = ("s", v["s"])
        else:
            d[k] = ("l", tuple(sorted(x if isinstance(x, str) else INT + str(x)
                                      for x in ([v["s"]] if "s" in v else v["l"]))))
    return d


def _norm(case, o):
    if o is None:
        return None
    # released data = attribute -> values; a str value and a one-element list are the same release
    wire = True
    res = {"r": o.get("r"), "unchanged": o.get("unchanged")}
    if "e" in o:
        res["e"] = o["e"]
    if "ava" in o:
        res["ava"] = _norm_ava(o["ava"], wire)
        if wire:  # an attribute without values produces an Attribute element without values: keep it
            res["ava"] = {k: v for k, v in res["ava"].items()}
    if case["op"] == "apply_policy":
        res["self"] = _norm_ava(o.get("self"), False)
    return res


def compare(case, impl, model):
    if not isinstance(model, dict):
        return False
    if case["op"] == "sequence":
        si, sm = impl.get("steps") or [], model.get("steps") or []
        if not (len(si) == len(sm) == len(case["steps"])):
            return False
        for i, st in enumerate(case["steps"]):
            if st["op"] == "reload":
                if si[i].get("r") != ((sm[i] or {}).get("out") or {}).get("r"):
                    return False
            elif not compare(step_case(case, i), si[i], sm[i]):
                return False
        return True
    m = dict(model.get("out") or {})
    m["unchanged"] = model.get("unchanged")
    if "self" in model:
        m["self"] = model["self"]
    return _norm(case, impl) == _norm(case, m)


def nontrivial(case, impl, lean):
    if case["op"] == "sequence":
        return True
    f = lean.get("features") or []
    return "nofilter" not in f or "restr" in f


def finding_key(case, impl, lean):
    """Root-cause class of a spec failure.  A key is returned only when the implementation did exactly
    what the model of the recorded defect predicts (impl == model) and the side condition that
    delimits the class is violated on this input."""
    if case["op"] == "sequence":
        # known only if EVERY failing step is, by itself, the known finding
        keys = set()
        for i, (si, sl) in enumerate(zip(impl.get("steps") or [], lean.get("steps") or [])):
            if sl.get("spec_impl") is False:
                keys.add(None if case["steps"][i]["op"] == "reload" else finding_key(step_case(case, i), si, sl))
        return keys.pop() if len(keys) == 1 else None
    if not compare(case, impl, lean.get("model")):
        return None
    if lean.get("spec_model") is not False:
        return None
    if case["op"] in ("authn_response", "setup_assertion") and (lean.get("inner") or {}).get("r") == "missing" \
            and impl.get("r") == "assertion":
        # MissingValue swallowed: the assertion carries exactly the caller's identity
        if _norm_ava(impl.get("ava"), True) == _norm_ava(case["identity"], True):
            return KEY_F8
    return None


def _shrink_sequence(case):
    steps = case["steps"]
    if len(steps) > 1:
        for i in range(len(steps)):
            c = copy.deepcopy(case)
            del c["steps"][i]
            yield c
    for i in range(len(steps)):
        if steps[i]["op"] == "reload":
            # fewer differences to the metadata in force before: take entries back one at a time
            prev = step_case(case, i)["sps"]
            if steps[i]["sps"] != prev:
                by = {sp["entity_id"]: sp for sp in prev}
                for j, sp in enumerate(steps[i]["sps"]):
                    old = by.get(sp["entity_id"])
                    if old is None:
                        c = copy.deepcopy(case)
                        del c["steps"][i]["sps"][j]
                        yield c
                        continue
                    for fld in ("cats", "ra", "subj", "ras", "split"):
                        if sp.get(fld) != old.get(fld):
                            c = copy.deepcopy(case)
                            c["steps"][i]["sps"][j][fld] = copy.deepcopy(old.get(fld))
                            yield c
            continue
        g = governing(case, i)
        same = [k for k in range(len(steps)) if steps[k]["op"] != "reload" and governing(case, k) == g]
        used = {steps[k]["sp"] for k in same}
        for cand in shrink(step_case(case, i)):
            if not used <= ({sp["entity_id"] for sp in cand["sps"]} | {SPX}):
                continue
            c = copy.deepcopy(case)
            c["policy"], c["custom"] = cand["policy"], cand["custom"]
            if g is None:
                c["sps"] = cand["sps"]
            else:
                c["steps"][g]["sps"] = cand["sps"]
            c["steps"][i] = {k: cand[k] for k in STEP_FIELDS if k in case["steps"][i]}
            yield c


def shrink(case):
    if case["op"] == "sequence":
        for c in _shrink_sequence(case):
            yield c
        return

    def w(**kw):
        c = copy.deepcopy(case)
        c.update(kw)
        return c

    ident = case["identity"]
    for i in range(len(ident)):
        yield w(identity=ident[:i] + ident[i + 1:])
    for i, (k, v) in enumerate(ident):
        if "l" in v and len(v["l"]) > 1:
            for j in range(len(v["l"])):
                c = copy.deepcopy(case)
                del c["identity"][i][1]["l"][j]
                yield c
    if case.get("policy"):
        yield w(policy=None)
        for i in range(len(case["policy"])):
            yield w(policy=case["policy"][:i] + case["policy"][i + 1:])
        for i, (who, sec) in enumerate(case["policy"]):
            if sec:
                for fld, val in (("ec", []), ("ar", None), ("fomr", None), ("lifetime", False)):
                    if sec.get(fld) not in (val, None) or (fld == "ar" and sec.get("ar") is not None):
                        c = copy.deepcopy(case)
                        c["policy"][i][1][fld] = val
                        s2 = c["policy"][i][1]
                        s2["nonempty"] = bool(s2["ar_key"] or s2["fomr"] is not None or s2["ec_key"] or s2["lifetime"])
                        yield c
                if sec.get("ar"):
                    for j in range(len(sec["ar"])):
                        c = copy.deepcopy(case)
                        del c["policy"][i][1]["ar"][j]
                        yield c
    if case.get("custom"):
        if not any(CUSTOM in (sec or {}).get("ec", []) for _, sec in case.get("policy") or []):
            yield w(custom={})
    if case["op"] == "filter":
        for fld in ("req", "opt"):
            for i in range(len(case[fld])):
                yield w(**{fld: case[fld][:i] + case[fld][i + 1:]})
            for i, ra in enumerate(case[fld]):
                if ra.get("values"):
                    c = copy.deepcopy(case)
                    c[fld][i]["values"] = ra["values"][:-1]
                    yield c
    sps = case["sps"]
    if len(sps) > 1:
        for i in range(len(sps)):
            if sps[i]["entity_id"] != case["sp"]:
                yield w(sps=sps[:i] + sps[i + 1:])
    for i, sp in enumerate(sps):
        if sp["entity_id"] != case["sp"]:
            continue
        for j in range(len(sp["ras"])):
            c = copy.deepcopy(case)
            del c["sps"][i]["ras"][j]
            yield c
        for j, ra in enumerate(sp["ras"]):
            if ra.get("values"):
                c = copy.deepcopy(case)
                c["sps"][i]["ras"][j]["values"] = ra["values"][:-1]
                yield c
        for fld, val in (("cats", []), ("ra", None), ("subj", None), ("split", False)):
            if sp.get(fld) not in (val, None, False):
                c = copy.deepcopy(case)
                c["sps"][i][fld] = val
                yield c


def neighbours(case, rng):
    """directed search around a disagreement: the same scenario through every entry point"""
    if case["op"] == "sequence":
        if any(st["op"] == "reload" for st in case["steps"]):
            # a history: every prefix, and the history with one non-reload step left out
            n = len(case["steps"])
            for k in range(1, n):
                c = copy.deepcopy(case)
                c["steps"] = case["steps"][:k]
                yield c
            for k in range(n):
                if case["steps"][k]["op"] != "reload":
                    c = copy.deepcopy(case)
                    del c["steps"][k]
                    yield c
            return
        # every step alone, every pair in both orders
        n = len(case["steps"])
        for i in range(n):
            c = copy.deepcopy(case)
            c["steps"] = [case["steps"][i]]
            yield c
            for j in range(n):
                if i != j:
                    c = copy.deepcopy(case)
                    c["steps"] = [case["steps"][i], case["steps"][j]]
                    yield c
        return
    for op in ("restrict", "apply_policy", "authn_response", "attribute_response", "setup_assertion"):
        if has_ints(case["identity"]) and op not in ("restrict", "apply_policy"):
            continue  # non-str values are compared at Policy level only (on the wire 1 and "1" look the same)
        if op != case["op"] and case["op"] != "filter":
            c = copy.deepcopy(case)
            c["op"] = op
            if op == "setup_assertion":
                c["best_effort"] = False
            yield c
    for c in list(shrink(case))[:60]:
        yield c


def distribution(recs):
    d = {"op": {}, "impl": {}, "features": {}, "identity_size": {}, "scalar_attrs": 0}
    d["sequence_steps"] = {}
    d["sequence_kinds"] = {}
    for r in recs:
        c = r["case"]
        d["op"][c["op"]] = d["op"].get(c["op"], 0) + 1
        if c["op"] == "sequence":
            for st in c["steps"]:
                k = "step:" + st["op"]
                d["sequence_steps"][k] = d["sequence_steps"].get(k, 0) + 1
            for k in sequence_kinds(c):
                d["sequence_kinds"][k] = d["sequence_kinds"].get(k, 0) + 1
            for f in r["lean"].get("features") or []:
                d["features"][f] = d["features"].get(f, 0) + 1
            continue
        k = r["impl"].get("r", "?") + ("-" + r["impl"]["e"] if "e" in r["impl"] else "")
        d["impl"][k] = d["impl"].get(k, 0) + 1
        for f in r["lean"].get("features") or []:
            d["features"][f] = d["features"].get(f, 0) + 1
        n = str(len(c["identity"]))
        d["identity_size"][n] = d["identity_size"].get(n, 0) + 1
        d["scalar_attrs"] += sum(1 for _, v in c["identity"] if "s" in v)
    return d
