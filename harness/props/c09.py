"""C09 — issued assertions are scoped to the requester and accepted end to end: correspondence harness.

Flow of one case (all real pysaml2 code, in-process, virtual clock, xmlsec1 stand-in):

  requester  Saml2Client.create_authn_request(message_id=…, binding=…, name_id_policy=…)
  IdP        Server.parse_authn_request → Server.response_args          (in_response_to, destination, sp_entity_id, NameIDPolicy)
  IdP        IdentDB pre-loaded through IdentDB.store (the user's earlier identifiers)
  IdP        Server.create_authn_response(identity, **response_args, userid/name_id/authn/sign_*/…)
  reader     the produced Response is read by xml.etree (nothing of saml2) into the abstract `Issued`
  receiver   Saml2Client.parse_authn_request_response(packed message, binding, outstanding)

The Lean driver gets the abstract case + (Issued, SP outcome); it answers with the model's
(Idp.create, Sp.process ∘ toSp) and the spec verdicts.  Released attributes / name mapping are a
parameter of the model: the generated identities only use attributes of the bundled maps and the
policies never restrict attributes, so released = identity (as the application wrote it)."""
import base64
import calendar
import copy
import re
import time
import xml.etree.ElementTree as ET
import zlib

import scenario as S
from translate import idp_defaults, spdefaults

PROP = "C09"
LEAN_PROPS = "PysamlModel.Props.C09"
MODEL_TARGETS = ["PysamlModel.Model.Idp", "PysamlModel.Spec.C09", "PysamlModel.Gen.IdpDefaults", "PysamlModel.Gen.SpDefaults"]
AUDIT = "PysamlModel/Audit/C09.lean"
DRIVER = "Drivers/C09.lean"
GEN = [idp_defaults.generate, spdefaults.generate]
PARALLEL = True
EXHAUSTIVE = False
CORRESPONDENCE = ("Drivers/C09.lean (Idp.create; Sp.process ∘ Idp.toSp) vs Server.create_authn_response read back by an "
                  "independent XML reader, and Saml2Client.parse_authn_request_response on that very message")
RULE = ("every public entry point x complete sign_response/sign_assertion argument matrix x (a)symmetric configurations "
        "(162 cells) + all 81 pairs of configuration forms of the two boolean options (324 cases) + complete product of create_authn_response's shaping arguments (22 farg trees x 7 authn dictionaries x "
        "session_not_on_or_after x 3 status x name_id given or not = 1848 cells) + the PEFIM profile and the error Responses, complete "
        "(pefim x requester publishes an encryption certificate x requester requires a missing attribute x best_effort x sign_* x 9 farg "
        "trees; unreadable identifier store x name_id given x entry point x certificate x signing by argument/configuration = 936 cells) "
        "+ random IdP configurations (sign_response/sign_assertion/algorithms/policy per requester, registration authority, "
        "default and \"\" entries/domain) x arguments (requester, binding, NameIDPolicy, stored identifiers, explicit NameID, "
        "authn dictionary, sign_* and algorithm arguments, session_not_on_or_after, release_policy, clock) x receiving SP "
        "(signature options, allow_unsolicited, skew, clock offset at the window boundaries, outstanding set, trusted or "
        "foreign IdP key, receiver/binding mismatch); non-trivial = a Response was created; distinct = distinct case JSON")
TRUSTED = [
    "xmlsec1 stand-in (harness/standin/xmlsec_standin.py) signs for the IdP and verifies for the SP; real RSA via `cryptography`",
    "independent XML reader in harness/props/c09.py (xml.etree) turns the produced Response into the abstract Issued record",
    "ideal cryptography in the Lean model: a signature the IdP made verifies at an SP iff the SP's metadata binds that key to the IdP",
    "released attributes and the local<->wire name mapping are parameters of the model (C10 / C17); the harness checks the real SP "
    "recovers exactly the identity the IdP was given, through the real converters",
    "random identifiers (Response/Assertion ID, SessionIndex, NameID value) are fresh-value parameters; the harness replaces them by "
    "FRESH / SESSION after checking their shape",
    "virtual clock installed by harness/scenario.py; IdP and SP run under (possibly different) pinned instants",
    "translators harness/translate/idp_defaults.py (observes defaults / allow-lists / constants on the imported saml2) and "
    "spdefaults.py (the SP's attribute_defaults, for options a receiving SP leaves unset)",
]
ASSUMPTIONS = [
    "encrypt_assertion unset and no encrypt_cert_* arguments (part-C of Entity._response and the certificate sources are C16); pefim IS "
    "generated: the advice assertion is read in clear, or opened by the reader with the requester's committed decryption key in the "
    "stand-in's encoding; every receiving SP holds that key; algorithms outside the allow-lists are not combined with pefim "
    "(part-B signs without the allow-list test)",
    "the identifier store either works or raises OSError on every read (UnavailableStore); 'a requester requires an attribute nobody "
    "has' is ONE RequestedAttribute isRequired=true outside the identity pool (requirements that CAN be met change what is released: C10)",
    "the optional arguments issuer= and authn_statement= are not passed (they replace the fields the property talks about); "
    "farg= trees and status= ARE generated: complete product of the shaping arguments plus random partial trees; the model gets "
    "the abstract tree (what is preset on the paths the code reads), the code one concrete rendering of it; a preset Method is "
    "never the empty string; no key_info is supplied for holder-of-key; authn keys authn_instant/subject_locality/decl_ref are not used",
    "consumer URL, request ID and requester entityID are non-empty; identifiers stored in the IdentDB carry a Format",
    "algorithm URIs outside the allow-lists are only generated together with a demanded Response signature (assertion-only signing "
    "does not test the allow-list and then depends on what the xmlsec backend supports); RIPEMD160 is not generated (stand-in)",
    "identity attributes are taken from the bundled attribute maps, values are non-empty strings without surrounding whitespace",
    "the SP stage uses HTTP-POST / HTTP-Redirect delivery, no conv_info",
    "boolean options of the idp section are generated as None/True/False/\"true\"/\"false\"/\"True\"/\"\"/0/1; other strings "
    "(\"False\", \"no\", \"TRUE\" …) are stored as strings and read as true by the code and are not generated; lifetime is a "
    "dictionary (a number makes in_a_while raise TypeError); algorithm options are URIs or \"\"",
    "entry points: create_authn_response, create_authn_request_response, create_ecp_authn_request_response (IdP stage only, "
    "its SOAP envelope is unwrapped by the reader); create_attribute_response is not an authentication response (AA policy, "
    "Recipient = requester entityID, no AuthnStatement, sign_assertion not honoured) and is not covered",
    "an authn dictionary naming an authenticating authority but no class reference yields an AuthnStatement without AuthnContext "
    "(schema-invalid); such cases are checked on the IdP side only",
]

SAML = "urn:oasis:names:tc:SAML:2.0:assertion"
SAMLP = "urn:oasis:names:tc:SAML:2.0:protocol"
DS = "http://www.w3.org/2000/09/xmldsig#"
CM = {"urn:oasis:names:tc:SAML:2.0:cm:bearer": "bearer", "urn:oasis:names:tc:SAML:2.0:cm:holder-of-key": "holder-of-key",
      "urn:oasis:names:tc:SAML:2.0:cm:sender-vouches": "sender-vouches"}

NF_TRANSIENT = "urn:oasis:names:tc:SAML:2.0:nameid-format:transient"
NF_PERSISTENT = "urn:oasis:names:tc:SAML:2.0:nameid-format:persistent"
NF_EMAIL = "urn:oasis:names:tc:SAML:1.1:nameid-format:emailAddress"
NF_UNSPEC = "urn:oasis:names:tc:SAML:1.1:nameid-format:unspecified"
NF_CUSTOM = "urn:example:nameid-format:custom"
FORMATS = [NF_TRANSIENT, NF_PERSISTENT, NF_EMAIL, NF_UNSPEC, NF_CUSTOM]

SIG_ALGS = ["http://www.w3.org/2000/09/xmldsig#rsa-sha1", "http://www.w3.org/2001/04/xmldsig-more#rsa-sha224",
            "http://www.w3.org/2001/04/xmldsig-more#rsa-sha256", "http://www.w3.org/2001/04/xmldsig-more#rsa-sha384",
            "http://www.w3.org/2001/04/xmldsig-more#rsa-sha512"]
DIGEST_ALGS = ["http://www.w3.org/2000/09/xmldsig#sha1", "http://www.w3.org/2001/04/xmldsig-more#sha224",
               "http://www.w3.org/2001/04/xmlenc#sha256", "http://www.w3.org/2001/04/xmldsig-more#sha384",
               "http://www.w3.org/2001/04/xmlenc#sha512"]
BAD_SIG_ALGS = ["http://www.w3.org/2001/04/xmldsig-more#rsa-md5", "http://www.w3.org/2000/09/xmldsig#dsa-sha1", "rsa-sha256"]
BAD_DIGEST_ALGS = ["http://www.w3.org/2001/04/xmldsig-more#md5", "sha256"]

CLASS_REFS = ["urn:oasis:names:tc:SAML:2.0:ac:classes:Password",
              "urn:oasis:names:tc:SAML:2.0:ac:classes:PasswordProtectedTransport",
              "urn:oasis:names:tc:SAML:2.0:ac:classes:X509", "urn:example:ac:classes:müstergültig"]

SCM_BEARER = "urn:oasis:names:tc:SAML:2.0:cm:bearer"
SCM_HOK = "urn:oasis:names:tc:SAML:2.0:cm:holder-of-key"
SCM_SV = "urn:oasis:names:tc:SAML:2.0:cm:sender-vouches"
SCM_UNKNOWN = "urn:example:cm:unknown"
STATUS_SUCCESS = "urn:oasis:names:tc:SAML:2.0:status:Success"
STATUS_RESPONDER = "urn:oasis:names:tc:SAML:2.0:status:Responder"
STATUS_REQUESTER = "urn:oasis:names:tc:SAML:2.0:status:Requester"
STATUS_AUTHN_FAILED = "urn:oasis:names:tc:SAML:2.0:status:AuthnFailed"
DECL_TEXT = "verif-authn-context-declaration"

RA_ID = "https://ra.verif.example/federation"
AFFILIATION = "urn:example:affiliation:library"
SP3_ID = "https://sp3.verif.example/sp"

# the federation: three requesters; sp3 was registered by RA_ID
SPS = {
    "sp": {"entity_id": S.SP_ID, "key": "sp",
           "acs": {"post": "https://sp.verif.example/acs/post", "redirect": "https://sp.verif.example/acs/redirect"}},
    "sp2": {"entity_id": S.SP2_ID, "key": "sp2",
            "acs": {"post": "https://sp2.verif.example/acs/post", "redirect": "https://sp2.verif.example/acs/redirect"}},
    "sp3": {"entity_id": SP3_ID, "key": "sp", "ra": RA_ID,
            "acs": {"post": "https://sp3.verif.example/saml/acs", "redirect": "https://sp3.verif.example/saml/acs-redirect"}},
}
BIND = {"post": S.BINDING_POST, "redirect": S.BINDING_REDIRECT}
RAS = [[SP3_ID, RA_ID]]

# attributes of the bundled maps (urn:oasis:names:tc:SAML:2.0:attrname-format:uri)
ATTR_NAMES = ["givenName", "sn", "mail", "uid", "cn", "displayName", "eduPersonAffiliation", "eduPersonPrincipalName",
              "o", "title", "eduPersonEntitlement", "telephoneNumber"]
VALUE_POOL = ["Anna", "Åsa Öberg", "李雷", "x", "member", "staff", "anna@example.org", "a&b <c> \"d\" 'e'", "Ünïcödé — value",
              "urn:mace:example:entitlement:1", "+46 90 786 50 00", "多值 属性", "line1", "0", "ÿ" * 3, "éé", "A" * 40]
USERIDS = ["user-1", "user-2", "üser 3", "a__b", "u/4?x=1"]

_state = {"idp": {}, "req_sp": {}, "recv_sp": {}}


def setup():
    S.install()


# ------------------------------------------------------------------ federation / instances


# an attribute of the bundled maps that no generated identity carries: a requester whose metadata REQUIRES it makes
# Policy.restrict raise MissingValue (setup_assertion's except branch)
UNMET_ATTR = {"name": "urn:oid:1.3.6.1.4.1.5923.1.1.1.2", "friendly_name": "eduPersonNickname", "required": True,
              "name_format": "urn:oasis:names:tc:SAML:2.0:attrname-format:uri"}
ENC_KEY = "sp_enc1"  # the key pair S.sp_config gives every SP as encryption_keypairs


def sp_entity(name, enc=False, unmet=False):
    e = SPS[name]
    ent = {"entity_id": e["entity_id"],
           "spsso": {"keys": [("signing", e["key"])] + ([("encryption", ENC_KEY)] if enc else []),
                     "acs": [(S.BINDING_POST, e["acs"]["post"], 0), (S.BINDING_REDIRECT, e["acs"]["redirect"], 1)]}}
    if unmet:
        ent["spsso"]["attr_cs"] = [[dict(UNMET_ATTR)]]
    if e.get("ra"):
        ent["entity_ext"] = ('<mdrpi:RegistrationInfo xmlns:mdrpi="urn:oasis:names:tc:SAML:metadata:rpi" '
                             'registrationAuthority="%s"/>' % S.xesc(e["ra"]))
    return ent


def policy_dict(pol):
    """abstract policy ([[key, spec|None], …] or None) -> the dictionary pysaml2 is configured with"""
    if pol is None:
        return None
    out = {}
    for key, spec in pol:
        if spec is None:
            out[key] = None
            continue
        d = {}
        if spec.get("lifetime") is not None:
            d["lifetime"] = dict(spec["lifetime"])
        if spec.get("nameid_format") is not None:
            d["nameid_format"] = spec["nameid_format"]
        if spec.get("other"):
            d["attribute_restrictions"] = None
        out[key] = d
    return out


def idp_for(cfg):
    key = repr(cfg)
    if key in _state["idp"]:
        return _state["idp"][key]
    idp = {"policy": policy_dict(cfg["policy"])}
    # signing_algorithm / digest_algorithm are read through Config.getattr(…) in the "idp" context:
    # they take effect in the service/idp section (where docs/howto/config.rst puts them)
    for k in ("sign_response", "sign_assertion", "domain", "signing_algorithm", "digest_algorithm"):
        if cfg.get(k) is not None:
            idp[k] = cfg[k]
    enc, unmet = cfg.get("enc_sps") or [], cfg.get("unmet_sps") or []
    conf = S.idp_config(sp_entities=[sp_entity(n, SPS[n]["entity_id"] in enc, SPS[n]["entity_id"] in unmet)
                                     for n in sorted(SPS)], idp=idp)
    conf["entityid"] = cfg["entity_id"]
    srv = S.make_idp(conf)
    if len(_state["idp"]) > 48:
        _state["idp"].clear()
    _state["idp"][key] = srv
    return srv


def _sp_conf(name, idp_key="idp_sign", spopts=None, **extra):
    e = SPS[name]
    idp_ent = S.default_idp_entity()
    idp_ent["idpsso"] = dict(idp_ent["idpsso"], keys=[("signing", idp_key)])
    sp = {"endpoints": {"assertion_consumer_service": [(e["acs"]["post"], S.BINDING_POST),
                                                       (e["acs"]["redirect"], S.BINDING_REDIRECT)]}}
    sp.update(spopts or {})
    conf = S.sp_config(idp_entities=[idp_ent], sp=sp, **extra)
    conf["entityid"] = e["entity_id"]
    conf["key_file"] = S.key_path(e["key"])
    conf["cert_file"] = S.cert_path(e["key"])
    return conf


def requester_sp(name):
    if name not in _state["req_sp"]:
        _state["req_sp"][name] = S.make_sp(_sp_conf(name))
    return _state["req_sp"][name]


def receiver_sp(side):
    key = repr((side["entity"], side.get("want_resp"), side.get("want_assert"), side.get("want_either"),
                side.get("allow_unsolicited"), side.get("skew"), side.get("trusts", True)))
    if key in _state["recv_sp"]:
        return _state["recv_sp"][key]
    spopts = {}
    for opt, name in (("want_resp", "want_response_signed"), ("want_assert", "want_assertions_signed"),
                      ("want_either", "want_assertions_or_response_signed"), ("allow_unsolicited", "allow_unsolicited")):
        if side.get(opt) is not None:
            spopts[name] = side[opt]
    extra = {}
    if side.get("skew") is not None:
        extra["accepted_time_diff"] = side["skew"]
    # "not built from the same metadata": this SP's metadata binds another key to the IdP's entityID
    sp = S.make_sp(_sp_conf(side["entity"], "idp_sign" if side.get("trusts", True) else "member2", spopts, **extra))
    if len(_state["recv_sp"]) > 96:
        _state["recv_sp"].clear()
    _state["recv_sp"][key] = sp
    return sp


# ------------------------------------------------------------------ generator


def lifetime_secs(lt):
    ms = ((((lt.get("weeks", 0) * 7 + lt.get("days", 0)) * 24 + lt.get("hours", 0)) * 60 + lt.get("minutes", 0)) * 60
          + lt.get("seconds", 0)) * 1000 + lt.get("milliseconds", 0)
    return ms // 1000


def steer_lifetime(pol, sp_id, ra):
    """generator-side estimate of the lifetime (only used to place the SP clock near the window ends)"""
    if not pol:
        return 3600
    d = dict((k, v) for k, v in pol)
    spec = d.get(sp_id)
    if spec is None and ra is not None:
        spec = d.get(ra)
    if spec is None:
        dflt = d.get("default")
        spec = dflt if dflt and (dflt.get("lifetime") is not None or dflt.get("nameid_format") is not None or dflt.get("other")) \
            else d.get("")
    if not spec or spec.get("lifetime") is None:
        return 3600
    return lifetime_secs(spec["lifetime"])


def gen_lifetime(rng):
    c = rng.randrange(12)
    if c < 4:
        return {"minutes": rng.choice([1, 5, 10, 15, 30, 60])}
    if c == 4:
        return {"hours": rng.randint(1, 3)}
    if c == 5:
        return {"seconds": rng.choice([0, 1, 30, 90, 600])}
    if c == 6:
        return {"days": 1} if rng.random() < 0.5 else {"weeks": 1}
    if c == 7:
        return {"hours": 1, "minutes": rng.randint(0, 59), "seconds": rng.randint(0, 59)}
    if c == 8:
        return {"minutes": rng.choice([0, -5])}
    if c == 9:
        return {"seconds": rng.choice([30, 0, 1]), "milliseconds": rng.choice([1500, -500, 999, -1])}
    if c == 10:
        return {"days": rng.randint(0, 2), "hours": rng.randint(-3, 30), "minutes": rng.randint(-90, 90)}
    return {"minutes": rng.randint(1, 120)}


def gen_spec(rng):
    c = rng.random()
    if c < 0.08:
        return None
    if c < 0.16:
        return {}
    spec = {}
    if rng.random() < 0.7:
        spec["lifetime"] = gen_lifetime(rng)
    if rng.random() < 0.55:
        spec["nameid_format"] = rng.choice(FORMATS)
    if rng.random() < 0.5 or not spec:
        spec["other"] = True
    return spec


def gen_policy(rng):
    c = rng.random()
    if c < 0.08:
        return None
    if c < 0.12:
        return []
    keys = [S.SP_ID, S.SP2_ID, SP3_ID, RA_ID, "default", "", AFFILIATION]
    probs = [0.45, 0.35, 0.25, 0.5, 0.6, 0.35, 0.2]
    pol = [[k, gen_spec(rng)] for k, p in zip(keys, probs) if rng.random() < p]
    if rng.random() < 0.12:  # a falsy `default` entry makes Policy.get fall through to the "" entry
        pol = [e for e in pol if e[0] not in ("default", S.SP_ID)] + [["default", rng.choice([{}, None])]]
        if rng.random() < 0.7:
            pol = [e for e in pol if e[0] != ""]  # keys of a dictionary are unique
            pol.append(["", gen_spec(rng) or {"lifetime": gen_lifetime(rng), "nameid_format": rng.choice(FORMATS)}])
    rng.shuffle(pol)
    return pol


def opt_bool(rng, p_none=0.4):
    return None if rng.random() < p_none else rng.random() < 0.5


# The forms a boolean option of the idp section may take.  Config.load_special turns "true"/"false" into booleans and
# stores anything else as it is; the stored value is then only tested for None and for truthiness.  Generated: the
# forms the unchanged code treats consistently with their evident meaning.  NOT generated: "False", "FALSE", "no", "0",
# "TRUE" … — any other non-empty string is stored as a string and therefore read as TRUE (observed: "False" signs);
# the property cannot say what such an undocumented spelling "demands" (Spec: formDefined = false).
CFG_BOOL_FORMS = [None, True, False, "true", "false", "True", "", 0, 1]


def form_bool(v):
    """generator-side reading of a configuration form (steering only)"""
    if v is None:
        return None
    return v is True or v == "true" or v == "True" or (isinstance(v, int) and not isinstance(v, bool) and v != 0)


def cfg_bool_form(rng):
    c = rng.random()
    if c < 0.35:
        return None
    if c < 0.65:
        return rng.random() < 0.5
    return rng.choice(CFG_BOOL_FORMS[3:])


ENTRIES = ["authn_response", "authn_request_response", "ecp"]


def gen_idp_cfg(rng):
    return {"entity_id": S.IDP_ID,
            "sign_response": cfg_bool_form(rng), "sign_assertion": cfg_bool_form(rng),
            "signing_algorithm": rng.choice(SIG_ALGS + [""]) if rng.random() < 0.38 else None,
            "digest_algorithm": rng.choice(DIGEST_ALGS + [""]) if rng.random() < 0.38 else None,
            "policy": gen_policy(rng),
            "domain": rng.choice(["verif.example", "mail.idp.example"]) if rng.random() < 0.6 else None,
            "ras": RAS,
            # the requesters' metadata: who publishes an encryption certificate, who requires an attribute nobody has
            "enc_sps": sorted(SPS[n]["entity_id"] for n in SPS if rng.random() < 0.5),
            "unmet_sps": sorted(SPS[n]["entity_id"] for n in SPS if rng.random() < 0.2)}


def gen_nameid(rng, k, requester_id):
    return {"format": rng.choice(FORMATS[:4] if rng.random() < 0.9 else FORMATS),
            "spnq": rng.choice([requester_id, requester_id, requester_id, requester_id, S.SP2_ID, AFFILIATION, None]),
            "nq": rng.choice([S.IDP_ID, S.IDP_ID, None, "https://other-idp.example/idp"]),
            "text": "stored-%d" % k}


def gen_identity(rng):
    names = rng.sample(ATTR_NAMES, rng.randint(0, 5))
    ava = []
    for n in sorted(names):
        ava.append([n, [rng.choice(VALUE_POOL) for _ in range(rng.choice([1, 1, 1, 2, 3]))]])
    return ava


# ---- caller-supplied assertion argument trees (farg=)
#
# A case carries the ABSTRACT tree (what is preset on the paths update_farg / do_subject_confirmation read; that is
# what the Lean model gets) together with one CONCRETE rendering of it (what the real code gets): nesting depth,
# None leaves for unset fields, empty dictionaries and foreign keys are noise the abstraction must not depend on.

FARG_FIELDS = ("method", "recipient", "irt", "address", "nb", "nooa")
SCD_KEY = {"recipient": "recipient", "irt": "in_response_to", "address": "address", "nb": "not_before",
           "nooa": "not_on_or_after"}
MALFORMED_TREES = [
    {"assertion": None},
    {"assertion": {"subject": "not-a-dictionary"}},
    {"assertion": {"subject": {"subject_confirmation": None}}},
    {"assertion": {"subject": {"subject_confirmation": [{"method": SCM_BEARER}]}}},
    {"assertion": {"subject": {"subject_confirmation": {"method": SCM_BEARER, "subject_confirmation_data": None}}}},
]
EMPTY_SHAPES = [
    {"assertion": {}},
    {"assertion": {"subject": {}}},
    {"assertion": {"subject": {"subject_confirmation": {}}}},
    {"assertion": {"subject": {"subject_confirmation": {"subject_confirmation_data": {}}}}},
    {"unrelated": {"key": "1"}},
    {"assertion": {"subject": {"subject_confirmation": {"method": None}}}},
    {"assertion": {"subject": {"subject_confirmation": {"subject_confirmation_data": {"recipient": None,
                                                                                        "in_response_to": None}}}}},
]


def farg_abstract(**preset):
    f = {"empty": False, "malformed": False}
    for k in FARG_FIELDS:
        f[k] = preset.get(k)
    return f


def render_farg(f, noise=0, rng=None):
    """abstract tree -> a concrete dictionary for create_authn_response(farg=…)"""
    if f.get("empty"):
        return {}
    if f.get("malformed"):
        return copy.deepcopy(MALFORMED_TREES[noise % len(MALFORMED_TREES)])
    if all(f.get(k) is None for k in FARG_FIELDS):
        return copy.deepcopy(EMPTY_SHAPES[noise % len(EMPTY_SHAPES)])
    sc, scd = {}, {}
    if f["method"] is not None:
        sc["method"] = f["method"]
    elif noise % 2:
        sc["method"] = None
    for k, key in SCD_KEY.items():
        if f[k] is not None:
            scd[key] = S.fmt_time(f[k]) if k in ("nb", "nooa") else f[k]
        elif (noise >> 1) % 3 == 1:
            scd[key] = None
    if scd or (noise >> 3) % 2:
        sc["subject_confirmation_data"] = scd
    tree = {"assertion": {"subject": {"subject_confirmation": sc}}}
    if (noise >> 4) % 2:
        tree["unrelated"] = {"key": "1"}
    if (noise >> 5) % 2:
        tree["assertion"]["advice_like"] = {"x": None}
    return tree


def with_tree(f, noise=0):
    f = dict(f)
    f["tree"] = render_farg(f, noise)
    return f


def gen_farg(rng, a):
    """a random partial tree"""
    c = rng.random()
    if c < 0.08:
        return with_tree({"empty": True})
    if c < 0.16:
        return with_tree({"empty": False, "malformed": True}, rng.randrange(64))
    other_acs = SPS[a["requester"]]["acs"]["redirect" if a["binding"] == "post" else "post"]
    pool = {
        "method": [SCM_BEARER, SCM_BEARER, SCM_SV, SCM_UNKNOWN, SCM_HOK],
        "recipient": [a["destination"], other_acs, "https://elsewhere.example/acs", ""],
        "irt": [a["in_response_to"], "id-some-other-request"],
        "address": ["192.0.2.7", "198.51.100.23"],
        "nb": [a["now"] - 5, a["now"], a["now"] + 100],
        "nooa": [a["now"] + 7, a["now"] - 100, a["now"] + 10**6],
    }
    probs = {"method": 0.35, "recipient": 0.15, "irt": 0.12, "address": 0.4, "nb": 0.12, "nooa": 0.25}
    preset = {k: rng.choice(v) for k, v in pool.items() if rng.random() < probs[k]}
    return with_tree(farg_abstract(**preset), rng.randrange(64))


def gen_status(rng):
    c = rng.random()
    if c < 0.4:
        return {"top": STATUS_SUCCESS, "second": None}
    return {"top": rng.choice([STATUS_RESPONDER, STATUS_REQUESTER]), "second": rng.choice([None, STATUS_AUTHN_FAILED])}


def resolved(arg, cfg):
    return arg if arg is not None else form_bool(cfg) if cfg is not None else False


def gen_args(rng, cfg, k):
    requester = rng.choice(["sp", "sp", "sp2", "sp3"])
    rid = SPS[requester]["entity_id"]
    binding = "post" if rng.random() < 0.75 else "redirect"
    c = rng.random()
    if c < 0.35:
        nip = None
    else:
        nip = {"format": rng.choice(FORMATS) if rng.random() < 0.7 else None,
               "spnq": None if rng.random() < 0.75 else rng.choice([AFFILIATION, S.SP2_ID, rid])}
    stored = [gen_nameid(rng, i, rid) for i in range(rng.choice([0, 0, 0, 1, 1, 2, 3]))]
    name_id = None
    if rng.random() < 0.12:
        name_id = {"format": rng.choice(FORMATS + [None]), "spnq": rng.choice([None, rid]), "nq": rng.choice([None, S.IDP_ID]),
                   "text": rng.choice(["explicit-subject", "ëxplicit subject 2", "a@b.example"])}
    c = rng.random()
    if c < 0.05:
        authn = None
    elif c < 0.08:
        authn = {}
    elif c < 0.20:
        authn = {"class_ref": rng.choice(CLASS_REFS)}
    elif c < 0.26:
        authn = {"authn_auth": S.IDP_ID}
    elif c < 0.29:
        authn = {"class_ref": "", "authn_auth": ""}
    elif c < 0.35:
        authn = {"decl": True}
        if rng.random() < 0.6:
            authn["authn_auth"] = S.IDP_ID
        if rng.random() < 0.2:
            authn["class_ref"] = rng.choice(CLASS_REFS)
    else:
        authn = {"class_ref": rng.choice(CLASS_REFS), "authn_auth": rng.choice([S.IDP_ID, "https://mfa.verif.example/authority"])}
    a = {"in_response_to": "id-req-%d" % k, "destination": SPS[requester]["acs"][binding], "sp_entity_id": rid,
         "requester": requester, "binding": binding, "nip": nip, "userid": rng.choice(USERIDS), "name_id": name_id,
         "authn": authn, "sign_response": opt_bool(rng, 0.45), "sign_assertion": opt_bool(rng, 0.45),
         "sign_alg": rng.choice(SIG_ALGS) if rng.random() < 0.3 else None,
         "digest_alg": rng.choice(DIGEST_ALGS) if rng.random() < 0.3 else None,
         "session_nooa": None, "stored": stored,
         "now": S.NOW0 + rng.choice([0, 0, 1, 86399, -86400 * 263 - 51200 + 1, 86400 * 101 + 35199, rng.randrange(-10**7, 10**7)]),
         "attrs": gen_identity(rng)}
    a["farg"] = gen_farg(rng, a) if rng.random() < 0.25 else None
    a["status"] = gen_status(rng) if rng.random() < 0.06 else None
    a["pefim"] = rng.random() < 0.15
    a["best_effort"] = opt_bool(rng, 0.6)
    a["store_fails"] = rng.random() < 0.04      # the identifier database raises OSError when read
    if rng.random() < 0.1:
        a["release_policy"] = {"policy": gen_policy(rng)}
    if rng.random() < 0.05:
        # directed at IdentDB.match_local_id: NameIDPolicy without Format, policy says persistent, and the user
        # already holds a persistent identifier for this qualifier issued by this IdP
        a["nip"] = {"format": None, "spnq": a["nip"]["spnq"] if a["nip"] else None}
        a["name_id"] = None
        a["release_policy"] = {"policy": [[rng.choice([rid, "default"]), {"nameid_format": NF_PERSISTENT,
                                                                          "lifetime": gen_lifetime(rng)}]]}
        a["stored"] = stored[:1] + [{"format": NF_PERSISTENT, "spnq": a["nip"]["spnq"] or rid,
                                     "nq": rng.choice([S.IDP_ID, S.IDP_ID, S.IDP_ID, None]), "text": "stored-persistent"}]
    # algorithms outside the allow-lists: only together with a demanded Response signature
    if resolved(a["sign_response"], cfg["sign_response"]) and not a["pefim"] and rng.random() < 0.06:
        if rng.random() < 0.5:
            a["sign_alg"] = rng.choice(BAD_SIG_ALGS)
        else:
            a["digest_alg"] = rng.choice(BAD_DIGEST_ALGS)
    elif rng.random() < 0.03:
        a["sign_alg"] = ""  # falsy: falls back like None
    return a


def gen_side(rng, cfg, a):
    """the receiving SP: mostly the requester itself with options the IdP's signing satisfies"""
    sr = resolved(a["sign_response"], cfg["sign_response"])
    sa = resolved(a["sign_assertion"], cfg["sign_assertion"])
    pol = a["release_policy"]["policy"] if "release_policy" in a else cfg["policy"]
    life = steer_lifetime(pol, a["sp_entity_id"], SPS[a["requester"]].get("ra"))
    side = {"entity": a["requester"] if rng.random() < 0.93 else rng.choice(sorted(SPS)),
            "binding": a["binding"] if rng.random() < 0.93 else rng.choice(["post", "redirect"]),
            "want_resp": None, "want_assert": None, "want_either": None,
            "allow_unsolicited": None if rng.random() < 0.8 else rng.random() < 0.7,
            "skew": rng.choice([None, None, 0, 60, 180]),
            "trusts": rng.random() < 0.93}
    if rng.random() < 0.65:  # compatible options
        side["want_resp"] = True if (sr and rng.random() < 0.5) else (None if sr else False)
        side["want_assert"] = (True if rng.random() < 0.5 else None) if sa else rng.choice([None, False])
        side["want_either"] = (True if rng.random() < 0.4 else None) if (sr or sa) else rng.choice([None, False])
    else:
        side["want_resp"] = opt_bool(rng, 0.3)
        side["want_assert"] = opt_bool(rng, 0.5)
        side["want_either"] = opt_bool(rng, 0.5)
    skew = side["skew"] or 0
    c = rng.random()
    if c < 0.55:
        delta = rng.choice([0, 0, 1, max(0, life // 2)])
    elif c < 0.88:
        delta = rng.choice([life - 1, life, life + 1, life + skew - 1, life + skew, life + skew + 1,
                            -1, -skew, -skew - 1, -skew + 1, 86399, 86400, 86400 + skew, 86400 + skew + 1,
                            -86400, -86400 - skew, -86400 - skew - 1, -86399])
    else:
        delta = rng.randrange(-400, max(1, life) + 400)
    side["now"] = a["now"] + delta
    c = rng.random()
    if c < 0.88:
        side["outstanding"] = [[a["in_response_to"], "/came/from/" + a["in_response_to"]]]
    elif c < 0.94:
        side["outstanding"] = []
    else:
        side["outstanding"] = [["id-someone-else", "/x"], [a["in_response_to"] + "x", "/y"]]
    ent = SPS[side["entity"]]
    side["entity_id"] = ent["entity_id"]
    side["return_addrs"] = [ent["acs"][side["binding"]]]
    return side, life


def gen_cases(rng, tier):
    n_cfg = 40 if tier == "quick" else 320
    per = 36 if tier == "quick" else 48
    k = 0
    for _ in range(n_cfg):
        cfg = gen_idp_cfg(rng)
        for _ in range(per):
            k += 1
            a = gen_args(rng, cfg, k)
            side, life = gen_side(rng, cfg, a)
            if rng.random() < 0.3:
                c = rng.random()
                offs = [-100, 0, 1, 60, life, life + 3600, 10**6] if c < 0.8 else [-a["now"], 1 - a["now"], -a["now"] - 5]
                a["session_nooa"] = a["now"] + rng.choice(offs)
            if bare_statement(a["authn"]):
                # AuthenticatingAuthority without a class reference: the code emits an AuthnStatement without
                # AuthnContext, which is not schema-valid; what the SP does with it depends on whether a signature
                # check (which validates the schema) happens.  Not an "authn context" of the quantifier: IdP stage only.
                side = None
            c = rng.random()
            entry = ENTRIES[0] if c < 0.7 else ENTRIES[1] if c < 0.9 else ENTRIES[2]
            if entry == "ecp":
                side = None  # PAOS delivery is outside the SP stage
            elif entry == "authn_request_response" and side is not None:
                # the SP clock was placed for the policy in force WITH release_policy, which this entry point drops
                side, life = gen_side(rng, cfg, {k: v for k, v in a.items() if k != "release_policy"})
                if bare_statement(a["authn"]):
                    side = None
            yield {"entry": entry, "idp": cfg, "args": a, "sp": side}
    yield from gen_product(rng)
    yield from gen_matrix(rng)
    yield from gen_profile(rng)


def bare_statement(authn):
    return bool(authn) and bool(authn.get("authn_auth")) and not authn.get("class_ref") and not authn.get("decl")


PRODUCT_CFG = {"entity_id": S.IDP_ID, "sign_response": None, "sign_assertion": None, "signing_algorithm": None,
               "digest_algorithm": None, "policy": [["default", {"lifetime": {"minutes": 15}, "other": True}]],
               "domain": None, "ras": RAS}


def product_fargs(a):
    """the shaping-tree variants of the complete product: (abstract, rendering noise)"""
    other_acs = SPS[a["requester"]]["acs"]["redirect"]
    now = a["now"]
    return [
        (None, 0),                                                       # no farg= at all
        ({"empty": True}, 0),                                            # {}
        (farg_abstract(), 0), (farg_abstract(), 2), (farg_abstract(), 5), (farg_abstract(), 6),   # nothing preset, 4 shapes
        (farg_abstract(method=SCM_BEARER), 0),                           # method only
        (farg_abstract(address="192.0.2.7"), 0),                         # address only
        (farg_abstract(method=SCM_BEARER, address="192.0.2.7"), 3),      # method + address, None leaves around
        (farg_abstract(irt="id-some-other-request"), 0),                 # InResponseTo preset
        (farg_abstract(irt=a["in_response_to"]), 16),                    # … to the right value
        (farg_abstract(recipient=other_acs), 0),                         # Recipient preset
        (farg_abstract(recipient=""), 0),
        (farg_abstract(nooa=now + 7), 0),                                # NotOnOrAfter preset (overwritten)
        (farg_abstract(nb=now - 5), 0), (farg_abstract(nb=now + 100), 8),  # NotBefore preset
        (farg_abstract(method=SCM_SV), 0), (farg_abstract(method=SCM_UNKNOWN), 0), (farg_abstract(method=SCM_HOK), 0),
        ({"empty": False, "malformed": True}, 0), ({"empty": False, "malformed": True}, 3),
        (farg_abstract(method=SCM_BEARER, recipient=a["destination"], irt=a["in_response_to"], address="198.51.100.23",
                       nb=now - 1, nooa=now + 1), 32),                   # everything preset
    ]


def gen_matrix(rng):
    """(1) every public entry point x the complete argument flag matrix (None/True/False for sign_response and
    sign_assertion, asymmetric combinations included) x symmetric and asymmetric configurations;
    (2) every form of the two boolean options in the configuration, pairwise, without arguments and with one
    overriding argument."""
    i = 0
    base = {"destination": SPS["sp2"]["acs"]["post"], "sp_entity_id": S.SP2_ID, "requester": "sp2", "binding": "post",
            "nip": None, "userid": "user-2", "name_id": None, "authn": {"class_ref": CLASS_REFS[0], "authn_auth": S.IDP_ID},
            "sign_alg": None, "digest_alg": None, "session_nooa": None, "stored": [], "now": S.NOW0 + 1,
            "attrs": [["mail", ["anna@example.org"]]], "farg": None, "status": None}

    def case(entry, cfg_pair, sr, sa):
        nonlocal i
        i += 1
        cfg = dict(PRODUCT_CFG, sign_response=cfg_pair[0], sign_assertion=cfg_pair[1])
        a = dict(copy.deepcopy(base), in_response_to="id-mx-%d" % i, sign_response=sr, sign_assertion=sa)
        side = None
        if entry != "ecp":
            side = {"entity": "sp2", "binding": "post", "want_resp": False, "want_assert": None, "want_either": None,
                    "allow_unsolicited": None, "skew": None, "trusts": True, "now": S.NOW0 + 2,
                    "outstanding": [[a["in_response_to"], "/came/from/" + a["in_response_to"]]],
                    "entity_id": S.SP2_ID, "return_addrs": [SPS["sp2"]["acs"]["post"]]}
        return {"entry": entry, "idp": cfg, "args": a, "sp": side}

    pairs = [(None, None), (True, False), (False, True), ("true", "false"), ("false", "true"), (True, True)]
    for entry in ENTRIES:
        for pair in pairs:
            for sr in (None, True, False):
                for sa in (None, True, False):
                    yield case(entry, pair, sr, sa)
    for f1 in CFG_BOOL_FORMS:
        for f2 in CFG_BOOL_FORMS:
            yield case("authn_response", (f1, f2), None, None)
            yield case(rng.choice(ENTRIES[1:]), (f1, f2), None, None)
            yield case("authn_response", (f1, f2), rng.choice([True, False]), None)
            yield case("authn_response", (f1, f2), None, rng.choice([True, False]))


def gen_profile(rng):
    """the PEFIM profile and the error-Response paths, enumerated completely (both tiers):
    pefim x requester publishes an encryption certificate x requester requires an attribute nobody has x best_effort
    (absent/True/False) x sign_response x sign_assertion x 6 farg trees x identifier store readable or not (with and
    without name_id=) x entry point; the receiving SP is the requester, inside the window, asking for no signature."""
    i = 0
    base = {"destination": SPS["sp"]["acs"]["post"], "sp_entity_id": S.SP_ID, "requester": "sp", "binding": "post",
            "nip": None, "userid": "user-1", "sign_alg": None, "digest_alg": None, "stored": [], "now": S.NOW0 + 3,
            "authn": {"class_ref": CLASS_REFS[1], "authn_auth": S.IDP_ID}, "session_nooa": None, "status": None,
            "attrs": [["givenName", ["Anna"]], ["mail", ["anna@example.org", "a&b <c>"]]]}

    def case(entry, enc, unmet, a_over, fabs, noise):
        nonlocal i
        i += 1
        cfg = dict(PRODUCT_CFG, enc_sps=[S.SP_ID] if enc else [], unmet_sps=[S.SP_ID] if unmet else [])
        a = dict(copy.deepcopy(base), in_response_to="id-pf-%d" % i, name_id=None, pefim=False, best_effort=None,
                 store_fails=False, sign_response=None, sign_assertion=None)
        a.update(a_over)
        if fabs is None:
            a["farg"] = None
        else:
            f = dict(fabs)
            if f.get("irt") == "SELF":
                f["irt"] = a["in_response_to"]
            a["farg"] = with_tree(f, noise)
        side = None
        if entry != "ecp":
            side = {"entity": "sp", "binding": "post", "want_resp": False, "want_assert": None, "want_either": None,
                    "allow_unsolicited": None, "skew": None, "trusts": True, "now": S.NOW0 + 3 + (i % 4),
                    "outstanding": [[a["in_response_to"], "/came/from/" + a["in_response_to"]]],
                    "entity_id": S.SP_ID, "return_addrs": [SPS["sp"]["acs"]["post"]]}
        return {"entry": entry, "idp": cfg, "args": a, "sp": side}

    fargs = [(None, 0), ({"empty": True}, 0), (farg_abstract(), 2), (farg_abstract(address="192.0.2.7"), 0),
             (farg_abstract(method=SCM_BEARER, irt="SELF"), 3), (farg_abstract(recipient=SPS["sp"]["acs"]["redirect"]), 0),
             (farg_abstract(method=SCM_SV), 0), (farg_abstract(method=SCM_HOK), 0), ({"empty": False, "malformed": True}, 1)]
    for pefim in (True, False):
        for enc in (False, True):
            for unmet in (False, True):
                for be in (None, True, False):
                    for sr in (None, True):
                        for sa in (None, True, False):
                            for fabs, noise in (fargs if pefim else fargs[:2]):
                                yield case("authn_response", enc, unmet,
                                           {"pefim": pefim, "best_effort": be, "sign_response": sr, "sign_assertion": sa},
                                           fabs, noise)
    given = {"format": NF_PERSISTENT, "spnq": S.SP_ID, "nq": S.IDP_ID, "text": "given-subject"}
    for entry in ENTRIES:
        for enc in (False, True):
            for pefim in (False, True):
                for name_id in (None, given):
                    for sr in (None, True, False):
                        for cfg_sr in (None, True):
                            c = case(entry, enc, False, {"pefim": pefim, "store_fails": True, "name_id": copy.deepcopy(name_id),
                                                         "sign_response": sr}, None, 0)
                            c["idp"] = dict(c["idp"], sign_response=cfg_sr)
                            yield c


PRODUCT_AUTHN = [None, {"class_ref": CLASS_REFS[0]}, {"class_ref": CLASS_REFS[1], "authn_auth": S.IDP_ID},
                 {"authn_auth": S.IDP_ID}, {"decl": True}, {"decl": True, "authn_auth": S.IDP_ID},
                 {"decl": True, "class_ref": CLASS_REFS[2]}]
PRODUCT_STATUS = [None, {"top": STATUS_SUCCESS, "second": None}, {"top": STATUS_RESPONDER, "second": STATUS_AUTHN_FAILED}]


def gen_product(rng):
    """create_authn_response's optional shaping arguments, enumerated completely (both tiers):
    farg tree x authn dictionary x session_not_on_or_after x status x (name_id given | userid + policy),
    one fixed configuration, a receiving SP that asks for no signature; signing alternates over the cells so that
    the SP's schema-validating signature check sees every shape."""
    i = 0
    base = {"destination": SPS["sp"]["acs"]["post"], "sp_entity_id": S.SP_ID, "requester": "sp", "binding": "post",
            "nip": None, "userid": "user-1", "sign_alg": None, "digest_alg": None, "stored": [], "now": S.NOW0,
            "attrs": [["givenName", ["Anna"]], ["sn", ["Öberg", "李"]]]}
    for authn in PRODUCT_AUTHN:
        for sess in (None, S.NOW0 + 60):
            for status in PRODUCT_STATUS:
                for given in (False, True):
                    probe = dict(base, in_response_to="id-prod")
                    for fabs, noise in product_fargs(probe):
                        i += 1
                        a = dict(base, in_response_to="id-prod-%d" % i, authn=copy.deepcopy(authn), session_nooa=sess,
                                 status=copy.deepcopy(status),
                                 name_id={"format": NF_PERSISTENT, "spnq": S.SP_ID, "nq": S.IDP_ID, "text": "given-subject"}
                                 if given else None,
                                 sign_response=(i % 3 == 0), sign_assertion=(i % 2 == 0))
                        if fabs is None:
                            a["farg"] = None
                        else:
                            f = dict(fabs)
                            for k in ("irt",):  # the per-cell request id
                                if f.get(k) == "id-prod":
                                    f[k] = a["in_response_to"]
                            a["farg"] = with_tree(f, noise)
                        side = {"entity": "sp", "binding": "post", "want_resp": False, "want_assert": None, "want_either": None,
                                "allow_unsolicited": None, "skew": None, "trusts": True, "now": S.NOW0 + (i % 5),
                                "outstanding": [[a["in_response_to"], "/came/from/" + a["in_response_to"]]],
                                "entity_id": S.SP_ID, "return_addrs": [SPS["sp"]["acs"]["post"]]}
                        yield {"idp": PRODUCT_CFG, "args": a, "sp": None if bare_statement(authn) else side}


# ------------------------------------------------------------------ independent XML reader


def _t(s):
    return calendar.timegm(time.strptime(s, "%Y-%m-%dT%H:%M:%SZ")) if s is not None else None


def _sig(el):
    sig = el.find("{%s}Signature" % DS)
    if sig is None:
        return None
    sm = sig.find("{%s}SignedInfo/{%s}SignatureMethod" % (DS, DS))
    dm = sig.find("{%s}SignedInfo/{%s}Reference/{%s}DigestMethod" % (DS, DS, DS))
    return {"sig_alg": sm.get("Algorithm") if sm is not None else "", "digest_alg": dm.get("Algorithm") if dm is not None else ""}


def _text(el):
    return el.text if el is not None and el.text is not None else None


XENC = "http://www.w3.org/2001/04/xmlenc#"


def open_encrypted(enc_el):
    """EncryptedAssertion -> the Assertion element inside, opened with the requester's committed decryption key in the
    stand-in's encoding (RSA-OAEP key transport, AES-GCM payload); nothing of saml2.  None = cannot be opened."""
    from cryptography.hazmat.primitives import hashes, serialization
    from cryptography.hazmat.primitives.asymmetric import padding
    from cryptography.hazmat.primitives.ciphers.aead import AESGCM

    ed = enc_el.find("{%s}EncryptedData" % XENC)
    if ed is None:
        return None
    ek = next((n for n in ed.iter("{%s}EncryptedKey" % XENC)), None)
    if ek is None:
        return None
    ek_cv = next((n for n in ek.iter("{%s}CipherValue" % XENC)), None)
    data_cv = next((n for n in ed.iter("{%s}CipherValue" % XENC) if n is not ek_cv), None)
    if ek_cv is None or data_cv is None:
        return None
    try:
        key = serialization.load_pem_private_key(open(S.key_path(ENC_KEY), "rb").read(), None)
        session = key.decrypt(base64.b64decode(ek_cv.text or ""),
                              padding.OAEP(mgf=padding.MGF1(hashes.SHA1()), algorithm=hashes.SHA1(), label=None))
        blob = base64.b64decode(data_cv.text or "")
        return ET.fromstring(AESGCM(session).decrypt(blob[:12], blob[12:], b"standin"))
    except Exception:
        return None


def read_advice(a):
    """the assertions inside <Advice>: in clear, or encrypted to the requester (then opened with its key)"""
    adv = a.find("{%s}Advice" % SAML)
    out = []
    for x in (list(adv) if adv is not None else []):
        if x.tag == "{%s}Assertion" % SAML:
            out.append(dict(read_assertion(x), encrypted=False))
        elif x.tag == "{%s}EncryptedAssertion" % SAML:
            inner = open_encrypted(x)
            if inner is None or inner.tag != "{%s}Assertion" % SAML:
                out.append({"encrypted": True, "opaque": True})
            else:
                out.append(dict(read_assertion(inner), encrypted=True))
        else:
            out.append({"encrypted": False, "opaque": True, "tag": x.tag})
    return out


def read_assertion(a):
    nid = a.find("{%s}Subject/{%s}NameID" % (SAML, SAML))
    confs = []
    for sc in a.findall("{%s}Subject/{%s}SubjectConfirmation" % (SAML, SAML)):
        d = sc.find("{%s}SubjectConfirmationData" % SAML)
        confs.append({"method": CM.get(sc.get("Method"), "other"),
                      "recipient": d.get("Recipient") if d is not None else None,
                      "irt": d.get("InResponseTo") if d is not None else None,
                      "nb": _t(d.get("NotBefore")) if d is not None else None,
                      "nooa": _t(d.get("NotOnOrAfter")) if d is not None else None,
                      "address": d.get("Address") if d is not None else None})
    cond = a.find("{%s}Conditions" % SAML)
    auds = []
    if cond is not None:
        for ar in cond.findall("{%s}AudienceRestriction" % SAML):
            auds.append([x.text or "" for x in ar.findall("{%s}Audience" % SAML)])
    authn = []
    for st in a.findall("{%s}AuthnStatement" % SAML):
        aa = st.find("{%s}AuthnContext/{%s}AuthenticatingAuthority" % (SAML, SAML))
        authn.append({"class_ref": _text(st.find("{%s}AuthnContext/{%s}AuthnContextClassRef" % (SAML, SAML))),
                      "authn_auth": None if aa is None else (aa.text or ""),   # an empty element is "" (not absent)
                      "decl": st.find("{%s}AuthnContext/{%s}AuthnContextDecl" % (SAML, SAML)) is not None,
                      "session_nooa": _t(st.get("SessionNotOnOrAfter")),
                      "session_index": st.get("SessionIndex")})
    attrs = []
    for at in a.findall("{%s}AttributeStatement/{%s}Attribute" % (SAML, SAML)):
        attrs.append([at.get("FriendlyName") or at.get("Name"),
                      [v.text or "" for v in at.findall("{%s}AttributeValue" % SAML)]])
    attrs.sort(key=lambda p: p[0])
    return {"issuer": _text(a.find("{%s}Issuer" % SAML)), "sig": _sig(a),
            "name_id": None if nid is None else {"format": nid.get("Format"), "spnq": nid.get("SPNameQualifier"),
                                                 "nq": nid.get("NameQualifier"), "text": nid.text or ""},
            "confs": confs,
            "cond_nb": _t(cond.get("NotBefore")) if cond is not None else None,
            "cond_nooa": _t(cond.get("NotOnOrAfter")) if cond is not None else None,
            "audiences": auds, "authn": authn, "attrs": attrs, "advice": read_advice(a)}


def read_response(xml):
    root = ET.fromstring(xml)
    if root.tag == "{http://schemas.xmlsoap.org/soap/envelope/}Envelope":  # the ECP entry point's SOAP wrapping
        inner = root.find("{http://schemas.xmlsoap.org/soap/envelope/}Body/{%s}Response" % SAMLP)
        if inner is None:
            raise ValueError("SOAP envelope without a Response in its Body")
        root = inner
    if root.tag != "{%s}Response" % SAMLP:
        raise ValueError("not a Response: %s" % root.tag)
    return {"r": "ok", "issuer": _text(root.find("{%s}Issuer" % SAML)), "destination": root.get("Destination"),
            "in_response_to": root.get("InResponseTo"), "issue_instant": _t(root.get("IssueInstant")), "sig": _sig(root),
            "status_top": (lambda c: c.get("Value") if c is not None else "")(root.find("{%s}Status/{%s}StatusCode" % (SAMLP, SAMLP))),
            "status_second": (lambda c: c.get("Value") if c is not None else None)(
                root.find("{%s}Status/{%s}StatusCode/{%s}StatusCode" % (SAMLP, SAMLP, SAMLP))),
            "assertions": [read_assertion(a) for a in root.findall("{%s}Assertion" % SAML)]}


HEX64 = re.compile(r"^[0-9a-f]{64}$")
SID = re.compile(r"^id-[0-9A-Za-z]{17}$")


def canon_text(text, case):
    """a freshly minted NameID value -> FRESH (after checking its shape)"""
    if text is None:
        return None
    known = [n["text"] for n in case["args"]["stored"]]
    if case["args"].get("name_id"):
        known.append(case["args"]["name_id"]["text"])
    if text in known:
        return text
    if HEX64.match(text):
        return "FRESH"
    if "@" in text and HEX64.match(text.split("@", 1)[0]):
        return "FRESH@" + text.split("@", 1)[1]
    return text


# ------------------------------------------------------------------ implementation side


def pack(xml, binding):
    if binding == "post":
        return base64.b64encode(xml.encode("utf-8")).decode("ascii")
    c = zlib.compressobj(9, zlib.DEFLATED, -15)
    return base64.b64encode(c.compress(xml.encode("utf-8")) + c.flush()).decode("ascii")


def _nameid_obj(n):
    from saml2 import saml

    return saml.NameID(format=n.get("format"), sp_name_qualifier=n.get("spnq"), name_qualifier=n.get("nq"), text=n["text"])


def run_impl(case):
    from saml2 import samlp
    from saml2.assertion import Policy

    cfg, a, side = case["idp"], case["args"], case.get("sp")
    idp = idp_for(cfg)
    # -- the request, made and parsed by the real code
    req_sp = requester_sp(a["requester"])
    nip = None
    if a["nip"] is not None:
        nip = samlp.NameIDPolicy(format=a["nip"]["format"], sp_name_qualifier=a["nip"]["spnq"], allow_create="true")
    with S.clock(a["now"]):
        _rid, req = req_sp.create_authn_request(S.IDP_SSO_POST, binding=BIND[a["binding"]], message_id=a["in_response_to"],
                                                sign=False, name_id_policy=nip)
        parsed = idp.parse_authn_request(base64.b64encode(str(req).encode("utf-8")).decode("ascii"), S.BINDING_POST)
        rargs = idp.response_args(parsed.message)
    seen = {"in_response_to": rargs["in_response_to"], "destination": rargs["destination"], "sp_entity_id": rargs["sp_entity_id"]}
    want = {k: a[k] for k in seen}
    if seen != want:
        # request handling (C07/C08 territory) did not hand the abstract case's values to the response side
        raise RuntimeError("response_args %r differ from the case %r" % (seen, want))
    pnip = parsed.message.name_id_policy
    got_nip = None if pnip is None else {"format": pnip.format, "spnq": pnip.sp_name_qualifier}
    if got_nip != a["nip"]:
        raise RuntimeError("NameIDPolicy %r differs from the case %r" % (got_nip, a["nip"]))
    # -- the IdP's identifier database for this user
    idp.ident.db.clear()
    for n in a["stored"]:
        idp.ident.store(a["userid"], _nameid_obj(n))
    kw = {}
    for k in ("sign_response", "sign_assertion", "sign_alg", "digest_alg"):
        if a.get(k) is not None:
            kw[k] = a[k]
    if a.get("name_id") is not None:
        kw["name_id"] = _nameid_obj(a["name_id"])
    if a.get("session_nooa") is not None:
        kw["session_not_on_or_after"] = S.fmt_time(a["session_nooa"])
    if "release_policy" in a:
        kw["release_policy"] = Policy(policy_dict(a["release_policy"]["policy"]), mds=idp.metadata)
    if a.get("farg") is not None:
        kw["farg"] = copy.deepcopy(a["farg"]["tree"])  # update_farg completes the caller's tree in place
    if a.get("status") is not None:
        st = a["status"]
        inner = samlp.StatusCode(value=st["second"]) if st.get("second") else None
        kw["status"] = samlp.Status(status_code=samlp.StatusCode(value=st["top"], status_code=inner))
    if a.get("pefim"):
        kw["pefim"] = True
    if a.get("best_effort") is not None:
        kw["best_effort"] = a["best_effort"]
    authn = copy.deepcopy(a["authn"])
    if authn and authn.get("decl"):
        from saml2 import saml

        authn["decl"] = saml.AuthnContextDecl(text=DECL_TEXT)
    elif authn and "decl" in authn:
        del authn["decl"]
    identity = {n: list(vs) for n, vs in a["attrs"]}
    entry = case.get("entry", "authn_response")
    good_db = idp.ident.db
    if a.get("store_fails"):
        idp.ident.db = UnavailableStore()
    try:
        resp = _call_idp(idp, entry, identity, rargs, pnip, a, authn, kw)
    finally:
        idp.ident.db = good_db
    if isinstance(resp, dict):
        return resp
    return _observe(case, resp)


class UnavailableStore(dict):
    """an identifier database whose backing file cannot be read (shelve/dbm errors are OSErrors)"""

    def __getitem__(self, k):
        raise OSError("identifier database unavailable")

    def __contains__(self, k):
        raise OSError("identifier database unavailable")

    def get(self, k, default=None):
        raise OSError("identifier database unavailable")

    def __setitem__(self, k, v):
        raise OSError("identifier database unavailable")


def _call_idp(idp, entry, identity, rargs, pnip, a, authn, kw):
    with S.clock(a["now"]):
        try:
            if entry == "authn_request_response":
                resp = idp.create_authn_request_response(identity, rargs["in_response_to"], rargs["destination"],
                                                         rargs["sp_entity_id"], name_id_policy=pnip, userid=a["userid"],
                                                         authn=authn, **kw)
            elif entry == "ecp":
                resp = idp.create_ecp_authn_request_response(rargs["destination"], identity, rargs["in_response_to"],
                                                             rargs["destination"], rargs["sp_entity_id"],
                                                             name_id_policy=pnip, userid=a["userid"], authn=authn, **kw)
            else:
                resp = idp.create_authn_response(identity, rargs["in_response_to"], rargs["destination"], rargs["sp_entity_id"],
                                                 name_id_policy=pnip, userid=a["userid"], authn=authn, **kw)
            if not isinstance(resp, (str, list)):
                resp = str(resp)  # what the application sends; an object that cannot be written out is no Response
        except Exception as e:  # whatever leaves create_authn_response: no Response was created
            return {"idp": {"r": "refused", "why": "%s: %s" % (type(e).__name__, str(e)[:60])}, "sp": None}
    return resp


def _observe(case, resp):
    a, side = case["args"], case.get("sp")
    xml = resp if isinstance(resp, str) else str(resp)
    if isinstance(resp, list):  # the error-response path returns str(response).split("\n")
        xml = "\n".join(resp)
    issued = read_response(xml)
    raw_texts, raw_sessions = [], []
    for x in issued["assertions"]:
        if x["name_id"] is not None:
            raw_texts.append(x["name_id"]["text"])
            x["name_id"]["text"] = canon_text(x["name_id"]["text"], case)
        for st in x["authn"]:
            raw_sessions.append(st["session_index"])
            if st["session_index"] is not None and SID.match(st["session_index"]):
                st["session_index"] = "SESSION"
    out = {"idp": issued, "sp": None}
    if side is None:
        return out
    # -- the receiving service provider
    sp = receiver_sp(side)
    from saml2.cache import Cache
    from saml2.population import Population

    sp.users = Population(Cache())
    msg = pack(xml, side["binding"])
    with S.clock(side["now"]):
        try:
            r = sp.parse_authn_request_response(msg, BIND[side["binding"]], {k: v for k, v in side["outstanding"]})
        except Exception:  # every rejection of the message is an exception of the library
            out["sp"] = {"r": "rejected"}
            return out
        if r is None:
            out["sp"] = {"r": "none"}
            return out
        name_id = r.name_id.text if getattr(r, "name_id", None) is not None else None
        try:
            si = r.session_info()
        except Exception:
            si = None
        cached = bool(sp.users.cache._db)
    if name_id is None and not r.ava and si is None and not cached:
        out["sp"] = {"r": "none"}
        return out
    sess = si["session_index"] if si else None
    out["sp"] = {"r": "identity",
                 "name_id": canon_text(name_id, case) if name_id in raw_texts else name_id,
                 "issuer": si["issuer"] if si else None,
                 "came_from": si["came_from"] if si else r.came_from,
                 "not_on_or_after": si["not_on_or_after"] if si else None,
                 "session_index": "SESSION" if (sess is not None and sess in raw_sessions and SID.match(sess)) else sess,
                 "cached": cached,
                 "ava": sorted([[k, [str(v) for v in vs]] for k, vs in (r.ava or {}).items()], key=lambda p: p[0])}
    return out


# ------------------------------------------------------------------ verdict helpers


def compare(case, impl, model):
    if model is None:
        return False
    mi, ii = model.get("idp") or {}, impl.get("idp") or {}
    if ii.get("r") != mi.get("r"):
        return False
    if ii.get("r") == "ok" and ii != mi:
        return False
    ms, is_ = model.get("sp"), impl.get("sp")
    if (ms is None) != (is_ is None):
        return False
    if ms is None:
        return True
    if ms.get("r") != is_.get("r"):
        return False
    return ms == is_ if ms["r"] == "identity" else True


def nontrivial(case, impl, lean):
    return (impl.get("idp") or {}).get("r") == "ok"


def _policy_format(pol, key, ra):
    """harness-side reading of 'the policy-configured format' (for the finding classifier only)"""
    if not pol:
        return NF_TRANSIENT
    d = dict((k, v) for k, v in pol)
    spec = d.get(key)
    if spec is None and ra is not None:
        spec = d.get(ra)
    if spec is None:
        dflt = d.get("default")
        spec = dflt if dflt else d.get("")
    return (spec or {}).get("nameid_format") or NF_TRANSIENT


def finding_key(case, impl, lean):
    """C09/stored-nameid-format-reused: ONLY the format clause fails, no NameID argument, no format requested,
    and the Response carries an identifier the IdentDB already held for this user and qualifier whose
    format is not the policy-configured one."""
    if lean.get("why") != ["format"]:
        return None
    a = case["args"]
    if a.get("name_id") is not None or (a["nip"] is not None and a["nip"].get("format")):
        return None
    issued = impl.get("idp") or {}
    if issued.get("r") != "ok" or len(issued.get("assertions", [])) != 1:
        return None
    nid = issued["assertions"][0].get("name_id")
    if nid is None:
        return None
    snq = (a["nip"] or {}).get("spnq") or a["sp_entity_id"]
    hits = [n for n in a["stored"] if n.get("spnq") == snq and (a["nip"] is None or n.get("format") == a["nip"].get("format"))]
    if not hits or {k: hits[0].get(k) for k in ("format", "spnq", "nq", "text")} != nid:
        return None
    return "C09/stored-nameid-format-reused"


def shrink(case):
    a = case["args"]
    for k in ("release_policy",):
        if k in a:
            c = copy.deepcopy(case)
            del c["args"][k]
            yield c
    for k in ("farg", "status", "sign_alg", "digest_alg", "session_nooa", "name_id", "sign_response", "sign_assertion"):
        if a.get(k) is not None:
            c = copy.deepcopy(case)
            c["args"][k] = None
            yield c
    if a["attrs"]:
        c = copy.deepcopy(case)
        c["args"]["attrs"] = a["attrs"][:-1]
        yield c
    for i in range(len(a["stored"])):
        c = copy.deepcopy(case)
        del c["args"]["stored"][i]
        yield c
    if case["idp"]["policy"]:
        for i in range(len(case["idp"]["policy"])):
            c = copy.deepcopy(case)
            del c["idp"]["policy"][i]
            yield c
    for k in ("sign_response", "sign_assertion", "signing_algorithm", "digest_algorithm", "domain"):
        if case["idp"].get(k) is not None:
            c = copy.deepcopy(case)
            c["idp"][k] = None
            yield c
    if case.get("sp") is not None:
        c = copy.deepcopy(case)
        c["sp"] = None
        yield c
        for k in ("want_resp", "want_assert", "want_either", "allow_unsolicited", "skew"):
            if case["sp"].get(k) is not None:
                c = copy.deepcopy(case)
                c["sp"][k] = None
                yield c


def distribution(recs):
    d = {}
    for r in recs:
        for dim, v in (r["lean"].get("branches") or {}).items():
            k = "%s=%s" % (dim, v)
            d[k] = d.get(k, 0) + 1
    return dict(sorted(d.items()))
