"""C01 — identity only from responses signed as the policy requires: the complete truth table
(9 option settings x Response signature 4 x assertion signature 4 x plain/encrypted x binding)."""
import copy
import itertools

import scenario as S
from props._sp_common import *  # noqa: F401,F403
from props import _sp_common as C
from translate import spdefaults

PROP = "C01"
LEAN_PROPS = "PysamlModel.Props.C01"
AUDIT = "PysamlModel/Audit/C01.lean"
CORRESPONDENCE = "Drivers/Sp.lean (Sp.process) vs Saml2Client.parse_authn_request_response, signature dimension"
RULE = ("complete table: {all three options absent} + 8 explicit settings x Response signature {absent,valid,corrupted,untrusted} x "
        "assertion signature (same four) x assertion {plain, encrypted} x binding {post, redirect, soap, paos}; "
        "thorough adds random otherwise-valid content per cell and cells combined with one defect of another dimension")
TRUSTED = C.TRUSTED_COMMON + ["option defaults are regenerated from client_base.py (Gen/SpDefaults.lean) and pinned by C01_defaults"]
ASSUMPTIONS = C.ASSUMPTIONS_COMMON
EXHAUSTIVE = True

SIGS = ["absent", "valid", "corrupted", "untrusted"]
OPTS = [{}] + [{"want_resp": a, "want_assert": b, "want_either": c} for a, b, c in itertools.product((False, True), repeat=3)]


def cell(opts, rsig, asig, enc, binding):
    c = C.base_case(PROP, binding=binding if binding != "paos" else "post", cfg=dict(opts))
    c["env"]["binding"] = binding
    if binding in ("soap", "paos"):
        c["return_addrs"] = []
        c["resp"]["destination"] = None
    c["resp"]["sig"] = rsig
    a = c["resp"]["assertions"][0]
    a["sig"] = asig
    a["encrypted"] = enc
    c["tag"] = "cell:%s/%s/%s/%s/%s" % ("".join("-" if opts.get(k) is None else "TF"[not opts[k]] for k in ("want_resp", "want_assert", "want_either")),
                                        rsig, asig, "enc" if enc else "plain", binding)
    return c


def gen_cases(rng, tier):
    for opts, rsig, asig, enc, binding in itertools.product(OPTS, SIGS, SIGS, (False, True), ("post", "redirect", "soap")):
        yield cell(opts, rsig, asig, enc, binding)
    for opts, rsig, asig in itertools.product(OPTS, SIGS[:2], SIGS[:2]):
        yield cell(opts, rsig, asig, False, "paos")
    # undecryptable encrypted assertion: no identity whatever the signatures
    for opts, rsig, asig in itertools.product(OPTS, SIGS[:2], SIGS):
        c = cell(opts, rsig, asig, True, "post")
        c["resp"]["assertions"][0]["decryptable"] = False
        c["tag"] += "/undecryptable"
        yield c
    # several assertions in one Response (plain and encrypted, in every order): one bad signature in any position must refuse
    # the whole Response, whatever was verified before it
    import copy as _copy
    for opts in OPTS:
        for layout in (("p", "e"), ("e", "p"), ("e", "e"), ("p", "e", "e"), ("e", "p", "e"), ("e", "e", "p")):
            for bad_pos in range(len(layout) + 1):
                for bad in ("corrupted", "untrusted"):
                    c = cell(opts, "valid", "valid", False, "post")
                    a0 = c["resp"]["assertions"][0]
                    asserts = []
                    for i, kind in enumerate(layout):
                        a = _copy.deepcopy(a0)
                        a["id"] = "a-%d" % i
                        a["encrypted"] = kind == "e"
                        a["sig"] = bad if i == bad_pos else "valid"
                        a["subject"]["name_id"] = "user-%d" % i
                        asserts.append(a)
                    c["resp"]["assertions"] = asserts
                    c["tag"] += "/multi:%s/bad@%s/%s" % ("".join(layout), bad_pos if bad_pos < len(layout) else "none", bad)
                    yield c
                    if bad_pos == len(layout):
                        break
    # the table with the signatures made by the SECOND signing key the issuer publishes (key roll-over)
    for opts, rsig, asig, enc in itertools.product(OPTS, SIGS, SIGS, (False, True)):
        if "valid" not in (rsig, asig) and "corrupted" not in (rsig, asig):
            continue
        c = cell(opts, rsig, asig, enc, "post")
        c["resp"]["sig_key"] = "idp_sign2"
        c["resp"]["assertions"][0]["sig_key"] = "idp_sign2"
        c["tag"] += "/key2"
        yield c
    # HISTORY on one long-lived client: a signed message of the IdP is verified, then the metadata is reloaded
    # (Entity.reload_metadata) with the IdP's signing certificates replaced / withdrawn / unchanged, then the message
    # under test arrives, signed with a key of the old or of the new generation.  What counts is the metadata in force
    # when the message arrives: `valid` = made with a key published now, `untrusted` = made with any other key
    # (whatever the client verified with it before).
    GEN1 = ["idp_sign", "idp_sign2"]     # what scenario.default_idp_entity publishes
    for first_key, after, opts, which, enc in itertools.product(
            (None, "idp_sign", "idp_sign2"), (["idp_sign2"], ["idp_sign"], [], ["idp_sign", "idp_sign2"], ["member2"]),
            ({}, {"want_resp": False, "want_assert": True}, {"want_resp": False, "want_either": True}),
            ("resp", "assertion", "both"), (False, True)):
        if tier == "quick" and first_key != "idp_sign" and rng.random() > 0.3:
            continue
        for key in GEN1:
            state = "valid" if key in after else "untrusted"
            c = cell(opts, state if which in ("resp", "both") else "absent", state if which in ("assertion", "both") else "absent",
                     enc, "post")
            for elem in (c["resp"], c["resp"]["assertions"][0]):
                elem["sig_key"] = elem["untrusted_key"] = key
            hist = []
            if first_key is not None:
                first = copy.deepcopy(cell({}, "valid", "valid", False, "post")["resp"])
                first["id"], first["in_response_to"] = "r-0", "req-0"
                first["sig_key"] = first["assertions"][0]["sig_key"] = first_key
                first["assertions"][0]["id"] = "a-00"
                first["assertions"][0]["subject"]["confs"][0]["data"]["irt"] = "req-0"
                hist.append({"resp": first, "outstanding": [["req-0", "/came/from/req-0"]]})
            hist.append({"reload_keys": after})
            c["history"] = hist
            c["tag"] = "history:first=%s/after=%s/key=%s/%s/%s/%s" % (first_key, "+".join(after) or "none", key, which,
                                                                       "enc" if enc else "plain", c["tag"])
            yield c
    # the table for the forms a configuration may take: options as text, the dictionary loaded through the generic
    # Config / IdPConfig classes instead of SPConfig
    for opts, rsig, asig in itertools.product(OPTS, SIGS[:2], SIGS[:2]):
        for extra in ({"form": "str"}, {"form": "Str"}, {"config_class": "Config"}, {"config_class": "IdPConfig"}):
            c = cell(opts, rsig, asig, False, "post")
            c["cfg"] = dict(c["cfg"], **extra)
            c["tag"] += "/" + "+".join("%s=%s" % kv for kv in extra.items())
            yield c
    # the table through the second public entry point (only want_assertions_signed is a parameter there)
    for opts, rsig, asig, enc in itertools.product(OPTS, SIGS, SIGS, (False, True)):
        yield C.as_factory(cell(opts, rsig, asig, enc, "post"))
    # the same table on the attribute-query answer path (parse_attribute_query_response)
    for opts, rsig, asig, enc in itertools.product(OPTS, SIGS, SIGS, (False, True)):
        yield C.as_attr(cell(opts, rsig, asig, enc, "soap"), keep_authn=(rsig == asig))
    n = 1 if tier == "quick" else 6
    sample = list(itertools.product(OPTS, SIGS, SIGS, (False, True), ("post", "redirect", "soap")))
    if tier == "quick":
        sample = rng.sample(sample, 150)
    for opts, rsig, asig, enc, binding in sample:
        for _ in range(n):
            c = C.mutate_valid_content(rng, cell(opts, rsig, asig, enc, binding))
            c["tag"] += "/content"
            yield c
    # cells combined with one defect of another dimension (checks that OtherwiseValid masks nothing)
    for opts, rsig, asig, enc in (rng.sample(list(itertools.product(OPTS, SIGS[:2], SIGS[:2], (False, True))), 40)
                                   if tier == "quick" else itertools.product(OPTS, SIGS[:2], SIGS[:2], (False, True))):
        c = cell(opts, rsig, asig, enc, "post")
        d = rng.randrange(5)
        a = c["resp"]["assertions"][0]
        if d == 0:
            a["conditions"]["audiences"] = [["https://other.example/sp"]]
        elif d == 1:
            a["conditions"]["nooa"] = S.NOW0 - 1000
        elif d == 2:
            c["resp"]["in_response_to"] = "req-unknown"
        elif d == 3:
            c["resp"]["destination"] = "https://evil.example/acs"
        else:
            a["authn"] = []
        c["tag"] += "/defect%d" % d
        yield c
    # Response signed by the other federation member / issuer unknown to metadata
    for rsig, asig in itertools.product(SIGS[:2], SIGS[:2]):
        if rsig == "absent" and asig == "absent":
            continue
        c = cell({}, rsig, asig, False, "post")
        c["resp"]["issuer"] = "https://unknown.example/idp"
        c["resp"]["assertions"][0]["issuer"] = "https://unknown.example/idp"
        # a signature that cannot be attributed to a metadata key is, abstractly, untrusted
        c["render_as"] = {"issuer_unknown": True}
        if rsig == "valid":
            c["resp"]["sig"] = "untrusted"
        if asig == "valid":
            c["resp"]["assertions"][0]["sig"] = "untrusted"
        c["tag"] += "/unknown-issuer"
        yield c
    # cross-dimension stream: every dimension of the SP model varied at once
    for _ in range(150 if tier == "quick" else 4000):
        yield C.random_full(rng, PROP)


def search_cases(rng, broken, build_log):
    """A changed default breaks C01_defaults: exercise the all-absent configuration on every cell."""
    for rsig, asig, enc, binding in itertools.product(SIGS, SIGS, (False, True), ("post", "redirect", "soap")):
        yield cell({}, rsig, asig, enc, binding)


def finding_key(case, impl, lean):
    return None


def distribution(recs):
    d = {}
    for r in recs:
        t = r["case"].get("tag", "?")
        k = ("content" if "/content" in t else "defect" if "/defect" in t else "cell") + ":" + r["impl"].get("r")
        d[k] = d.get(k, 0) + 1
    return d
