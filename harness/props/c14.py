"""C14 — bindings deliver messages and relay state intact and inert: correspondence harness.

Real code exercised: saml2.pack (http_form_post_message, http_redirect_message,
make_soap_enveloped_saml_thingy with and without header_parts), Entity.apply_binding / Entity.unravel,
HTTPBase.use_http_artifact / use_http_uri / use_soap, saml2.soap.parse_soap_enveloped_saml_thingy,
saml2.soap.class_instances_from_soap_enveloped_saml_thingies (Entity.parse_soap_message), saml2.entity.create_artifact /
Entity.artifact2destination, and (exact-output comparison of the Lean codecs) base64, html.escape,
urllib.parse.quote_plus / urlencode / parse_qsl / parse_qs / urlsplit.

The receiving side is played by independent parsers: html.parser.HTMLParser for the form,
a plain split + urllib.parse.parse_qsl for URLs, xml.etree for SOAP envelopes.
"""
import base64
import hashlib
import json
import string
import urllib.parse as up
import zlib
from html.parser import HTMLParser
from xml.etree import ElementTree as ET

import scenario as S

PROP = "C14"
LEAN_PROPS = "PysamlModel.Props.C14"
MODEL_TARGETS = ["PysamlModel.Model.Codec", "PysamlModel.Model.HtmlScan", "PysamlModel.Model.Bindings",
                 "PysamlModel.Spec.C14"]
AUDIT = "PysamlModel/Audit/C14.lean"
DRIVER = "Drivers/C14.lean"
CORRESPONDENCE = ("Drivers/C14.lean vs base64/html/urllib codecs, pack.http_form_post_message, "
                  "pack.http_redirect_message, HTTPBase.use_http_artifact, Entity.apply_binding/unravel, "
                  "pack.make_soap_enveloped_saml_thingy + soap.parse_soap_enveloped_saml_thingy, "
                  "make_soap_enveloped_saml_thingy(…, header_parts) + soap.class_instances_from_soap_enveloped_saml_thingies, "
                  "HTTPBase.use_http_uri, "
                  "create_artifact/artifact2destination")
RULE = ("codecs: exact output on random + adversarial strings; bindings: library-made and independently "
        "rendered messages (with/without XML declaration, line breaks, unicode, long) x RelayState/destination "
        "strings with quotes, angle brackets, ampersands, '?', '#', non-ASCII, existing query strings; message "
        "instances handed to the packers; SOAP envelopes with 0..5 header blocks of listed and unlisted classes, "
        "foreign envelopes with several Header/Body parts; URI binding both forms; unravel for every binding "
        "incl. unknown ones; artifact handles as text; artifact "
        "indexes 0..255 exhaustively + out-of-range, all 65536 index fields on the decoding side; "
        "non-trivial = case not refused at input level; distinct = distinct case JSON")
TRUSTED = [
    "zlib (raw DEFLATE) and SHA-1 are parameters of the model; their values on each case come from the harness's own zlib/hashlib calls",
    "HTML: the receiving browser is replaced by the Lean attribute scanner (Model/HtmlScan.lean, part of the statement), cross-checked against html.parser.HTMLParser on every form",
    "XML parsing/serialisation (xml.etree, defusedxml) is exercised, not modelled: SOAP is modelled at string-splice level and at element-tree level",
]
ASSUMPTIONS = [
    "a message is not itself a valid raw-DEFLATE stream (Entity.unravel guesses by trial inflation for HTTP-POST)",
    "SOAP message text contains no carriage return (xml.etree writes it unescaped: recorded under C12)",
    "redirect signing (SigAlg/Signature parameters) is C15's subject; URLs are built with sign=False",
]
PARALLEL = False

from translate import formspec as _formspec  # noqa: E402

GEN = [_formspec.generate]     # saml2.pack.HTML_FORM_SPEC / HTML_INPUT_ELEMENT_SPEC / NAMESPACE / PREFIX -> Gen/FormSpec.lean

SOAPENV = "http://schemas.xmlsoap.org/soap/envelope/"
SAMLP = "urn:oasis:names:tc:SAML:2.0:protocol"
SAML = "urn:oasis:names:tc:SAML:2.0:assertion"
_state = {}


def setup():
    S.install()


def hx(b):
    return b.hex()


def u8(s):
    return s.encode("utf-8", "surrogateescape")


# ------------------------------------------------------------------ string generators

SPECIALS = ['&', '<', '>', '"', "'", '?', '#', '=', '+', '%', ' ', '/', ';', ':', '@', '\\', '`', '~', '.', '-', '_', '*',
            '(', ')', '[', ']', '{', '}', '|', '^', '$', ',', '!']
NONASCII = ['é', 'ü', 'ß', '中', '文', '😀', ' ', ' ', 'İ', 'K', 'ａ', '？', '＃', '\u0080', '߿', '￿']
CONTROLS = ['\t', '\n', '\r', '\x0b', '\x0c', '\x00', '\x1f', '\x7f']
ATTACKS = ['"><script>alert(1)</script>', "' onmouseover='x", '&amp;', '&lt;', '&gt;', '&quot;', '&#x27;', '&#39;', '&copy;', '&amp',
           '&', '&&', '&;', '&amp;amp;', '"/><input name="SAMLResponse" value="x', '</form>', '<!--', '-->', '<![CDATA[',
           '%26', '%3D', '%', '%%', '%4', '%zz', '%41', '%e9', '%C3%A9', '%2B', '+', 'a=b', 'a=b&c=d', '&SAMLRequest=evil',
           '&RelayState=evil', '?x=1', '#frag', '?', '??', '?#', '#?', '=', '==', '&=', '=&', 'a&b=c', 'a+b c', 'é=ü']


# sequences that are special to some templating / substitution mechanism a packer might be rewritten
# with: re.sub replacement templates, string.Template, %-formatting, str.format, shell-like expansion
TEMPLATE_SEQS = ['\\n', '\\t', '\\r', '\\1', '\\0', '\\g<0>', '\\g<1>', '\\g<name>', '\\\\', '\\', 'CORP\\jdoe', 'C:\\temp\\new', '\\x41', '\\u00e9',
                 '$1', '$0', '$&', '$$', '${x}', '$x', '${', '%s', '%d', '%(x)s', '%%', '%', '%5', '{}', '{0}', '{x}', '{{', '}}', '{',
                 '}', '{action}', '{val}', '{name}', '{0!r}', '{{x}}', '#{x}', '<%= x %>', '`x`', '$(x)']
ATTACKS = ATTACKS + TEMPLATE_SEQS


def gen_text(rng, maxlen=24):
    c = rng.randrange(10)
    if c == 0:
        return rng.choice(ATTACKS)
    if c == 1:
        return rng.choice(ATTACKS) + rng.choice(ATTACKS)
    if c == 2:
        return "".join(rng.choice(string.ascii_letters + string.digits) for _ in range(rng.randint(0, maxlen)))
    n = rng.randint(0, maxlen)
    out = []
    for _ in range(n):
        k = rng.randrange(10)
        if k < 4:
            out.append(rng.choice(string.ascii_letters + string.digits))
        elif k < 7:
            out.append(rng.choice(SPECIALS))
        elif k < 8:
            out.append(rng.choice(NONASCII))
        elif k < 9:
            out.append(rng.choice(CONTROLS))
        else:
            out.append(rng.choice(ATTACKS))
    return "".join(out)


# lengths straddling typical limits (80-byte RelayState rule, one-byte and 1 KiB / 4 KiB buffers)
LENGTHS = [79, 80, 81, 103, 255, 256, 1000, 1023, 1024, 4096, 5000]
LONG_ALPHABET = string.ascii_letters + string.digits + "-._~" * 3 + " &=?#%+/<>\"'é中"


def gen_long(rng, n=None, alphabet=LONG_ALPHABET):
    """A string of exactly n characters (n from LENGTHS); every position differs from its neighbours
    often enough that truncation, wrapping or chunking at any offset changes the value."""
    n = n if n is not None else rng.choice(LENGTHS)
    return "".join(rng.choice(alphabet) for _ in range(n))


def gen_relay(rng):
    c = rng.randrange(10)
    if c >= 8:
        return gen_long(rng)
    if c == 0:
        return ""
    if c == 1:
        return "https://sp.c14.example/return?a=1&b=2#frag"
    if c == 2:
        return "id-" + "".join(rng.choice(string.hexdigits) for _ in range(32))
    return gen_text(rng)


def gen_query_part(rng):
    n = rng.randint(1, 3)
    return "&".join("%s=%s" % (rng.choice(["a", "x", "lang", "SAMLRequest", "RelayState", "sp", "é"]),
                                rng.choice(["1", "b", "", "c+d", "%26", "é", "a=b"])) for _ in range(n))


def gen_dest(rng):
    """Destinations: plain, with query, with fragment, with empty query, hostile."""
    base = rng.choice(["https://idp.c14.example/sso", "https://sp.c14.example/acs/post", "http://localhost:8088/sso",
                       "https://idp.c14.example/sso;p=1", "https://exämple.c14.example/söö", "/relative/path", "",
                       "https://user:pw@idp.c14.example:8443/sso", "https://[::1]:8443/sso"])
    c = rng.randrange(22)
    if c == 20:
        return base + "/" + gen_long(rng, alphabet=string.ascii_letters + string.digits + "-._~/%;:@")
    if c == 21:
        return base + "?p=" + gen_long(rng, alphabet=string.ascii_letters + string.digits + "-._~&=+%;/é")
    if c < 6:
        return base
    if c < 10:
        return base + "?" + gen_query_part(rng)
    if c == 10:
        return base + "#" + rng.choice(["frag", "", "a?b", "?x=1"])
    if c == 11:
        return base + "?" + gen_query_part(rng) + "#frag"
    if c == 12:
        return base + rng.choice(["?", "?#x", "?\n", "?\t"])
    if c == 13:
        return base + "?" + rng.choice(["\n", "a", "=", "&", "a=", "=b", "a&b", "&&a=b&&"])
    if c == 14:
        return base + rng.choice(ATTACKS)
    if c == 15:
        return rng.choice(["http://[evil", "http://x]y/", "http://ex？ample/", "http://a/b\tc?d", " http://a/?b=c", "http://a/?b=c "])
    return base + gen_text(rng, 12)


def netloc_ok(loc):
    try:
        up.urlparse(loc)
        return True
    except ValueError:
        return False


# ------------------------------------------------------------------ messages


def xml_text_esc(s):
    return s.replace("&", "&amp;").replace("<", "&lt;").replace(">", "&gt;")


def xml_attr_esc(s):
    return (s.replace("&", "&amp;").replace("<", "&lt;").replace('"', "&quot;").replace("\n", "&#10;")
            .replace("\t", "&#9;"))


XML_CONTENT = (list(string.ascii_letters + string.digits) + ['&', '<', '>', '"', "'", ' ', '\n', '\t', '=', '+', '/', '?', '#', '%']
               + ['é', 'ü', '中', '😀', ' ', ' ', 'ａ'])


def gen_xml_text(rng, maxlen=16):
    out = []
    for _ in range(rng.randint(0, maxlen) if maxlen <= 64 else maxlen):      # long requests: exactly that many positions
        # one position in twelve carries a templating-special sequence (backslash escapes, $1, %s, {0}, ...)
        out.append(rng.choice(TEMPLATE_SEQS) if maxlen <= 64 and rng.randrange(12) == 0 else rng.choice(XML_CONTENT))
    return "".join(out)


def gen_tree(rng, depth=0, big=0):
    """Abstract element tree: [clark tag, sorted [[clark attr, value]], text, children, tail]."""
    ns = rng.choice([SAMLP, SAML, "urn:c14:ext", ""])
    local = rng.choice(["AuthnRequest", "Response", "LogoutRequest", "Issuer", "Extensions", "Item", "v", "NameID", "Status"])
    tag = "{%s}%s" % (ns, local) if ns else local
    attrs = {}
    for _ in range(rng.randint(0, 3)):
        an = rng.choice(["ID", "Version", "Destination", "IssueInstant", "{urn:c14:ext}flag", "{http://www.w3.org/XML/1998/namespace}lang", "x"])
        attrs[an] = gen_xml_text(rng) if rng.randrange(25) else gen_xml_text(rng, rng.choice(LENGTHS[:9]))
    text = gen_xml_text(rng, 16 + big)         # `big` makes ONE long text node (the root's)
    children = []
    if depth < 3:
        for _ in range(rng.randint(0, 3 if depth else 4)):
            children.append(gen_tree(rng, depth + 1, 0))
    tail = rng.choice(["", "", "\n", "\n  ", gen_xml_text(rng, 6)]) if depth else ""
    return [tag, sorted([k, v] for k, v in attrs.items()), text, children, tail]


PREFIXES = {SAMLP: "samlp", SAML: "saml", "urn:c14:ext": "ext", "http://www.w3.org/XML/1998/namespace": "xml"}


def render_tree(t, declared=()):
    """Independent XML writer (not xml.etree, not saml2)."""
    tag, attrs, text, children, tail = t
    decls = []
    declared = set(declared)

    def qn(name, is_attr):
        if name.startswith("{"):
            ns, local = name[1:].split("}", 1)
            p = PREFIXES[ns]
            if ns not in declared and p != "xml":
                declared.add(ns)
                decls.append(' xmlns:%s="%s"' % (p, ns))
            return "%s:%s" % (p, local)
        return name
    q = qn(tag, False)
    a = "".join(' %s="%s"' % (qn(k, True), xml_attr_esc(v)) for k, v in attrs)
    inner = xml_text_esc(text) + "".join(render_tree(c, declared) for c in children)
    if inner:
        s = "<%s%s%s>%s</%s>" % (q, "".join(decls), a, inner, q)
    else:
        s = "<%s%s%s/>" % (q, "".join(decls), a)
    return s + xml_text_esc(tail)


def canon_el(el, root=True):
    return [el.tag, sorted([k, v] for k, v in el.attrib.items()), el.text or "", [canon_el(c, False) for c in el],
            "" if root else (el.tail or "")]


def cstr(c):
    return json.dumps(c, ensure_ascii=False, separators=(",", ":"))


DECLS = ['', '<?xml version="1.0" encoding="UTF-8"?>', "<?xml version='1.0' encoding='UTF-8'?>", '<?xml version="1.0"?>',
         '<?xml version="1.0" encoding="utf-8" standalone="yes"?>']
DECL_SEP = ["", "\n", "\r\n", " \n\t ", "\n\n"]


def library_message(rng):
    """A message built by pysaml2's own classes (library-made), as (text, root tag)."""
    from saml2 import saml, samlp

    kind = rng.randrange(4)
    issuer = saml.Issuer(text="https://sp.c14.example/" + gen_xml_text(rng, 8))
    if kind == 0:
        m = samlp.AuthnRequest(id="id-" + str(rng.randrange(10 ** 6)), version="2.0", issue_instant="2026-01-01T00:00:00Z",
                               destination="https://idp.c14.example/sso?x=" + gen_xml_text(rng, 6), issuer=issuer,
                               assertion_consumer_service_url="https://sp.c14.example/acs")
    elif kind == 1:
        m = samlp.LogoutRequest(id="id-" + str(rng.randrange(10 ** 6)), version="2.0", issue_instant="2026-01-01T00:00:00Z",
                                issuer=issuer, name_id=saml.NameID(text=gen_xml_text(rng, 12), format=saml.NAMEID_FORMAT_TRANSIENT),
                                reason=gen_xml_text(rng, 10))
    elif kind == 2:
        m = samlp.LogoutResponse(id="id-" + str(rng.randrange(10 ** 6)), version="2.0", issue_instant="2026-01-01T00:00:00Z",
                                 in_response_to="id-1", issuer=issuer,
                                 status=samlp.Status(status_code=samlp.StatusCode(value=samlp.STATUS_SUCCESS),
                                                     status_message=samlp.StatusMessage(text=gen_xml_text(rng, 12))))
    else:
        avs = [saml.AttributeValue(text=gen_xml_text(rng, 12)) for _ in range(rng.randint(1, 4))]
        a = saml.Assertion(id="a-1", version="2.0", issue_instant="2026-01-01T00:00:00Z", issuer=issuer,
                           attribute_statement=[saml.AttributeStatement(attribute=[saml.Attribute(name="urn:oid:2.5.4.4", attribute_value=avs)])])
        m = samlp.Response(id="id-" + str(rng.randrange(10 ** 6)), version="2.0", issue_instant="2026-01-01T00:00:00Z",
                           in_response_to="id-1", issuer=issuer, assertion=[a],
                           status=samlp.Status(status_code=samlp.StatusCode(value=samlp.STATUS_SUCCESS)))
    c = rng.randrange(3)
    if c == 0:
        txt = m.to_string().decode("utf-8")          # with ElementTree's declaration + line break
    elif c == 1:
        txt = str(m)
    else:
        txt = ET.tostring(m._to_element_tree(), encoding="unicode")
    return txt.replace("\r", ""), "{%s}%s" % (m.c_namespace, m.c_tag)


def _no_cr(t):
    """The same tree without carriage returns in text, tails and attribute values."""
    tag, attrs, text, children, tail = t
    return [tag, [[k, v.replace("\r", "")] for k, v in attrs], text.replace("\r", ""), [_no_cr(c) for c in children],
            tail.replace("\r", "")]


def gen_message(rng, tier, soap=False):
    """-> (text, canonical tree | None, root tag | None)"""
    c = rng.randrange(10)
    if c < 3:
        txt, tag = library_message(rng)
        return txt, cstr(canon_el(ET.fromstring(txt.encode("utf-8")))), tag
    big = 0
    if c == 3:
        big = rng.choice(LENGTHS + [20000, 60000]) if tier == "quick" else rng.choice(LENGTHS + [20000, 60000, 250000])
    t = gen_tree(rng, 0, big)
    if soap:
        t = _no_cr(t)
    body = render_tree(t)
    if c == 4:
        body = body.replace("><", ">\n<", 2)     # line breaks between elements change text/tail: recompute below
        t = canon_el(ET.fromstring(body.encode("utf-8")))
    decl = rng.choice(DECLS)
    txt = decl + (rng.choice(DECL_SEP) if decl else "") + body + rng.choice(["", "", "\n"])
    return txt, cstr(t), t[0]


LEAD = ["\n", " ", "  \n", "\t", "\r\n", "\ufeff", "\ufeff\n", "\n\n   ", "<!-- c -->", "x", "&"]


def gen_wire_message(rng, tier):
    """Message text for the POST / redirect packers and unpackers: as gen_message, and in one case of five
    without declaration and starting with white space, a BOM, a comment or plain text (the packers
    take any string; a receiver must not guess the encoding from the first character)."""
    msg, _, _ = gen_message(rng, tier)
    if rng.randrange(5) == 0:
        msg = rng.choice(LEAD) + _soap_spliced(msg)
    return msg


# ------------------------------------------------------------------ cases


def hexlooking_indexes():
    """Endpoint indexes > 255 whose two big-endian bytes `int(field, 16)` would accept (hex digits,
    sign or white space): a two-byte encoding of them is misread by artifact2destination."""
    res = []
    for a in range(256):
        for b in range(256):
            try:
                int(bytes([a, b]), 16)
            except ValueError:
                continue
            if a * 256 + b > 255:
                res.append(a * 256 + b)
    return res


ISSUERS = ["https://idpA.c14.example/idp", "https://idpB.c14.example/idp", "urn:c14:idp:C"]
RND = b"r" * 16          # what saml2.entity.rndbytes returns while a history runs (makes handles reproducible)


def gen_md_version(rng, prev=None):
    """{entity id: [[index, location], ...]} — a fresh one, or `prev` with endpoints moved, indexes
    swapped or renumbered, an entity removed or added, or unchanged."""
    if prev is None or rng.randrange(6) == 0:
        v = {}
        for k, eid in enumerate(ISSUERS):
            if rng.randrange(5) == 0:
                continue
            idxs = rng.sample([0, 1, 2, 3, 7, 10, 15, 16, 171, 255, 256], rng.randint(0, 4))
            v[eid] = [[str(ix), "https://h%d.c14.example/ars/%s/%d" % (k, ix, rng.randrange(1000))] for ix in idxs]
        return v
    v = {e: [list(ep) for ep in eps] for e, eps in prev.items()}
    c = rng.randrange(7)
    cands = [e for e in v if v[e]]
    if c == 0 or not cands:
        return v                                             # same metadata again
    e = rng.choice(cands)
    if c == 1:
        for ep in v[e]:                                      # every endpoint moved
            ep[1] = ep[1] + "/moved%d" % rng.randrange(100)
    elif c == 2 and len(v[e]) > 1:
        a, b = rng.sample(range(len(v[e])), 2)               # two indexes swapped
        v[e][a][0], v[e][b][0] = v[e][b][0], v[e][a][0]
    elif c == 3:
        for ep in v[e]:                                      # renumbered
            ep[0] = str((int(ep[0]) + 1) % 256)
    elif c == 4:
        del v[e]                                             # entity gone
    elif c == 5:
        missing = [x for x in ISSUERS if x not in v]
        if missing:                                          # entity (back) in
            v[missing[0]] = [[str(ix), "https://new.c14.example/ars/%d" % ix] for ix in rng.sample([0, 1, 2, 10], 2)]
        else:
            v[e] = v[e][1:]                                  # an endpoint withdrawn
    else:
        v[e].reverse()                                       # document order changed
    return v


def md_store(v):
    return [{"sourceid": hashlib.sha1(e.encode("utf-8")).hexdigest(), "descriptors": [eps]} for e, eps in v.items() if eps]


def gen_history(rng):
    v = gen_md_version(rng)
    versions = [v]
    steps = []
    issued = 0
    for _ in range(rng.randint(2, 8)):
        c = rng.randrange(10)
        if c < 5 or not issued and c < 8:
            eid = rng.choice(ISSUERS)
            pub = [int(ep[0]) for vv in versions for ep in vv.get(eid, [])]
            k = rng.randrange(10)
            idx = rng.choice(pub) if pub and k < 6 else rng.choice([0, 1, 2, 5, 10, 16, 171, 255]) if k < 9 else rng.choice([256, 12337, -1])
            msg = "<samlp:Response xmlns:samlp=\"%s\" ID=\"id-%d\"/>" % (SAMLP, rng.randrange(10 ** 6))
            steps.append({"k": "issue", "entity_id": eid, "sourceid": hashlib.sha1(eid.encode("utf-8")).hexdigest(),
                          "handle": hashlib.sha1(msg.encode("utf-8") + RND).hexdigest(), "idx": idx, "msg": msg,
                          "dest": rng.choice(["https://sp.c14.example/acs/artifact", "https://sp.c14.example/acs?x=1#f"]),
                          "rs": gen_relay(rng) if rng.randrange(3) == 0 else "rs"})
            if 0 <= idx <= 255:
                issued += 1
        elif c < 8:
            v = gen_md_version(rng, v)
            versions.append(v)
            steps.append({"k": "reload", "md": v, "store": md_store(v)})
        else:
            steps.append({"k": "resolve", "i": rng.randrange(max(issued, 1) + (rng.randrange(6) == 0))})
    if issued and not any(s["k"] == "resolve" for s in steps):
        steps.append({"k": "resolve", "i": rng.randrange(issued)})
    return {"op": "art_history", "md": versions[0], "store": md_store(versions[0]), "steps": steps}


def inflate_or_none(b):
    try:
        return zlib.decompress(b, -15)
    except zlib.error:
        return None


def inflate_row(b):
    r = inflate_or_none(b)
    return [hx(b), hx(r) if r is not None else None]


def raw_deflate(b):
    c = zlib.compressobj(6, zlib.DEFLATED, -15)
    return c.compress(b) + c.flush()


def gen_store(rng):
    ents = []
    for k in range(rng.randint(1, 3)):
        eid = rng.choice(["https://idp%d.c14.example/idp", "urn:c14:idp:%d", "https://ïdp%d.c14.example/é"]) % k
        eps = []
        for i in range(rng.randint(1, 5)):
            idx = rng.choice([str(i), str(i), str(rng.randrange(0, 256)), str(rng.choice([255, 256, 300, 4660, 65535])), "01", "010"])
            eps.append([idx, "https://idp%d.c14.example/ars/%d" % (k, i)])
        ents.append({"entity_id": eid, "eps": eps})
    return ents


def store_json(ents):
    return [{"sourceid": hashlib.sha1(e["entity_id"].encode("utf-8")).hexdigest(), "descriptors": [e["eps"]]} for e in ents]


def gen_cases(rng, tier):
    q = tier == "quick"
    n = lambda a, b: a if q else b

    # ---- codecs: exact output
    for i in range(n(300, 3000)):
        ln = rng.choice([0, 1, 2, 3, 4, 5, 6, 7, 30, 31, 32, rng.randint(0, 200)])
        yield {"op": "b64enc", "data": hx(bytes(rng.randrange(256) for _ in range(ln)))}
    b64alpha = string.ascii_letters + string.digits + "+/"
    for i in range(n(400, 4000)):
        c = rng.randrange(6)
        if c == 0:
            t = base64.b64encode(bytes(rng.randrange(256) for _ in range(rng.randint(0, 12)))).decode()
        elif c == 1:
            t = "".join(rng.choice(b64alpha + "=") for _ in range(rng.randint(0, 12)))
        elif c == 2:
            t = "".join(rng.choice(b64alpha + "==\n -_!é") for _ in range(rng.randint(0, 16)))
        elif c == 3:
            t = base64.b64encode(bytes(rng.randrange(256) for _ in range(rng.randint(0, 12)))).decode()
            k = rng.randrange(len(t) + 1)
            t = t[:k] + rng.choice(["=", "\n", " ", "A", "==", "-", "\x00", "é"]) + t[k:]
        elif c == 4:
            t = base64.b64encode(bytes(rng.randrange(256) for _ in range(rng.randint(0, 12)))).decode().rstrip("=")
        else:
            t = base64.urlsafe_b64encode(bytes(rng.randrange(256) for _ in range(rng.randint(0, 12)))).decode()
        yield {"op": "b64dec", "text": t}
    for i in range(n(300, 3000)):
        yield {"op": "escape", "text": gen_text(rng)}
    for i in range(n(300, 3000)):
        yield {"op": "quote", "text": gen_text(rng)}
    for i in range(n(300, 3000)):
        t = gen_text(rng)
        if rng.random() < 0.5:
            t = up.quote_plus(t) if rng.random() < 0.5 else up.quote_plus(t).lower()
        yield {"op": "unquote", "text": t}
    for i in range(n(300, 3000)):
        ps = [[gen_text(rng, 8), gen_text(rng, 8)] for _ in range(rng.randint(0, 4))]
        keys = set()
        ps = [p for p in ps if not (p[0] in keys or keys.add(p[0]))]   # urlencode takes a dict
        yield {"op": "urlencode", "params": ps}
    for i in range(n(400, 4000)):
        c = rng.randrange(4)
        if c == 0:
            t = up.urlencode([(gen_text(rng, 6), gen_text(rng, 6)) for _ in range(rng.randint(0, 4))])
        elif c == 1:
            t = "&".join(rng.choice(["a", "b", "a=1", "a=", "=1", "b=2", "a=3", "", "=", "a=b=c", "%41=%zz", "a+b=c+d", "é=ü", "a=%e9"])
                         for _ in range(rng.randint(0, 5)))
        else:
            t = gen_text(rng)
        yield {"op": "parse_qs", "text": t}
    for i in range(n(400, 4000)):
        t = gen_dest(rng) if rng.random() < 0.7 else gen_text(rng)
        if netloc_ok(t):
            yield {"op": "query", "text": t}

    # ---- HTTP-POST
    for i in range(n(500, 2500)):
        msg = gen_wire_message(rng, tier)
        c = rng.randrange(12)
        typ = "SAMLRequest" if c < 5 else "SAMLResponse" if c < 10 else rng.choice(["SAMLart", "x\"y", "Foo&Bar", "P" + gen_long(rng, rng.choice(LENGTHS[:9]))])
        if typ not in ("SAMLRequest", "SAMLResponse") and rng.random() < 0.7:
            msg = "".join(ch for ch in msg if ord(ch) < 128)
        via = "apply_binding" if typ in ("SAMLRequest", "SAMLResponse") and rng.random() < 0.5 else "pack"
        case = {"op": "post", "typ": typ, "msg": msg, "loc": gen_dest(rng), "rs": gen_relay(rng), "via": via}
        if typ in ("SAMLRequest", "SAMLResponse") and rng.randrange(12) == 0:
            _as_message_object(case, rng)        # the packer is handed the message INSTANCE: str(message)
        elif GEN_BYTES_MESSAGE and typ in ("SAMLRequest", "SAMLResponse") and rng.randrange(12) == 0:
            case["msg_bytes"] = True
        case["inflate"] = [inflate_row(u8(case["msg"]))]
        yield case
    # receivers: payloads that were / were not deflated by the sender, and damaged ones
    for i in range(n(300, 2000)):
        msg = gen_wire_message(rng, "quick")
        raw = u8(msg)
        binding = rng.choice(["post", "post", "redirect", "artifact"])
        c = rng.randrange(6)
        expect = None
        if c < 2:
            data = raw_deflate(raw)
            txt = base64.b64encode(data).decode()
            expect = raw if binding in ("post", "redirect") else data
        elif c < 4:
            data = raw
            txt = base64.b64encode(data).decode()
            expect = raw if binding in ("post", "artifact") else None
        elif c == 4:
            data = raw_deflate(raw)
            data = data[: rng.randrange(len(data) + 1)] + bytes([rng.randrange(256)]) + data[rng.randrange(len(data) + 1):]
            txt = base64.b64encode(data).decode()
        else:
            data = raw_deflate(raw)
            txt = base64.b64encode(data).decode()
            k = rng.randrange(len(txt) + 1)
            txt = txt[:k] + rng.choice(["=", "\n", " ", "é", "A", "-"]) + txt[k + rng.randrange(2):]
        try:
            dec = base64.b64decode(txt)
        except Exception:
            dec = None
        case = {"op": "unravel", "binding": binding, "txt": txt, "inflate": [inflate_row(dec)] if dec is not None else []}
        if expect is not None:
            case["expect"] = hx(expect)
        yield case
    # the bindings that hand the text on as it is (URI, None) and bindings unravel does not know
    for i in range(n(60, 400)):
        txt = gen_wire_message(rng, "quick") if rng.random() < 0.7 else gen_text(rng)
        binding = rng.choice(["uri", "none", "unknown"])
        case = {"op": "unravel", "binding": binding, "txt": txt, "inflate": []}
        if binding == "unknown":
            case["urn"] = rng.choice(UNKNOWN_BINDINGS)
        else:
            case["expect"] = hx(u8(txt))
        yield case

    # ---- HTTP-Redirect
    for i in range(n(600, 3000)):
        msg = gen_wire_message(rng, tier)
        c = rng.randrange(12)
        typ = "SAMLRequest" if c < 5 else "SAMLResponse" if c < 10 else rng.choice(["SAMLart", "Other"])
        if typ == "SAMLart":
            msg = base64.b64encode(bytes(rng.randrange(256) for _ in range(44))).decode()
        loc = gen_dest(rng)
        via = "apply_binding" if typ in ("SAMLRequest", "SAMLResponse") and rng.random() < 0.5 else "pack"
        case = {"op": "redirect", "typ": typ, "msg": msg, "loc": loc, "rs": gen_relay(rng), "via": via}
        if typ in ("SAMLRequest", "SAMLResponse") and rng.randrange(12) == 0:
            _as_message_object(case, rng)        # f"{message}" of a message instance
        case["deflated"] = hx(zlib.compress(u8(case["msg"]))[2:-4])
        yield case
    # ---- URI binding (HTTPBase.use_http_uri, directly and through apply_binding(BINDING_URI))
    for i in range(n(300, 2000)):
        c = rng.randrange(20)
        typ = "SAMLRequest" if c < 9 else "SAMLResponse" if c < 18 else rng.choice(["SAMLart", "Other", ""])
        if typ == "SAMLResponse":
            k = rng.randrange(6)
            if k == 0:
                msg, _ = library_message(rng)
            elif k == 1:
                msg = gen_wire_message(rng, "quick")
            elif k == 2:        # one line, no surrounding white space: must arrive whole
                msg = _soap_spliced(gen_message(rng, "quick")[0]).replace("\n", " ").strip() or "<a/>"
            elif k == 3:
                msg = rng.choice(LEAD + ["\x1c", "\x85", "\u2003", "\u3000"]) + render_tree(gen_tree(rng, 2)).replace("\n", "") + \
                    rng.choice(["", " ", "\t", "\xa0", "\u2028", "\x1f "])
            elif k == 4:        # declaration, line break, body of one or several lines
                msg = rng.choice(DECLS[1:]) + "\n" + render_tree(gen_tree(rng, 2)).replace("><", rng.choice(["><", ">\n<"]), 1) + \
                    rng.choice(["", "\n", "\n\n"])
            else:
                msg = rng.choice(["", "\n", "a\n", "\nb", "a\nb\nc", " ", "\r\n<a/>", "<a/>\r"])
        else:
            k = rng.randrange(6)
            msg = ("id-" + "".join(rng.choice(string.hexdigits) for _ in range(32)) if k < 2 else gen_text(rng) if k < 4
                   else gen_long(rng) if k == 4 else rng.choice(["", "a\nb", "x y", "é", "&ID=evil", "a=b&RelayState=evil"]))
        # every destination shape of the other URL bindings: no / empty / existing query, trailing `?` `&`, fragment
        loc = gen_dest(rng) if rng.random() < 0.7 else rng.choice(["https://idp.c14.example/uri", "http://localhost:8088/id",
                                                                   "https://exämple.c14.example/söö", "/relative/path", ""])
        via = "apply_binding" if typ in ("SAMLRequest", "SAMLResponse") and rng.random() < 0.4 else "use_http_uri"
        yield {"op": "uri", "typ": typ, "msg": msg, "loc": loc, "rs": gen_relay(rng), "via": via}
    # ---- artifact URL
    for i in range(n(250, 1500)):
        art = base64.b64encode(b"\x00\x04" + bytes(rng.randrange(256) for _ in range(42))).decode()
        loc = gen_dest(rng)
        yield {"op": "artifact_url", "art": art, "loc": loc, "rs": gen_relay(rng),
               "via": rng.choice(["use_http_artifact", "apply_binding", "apply_binding_response"])}

    # ---- SOAP
    for i in range(n(400, 2500)):
        c = rng.randrange(10)
        if c < 7:
            msg, tree, tag = gen_message(rng, tier, soap=True)
            e = rng.randrange(4)
            expected = [tag] if e < 2 else [tag, "{%s}Other" % SAMLP] if e == 2 else ["{%s}Other" % SAMLP]
            yield {"op": "soap", "thingy": msg, "tree": tree, "tag": tag, "expected": expected, "headers": [],
                   "via": rng.choice(["pack", "apply_binding"])}
        elif c < 8 and rng.random() < 0.25:
            # the literal text of pack.PREFIX inside a CDATA section of the message (regression of d02e146f)
            inner = PREFIX_TEXT if rng.random() < 0.7 else "a" + PREFIX_TEXT + gen_xml_text(rng, 4).replace("]", "")
            body = '<ext:Item xmlns:ext="urn:c14:ext"><![CDATA[%s]]></ext:Item>' % inner
            decl = rng.choice(DECLS)
            yield {"op": "soap", "thingy": decl + (rng.choice(DECL_SEP) if decl else "") + body,
                   "tree": cstr(["{urn:c14:ext}Item", [], inner, [], ""]), "tag": "{urn:c14:ext}Item",
                   "expected": ["{urn:c14:ext}Item"], "headers": [], "via": "pack"}
        elif c < 8:
            # library-made message through Entity.unravel(…, BINDING_SOAP, msgtype)
            msg, tag = library_message(rng)
            mt = rng.choice(list(MSGTYPES))
            yield {"op": "soap", "thingy": msg, "tree": cstr(canon_el(ET.fromstring(msg.encode("utf-8")))), "tag": tag,
                   "expected": MSGTYPES[mt], "headers": [], "via": "unravel", "msgtype": mt}
        else:
            # string level only: declarations in odd shapes, not necessarily well-formed
            body = rng.choice(["<a/>", "<a>t</a>", "", "text", "<a><![CDATA[" + '<?xml version="1.0" encoding="UTF-8"?>' + "]]></a>",
                               '<a x="<?xml version=&quot;1.0&quot;?>"/>'])
            decl = rng.choice(DECLS + ["<?XML version='1.0'?>", "<?xml", "<?xml ?", "<?xml?>", "<?xm", " <?xml version='1.0'?>",
                                       "<?xml version='1.0'?><?xml version='1.0'?>", '<?xml version="1.0" encoding="UTF-8"?>' * 2])
            sep = rng.choice(DECL_SEP + [" ", " \x1f", "\x0b\x0c", "x"])
            yield {"op": "soap", "thingy": decl + sep + body, "tree": None, "tag": "", "expected": [], "headers": [], "via": "pack"}
    for i in range(n(40, 400)):
        spec = {"kind": rng.randrange(4), "seed": rng.randrange(10 ** 9), "headers": rng.randint(0, 2)}
        m, headers = _soap_object(spec)
        tag = "{%s}%s" % (m.c_namespace, m.c_tag)
        yield {"op": "soap", "as_object": spec, "thingy": "", "tree": cstr(canon_el(ET.fromstring(m.to_string()))), "tag": tag,
               "expected": [tag] if rng.random() < 0.8 else ["{%s}Other" % SAMLP],
               "headers": [cstr(canon_el(ET.fromstring(h.to_string()))) for h in headers]}

    # envelopes from elsewhere: every branch of the unwrapping side
    for i in range(n(120, 1200)):
        root = rng.choice(["{%s}Envelope" % SOAPENV] * 6 + ["{%s}envelope" % SOAPENV, "{urn:c14:ext}Envelope", "Envelope"])
        parts = []
        for _ in range(rng.choice([0, 1, 1, 1, 2, 2, 3])):
            kind = rng.choice(["body", "body", "header", "other"])
            kids = [gen_tree(rng, 3) for _ in range(rng.choice([0, 1, 1, 1, 2]))]
            for k in kids:
                k[4] = ""
            parts.append((kind, kids))
        ptag = {"body": "{%s}Body" % SOAPENV, "header": "{%s}Header" % SOAPENV, "other": "{urn:c14:ext}Other"}
        PREFIXES[SOAPENV] = "soapenv"
        tree = [root, [], "", [[ptag[k], [], "", kids, ""] for k, kids in parts], ""]
        xml = render_tree(tree)
        first = next((kids for k, kids in parts if k == "body"), [])
        tags = [[cstr(k), k[0]] for _, kids in parts for k in kids]
        cand = [k[0] for k in first] or ["{%s}Response" % SAMLP]
        expected = [rng.choice(cand)] if rng.random() < 0.7 else ["{%s}Other" % SAMLP]
        yield {"op": "soap_unwrap", "envelope": xml, "expected": expected, "tags": tags,
               "env": {"tag_ok": root == "{%s}Envelope" % SOAPENV,
                       "parts": [{"kind": k, "children": [cstr(x) for x in kids]} if k != "other" else {"kind": "other"}
                                 for k, kids in parts]}}

    # ---- SOAP with header blocks (ECP / PAOS): wrap with header_parts, open with
    #      class_instances_from_soap_enveloped_saml_thingies
    for i in range(n(160, 1500)):
        nh = rng.choice([0, 1, 1, 2, 2, 3, 5])
        spec = {"kind": rng.choice([0, 1, 2, 3, 3, 4, 5, 6]), "seed": rng.randrange(10 ** 9),
                "hdr": [rng.choice(HDR_KINDS if rng.randrange(6) else HDR_KINDS_FOREIGN) for _ in range(nh)],
                "wrap": rng.choice(["pack", "pack", "pack_str", "apply_binding", "apply_binding_paos"]),
                "mods": rng.choice(["entity", "ecp"])}
        m, headers = _soap_parts(spec)
        tree = cstr(canon_el(ET.fromstring(m.to_string())))
        hs = [cstr(canon_el(ET.fromstring(h.to_string()))) for h in headers]
        yield {"op": "soap_open", "parts": spec, "tree": tree, "headers": hs,
               "unknown": sorted({x for x in [tree] + hs if not _known_class(json.loads(x)[0], spec["mods"])})}
    # envelopes made elsewhere: several Header / Body parts, foreign parts, empty parts, children of
    # listed and unlisted classes, elements without namespace
    for i in range(n(160, 1500)):
        root = rng.choice(["{%s}Envelope" % SOAPENV] * 8 + ["{%s}envelope" % SOAPENV, "{urn:c14:ext}Envelope", "Envelope"])
        mods = rng.choice(["entity", "ecp"])
        PREFIXES[SOAPENV] = "soapenv"
        parts = []
        for _ in range(rng.choice([0, 1, 2, 2, 2, 3, 3, 4])):
            kind = rng.choice(["body", "body", "header", "header", "other"])
            kids = []
            for _ in range(rng.choice([0, 1, 1, 1, 2, 3])):
                if rng.randrange(5):
                    m, hh = _soap_parts({"kind": rng.choice([0, 1, 2, 3]), "seed": rng.randrange(10 ** 9),
                                         "hdr": [rng.choice(HDR_KINDS)], "wrap": "pack", "mods": mods})
                    el = m if kind == "body" and rng.randrange(4) else hh[0]
                    kids.append(canon_el(ET.fromstring(el.to_string())))
                else:
                    k = gen_tree(rng, 3)
                    k[4] = ""
                    kids.append(k)
            parts.append((kind, kids))
        ptag = {"body": "{%s}Body" % SOAPENV, "header": "{%s}Header" % SOAPENV, "other": "{urn:c14:ext}Other"}
        tree = [root, [], "", [[ptag[k], [], "", kids, ""] for k, kids in parts], ""]
        if rng.randrange(16) == 0:       # not XML at all: cut short, or a second root, or text
            xml = render_tree(tree)
            yield {"op": "soap_open_foreign", "mods": mods, "unknown": [], "env": None,
                   "envelope": rng.choice([xml[: rng.randrange(1, len(xml))], xml + "<x/>", "not xml", ""])}
            continue
        yield {"op": "soap_open_foreign", "envelope": render_tree(tree), "mods": mods,
               "unknown": sorted({cstr(k) for _, kids in parts for k in kids if not _known_class(k[0], mods)}),
               "env": {"tag_ok": root == "{%s}Envelope" % SOAPENV,
                       "parts": [{"kind": k, "children": [cstr(x) for x in kids]} if k != "other" else {"kind": "other"}
                                 for k, kids in parts]}}

    # ---- artifacts
    stores = [gen_store(rng) for _ in range(n(2, 6))]
    fixed = [{"entity_id": "https://idp0.c14.example/idp",
              "eps": [[str(i), "https://idp0.c14.example/ars/%d" % i] for i in (0, 1, 9, 10, 15, 16, 99, 100, 171, 255, 256, 12337)]}]
    for idx in range(256):          # exhaustive over the representable indexes
        yield {"op": "artifact", "entity_id": fixed[0]["entity_id"], "handle": hx(bytes(rng.randrange(256) for _ in range(20))),
               "idx": idx, "sourceid": hashlib.sha1(fixed[0]["entity_id"].encode()).hexdigest(), "ents": fixed, "store": store_json(fixed)}
    # the whole two-byte range: an index that does not fit must be refused or resolve to itself; the
    # pairs of bytes that look like hexadecimal text (b"01", b" 1", b"ab", b"+f" ...) are the ones a
    # two-byte encoding would get misread
    hexlike = hexlooking_indexes()
    sweep = [12337, 8241, 24930, 255, 256, 257, 12336, 12338, 65535, 65536] + \
        (rng.sample(hexlike, 90) if q else hexlike) + [rng.randrange(256, 65536) for _ in range(n(60, 600))]
    for idx in sweep:
        yield {"op": "artifact", "entity_id": fixed[0]["entity_id"], "handle": hx(bytes(rng.randrange(256) for _ in range(20))),
               "idx": idx, "sourceid": hashlib.sha1(fixed[0]["entity_id"].encode()).hexdigest(), "ents": fixed, "store": store_json(fixed)}
    for i in range(n(200, 2000)):
        ents = rng.choice(stores)
        c = rng.randrange(10)
        eid = rng.choice(ents)["entity_id"] if c < 8 else "https://unknown.c14.example/" + (gen_text(rng, 6) if c == 8 else gen_long(rng))
        own = [int(e[0]) for en in ents if en["entity_id"] == eid for e in en["eps"] if e[0].isdigit()]
        c = rng.randrange(10)
        idx = rng.choice(own) if own and c < 5 else rng.randrange(256) if c < 7 else rng.choice([-1, 256, 257, 300, 4660, 65535, 65536, -255, 10 ** 6])
        case = {"op": "artifact", "entity_id": eid, "handle": hx(bytes(rng.randrange(256) for _ in range(rng.choice([20, 20, 0, 5, 33])))),
                "idx": idx, "sourceid": hashlib.sha1(eid.encode("utf-8")).hexdigest(), "ents": ents, "store": store_json(ents)}
        k = rng.randrange(5)
        if k == 0:          # the handle given as text (create_artifact encodes it as UTF-8)
            case["handle"] = hx(u8(rng.choice([hashlib.sha1(str(i).encode()).hexdigest()[:20], gen_text(rng, 20), "hándle-中-" + str(i), ""])
                                   .encode("utf-8", "replace").decode("utf-8")))
            case["handle_as_str"] = True
        elif k == 1:        # the entity id given as bytes
            case["eid_as_bytes"] = True
        yield case
    for i in range(n(200, 2000)):
        ents = rng.choice(stores)
        eid = rng.choice(ents)["entity_id"]
        sid = hashlib.sha1(eid.encode("utf-8")).digest()
        c = rng.randrange(8)
        field = rng.choice([b"0a", b"0A", b"a0", b" 1", b"1 ", b"+1", b"-1", b"-0", b"\x00\x01", b"\x00\x0a", b"\x01\x00", b"1_", b"0x", b"\t2", b"ff", b"FF",
                            b"zz", bytes([rng.randrange(256), rng.randrange(256)])])
        raw = b"\x00\x04" + field + sid + b"h" * 20
        if c == 0:
            raw = b"\x00\x05" + raw[2:]
        elif c == 1:
            raw = raw[: rng.randrange(len(raw))]
        elif c == 2:
            raw = raw[:4] + bytes(20) + raw[24:]
        art = base64.b64encode(raw).decode()
        if c == 3:
            art = art[:-2] + rng.choice(["", "=", "é"])
        yield {"op": "art_dest", "art": art, "ents": ents, "store": store_json(ents)}
    # ---- histories through the public glue: Entity.use_artifact -> apply_binding(HTTP-Artifact) ->
    #      receiver.artifact2destination, with reload_metadata in between
    for i in range(n(70, 600)):
        yield gen_history(rng)

    his = range(256) if not q else sorted(set([0, 9, 10, 13, 32, 43, 45, 48, 57, 65, 70, 71, 95, 97, 102, 103, 255] + [rng.randrange(256) for _ in range(16)]))
    for hi in his:
        yield {"op": "art_fields", "hi": hi}


PREFIX_TEXT = '<?xml version="1.0" encoding="UTF-8"?>'     # the value of saml2.pack.PREFIX the finding is about


def _soap_spliced(thingy):
    """The message as make_soap_enveloped_saml_thingy splices it (leading declaration stripped)."""
    if thingy[0:5].lower() == "<?xml":
        end = thingy.find("?>")
        if end != -1:
            thingy = thingy[end + 2:].lstrip()
    return thingy


PAOS_NS = "urn:liberty:paos:2003-08"
ECP_NS = "urn:oasis:names:tc:SAML:2.0:profiles:SSO:ecp"
PREFIXES.update({PAOS_NS: "paos", ECP_NS: "ecp", "urn:ietf:params:xml:ns:samlec": "samlec"})
UNKNOWN_BINDINGS = ["urn:oasis:names:tc:SAML:2.0:bindings:PAOS", "urn:oasis:names:tc:SAML:2.0:bindings:HTTP-POST-SimpleSign",
                    "urn:c14:binding", "", "HTTP-POST", "urn:oasis:names:tc:SAML:2.0:bindings:http-post"]
HDR_KINDS = ["paos_request", "ecp_relay", "ecp_request", "ecp_response", "paos_response"]
HDR_KINDS_FOREIGN = ["saml_issuer", "samlec_key"]      # classes outside one / both of the receivers' module lists

# set to True to hand the POST / redirect packers the message as BYTES (what to_string() returns):
# pack.http_form_post_message used to turn that into the text "b'...'" (str(bytes)); repaired in /repo (fix: e14c2f96)
GEN_BYTES_MESSAGE = True


def _module_list(mods):
    from saml2 import samlp
    from saml2.profile import ecp, paos, samlec

    # Entity.parse_soap_message / saml2.ecp.handle_ecp_authn_response, Base.parse_ecp_authn_response
    return [paos, ecp, samlp, samlec] if mods == "entity" else [paos, ecp, samlp]


def _known_class(clark, mods):
    """Does one of the receiver's schema modules list this element (namespace + local name)?"""
    if not clark.startswith("{"):
        return False
    ns, local = clark[1:].split("}", 1)
    return any(m.NAMESPACE == ns and local in m.ELEMENT_BY_TAG for m in _module_list(mods))


def _soap_parts(spec):
    """(message instance, header block instances) for the header-carrying SOAP cases."""
    import random

    from saml2 import saml, samlp
    from saml2.profile import ecp, paos, samlec

    r = random.Random(spec["seed"])
    kind = spec["kind"]
    if kind <= 3:
        m, _ = _soap_object({"kind": kind, "seed": spec["seed"], "headers": 0})
    elif kind == 4:     # a full response with an assertion (what an ECP client receives)
        issuer = saml.Issuer(text="https://idp.c14.example/" + gen_xml_text(r, 8))
        avs = [saml.AttributeValue(text=gen_xml_text(r, 12)) for _ in range(r.randint(1, 3))]
        a = saml.Assertion(id="a-1", version="2.0", issue_instant="2026-01-01T00:00:00Z", issuer=issuer,
                           attribute_statement=[saml.AttributeStatement(attribute=[saml.Attribute(name="urn:oid:2.5.4.4", attribute_value=avs)])])
        m = samlp.Response(id="id-5", version="2.0", issue_instant="2026-01-01T00:00:00Z", in_response_to="id-1", issuer=issuer,
                           assertion=[a], status=samlp.Status(status_code=samlp.StatusCode(value=samlp.STATUS_SUCCESS)))
    elif kind == 5:     # not a protocol message: no module of the receiver lists it
        m = saml.Assertion(id="a-2", version="2.0", issue_instant="2026-01-01T00:00:00Z",
                           issuer=saml.Issuer(text="https://idp.c14.example/" + gen_xml_text(r, 8)))
    else:
        m = samlp.LogoutResponse(id="id-6", version="2.0", issue_instant="2026-01-01T00:00:00Z", in_response_to="id-1",
                                 status=samlp.Status(status_code=samlp.StatusCode(value=samlp.STATUS_SUCCESS),
                                                     status_message=samlp.StatusMessage(text=gen_xml_text(r, 12))))
    actor = "http://schemas.xmlsoap.org/soap/actor/next"
    headers = []
    for hk in spec["hdr"]:
        if hk == "paos_request":
            h = paos.Request(must_understand="1", actor=actor, service=ECP_NS, message_id=r.choice([None, "m-" + gen_xml_text(r, 6)]),
                             response_consumer_url="https://sp.c14.example/paos?x=" + gen_xml_text(r, 5))
        elif hk == "ecp_relay":     # the relay state of the ECP profile travels as a header block
            txt = gen_xml_text(r, 10) if r.randrange(4) else gen_xml_text(r, r.choice(LENGTHS[:7]))
            h = ecp.RelayState(must_understand="1", actor=actor, text=txt)
        elif hk == "ecp_request":
            h = ecp.Request(must_understand="1", actor=actor, provider_name=r.choice([None, gen_xml_text(r, 8)]),
                            issuer=saml.Issuer(text="https://sp.c14.example/" + gen_xml_text(r, 8)))
        elif hk == "ecp_response":
            h = ecp.Response(must_understand="1", actor=actor, assertion_consumer_service_url="https://sp.c14.example/acs?" + gen_xml_text(r, 6))
        elif hk == "paos_response":
            h = paos.Response(must_understand="1", actor=actor, ref_to_message_id="m-" + gen_xml_text(r, 6))
        elif hk == "saml_issuer":
            h = saml.Issuer(text=gen_xml_text(r, 8))
        else:
            h = samlec.GeneratedKey(text=base64.b64encode(bytes(r.randrange(256) for _ in range(8))).decode())
        headers.append(h)
    return m, headers


def _as_message_object(case, rng):
    """Make `case` hand the packer a message INSTANCE; `msg` is the text the receiver must get
    (the instance's own serialisation, as an independent parser reads it back)."""
    spec = {"kind": rng.randrange(4), "seed": rng.randrange(10 ** 9), "headers": 0}
    m, _ = _soap_object(spec)
    case["msg_obj"] = spec
    case["msg"] = m.to_string().decode("utf-8")


def _message_arg(case):
    if case.get("msg_obj"):
        return _soap_object(case["msg_obj"])[0]
    if case.get("msg_bytes"):
        return u8(case["msg"])
    return case["msg"]


MSGTYPES = {
    "response": ["{%s}Response" % SAMLP, "{%s}LogoutResponse" % SAMLP],
    "logout_response": ["{%s}Response" % SAMLP, "{%s}LogoutResponse" % SAMLP],
    "logout_request": ["{%s}LogoutRequest" % SAMLP],
    "authn_request": ["{%s}AuthnRequest" % SAMLP],
    "artifact_resolve": ["{%s}ArtifactResolve" % SAMLP],
}


# ------------------------------------------------------------------ implementation side


class _FormParser(HTMLParser):
    def __init__(self):
        super().__init__(convert_charrefs=True)
        self.fields = []
        self.actions = []

    def handle_starttag(self, tag, attrs):
        d = {}
        for k, v in attrs:
            d.setdefault(k, v if v is not None else "")
        if tag == "input" and "name" in d:
            self.fields.append([d["name"], d.get("value", "")])
        if tag == "form":
            self.actions.append(d.get("action", ""))

    handle_startendtag = handle_starttag


def _entity():
    if "sp" not in _state:
        _state["sp"] = S.make_sp()
    return _state["sp"]


def _sp_with(ents):
    key = json.dumps(ents, sort_keys=True)
    cache = _state.setdefault("stores", {})
    if key not in cache:
        if len(cache) > 16:
            cache.clear()
        idps = [{"entity_id": e["entity_id"],
                 "idpsso": {"keys": [("signing", "idp_sign")], "sso": [(S.BINDING_REDIRECT, "https://x.c14.example/sso")],
                            "ars": [(S.BINDING_SOAP, loc, idx) for idx, loc in e["eps"]]}} for e in ents]
        cache[key] = S.make_sp(S.sp_config(idp_entities=idps))
    return cache[key]


def _md_entities(v):
    ents = [{"entity_id": e, "idpsso": {"keys": [("signing", "idp_sign")], "sso": [(S.BINDING_REDIRECT, "https://x.c14.example/sso")],
                                        "ars": [(S.BINDING_SOAP, loc, idx) for idx, loc in eps]}} for e, eps in v.items()]
    # a federation member that never issues artifacts keeps the document non-empty
    return ents + [{"entity_id": "https://other.c14.example/idp",
                    "idpsso": {"keys": [("signing", "idp_sign")], "sso": [(S.BINDING_REDIRECT, "https://other.c14.example/sso")]}}]


def _issuer(eid):
    cache = _state.setdefault("issuers", {})
    if eid not in cache:
        cache[eid] = S.make_idp(S.idp_config(entityid=eid))
    return cache[eid]


def _raw_query(url):
    return url.split("#", 1)[0].partition("?")[2]


def _params(url):
    return [[hx(u8(k)), hx(u8(v))] for k, v in up.parse_qsl(_raw_query(url), errors="surrogateescape")]


def _last(params, key):
    k = hx(u8(key))
    vals = [v for kk, v in params if kk == k]
    return bytes.fromhex(vals[-1]).decode("utf-8", "surrogateescape") if vals else None


def _unravel(txt, binding):
    from saml2.entity import Entity

    ok, out = _try(lambda: Entity.unravel(txt, binding))     # legitimately raised: UnravelError
    if not ok or out is None:
        return None
    return hx(out if isinstance(out, bytes) else str(out).encode("utf-8"))


def _dest_json(fn):
    ok, d = _try(fn)      # legitimately raised: KeyError (unknown source id), ValueError (type code, binascii.Error)
    if not ok:
        return {"r": "refused"}
    return {"r": "none"} if d is None else {"r": "dest", "loc": d if isinstance(d, str) else repr(d)}


class _Probe:
    """Stands in for an endpoint's index: records what artifact2destination compares it with."""

    def __init__(self, sink):
        self.sink = sink

    def __eq__(self, other):
        self.sink.append(other)
        return False

    __hash__ = None


def _soap_object(spec):
    import random

    from saml2 import saml, samlp
    from saml2.profile import ecp, paos

    r = random.Random(spec["seed"])
    kind = spec["kind"]
    issuer = saml.Issuer(text="https://sp.c14.example/" + gen_xml_text(r, 8))
    if kind == 0:
        m = samlp.AuthnRequest(id="id-1", version="2.0", issue_instant="2026-01-01T00:00:00Z", issuer=issuer)
    elif kind == 1:
        m = samlp.LogoutRequest(id="id-2", version="2.0", issue_instant="2026-01-01T00:00:00Z", issuer=issuer,
                                name_id=saml.NameID(text=gen_xml_text(r, 12)))
    elif kind == 2:
        m = samlp.ArtifactResolve(id="id-3", version="2.0", issue_instant="2026-01-01T00:00:00Z", issuer=issuer,
                                  artifact=samlp.Artifact(text="AAQAAA=="))
    else:
        m = samlp.Response(id="id-4", version="2.0", issue_instant="2026-01-01T00:00:00Z", issuer=issuer,
                           status=samlp.Status(status_code=samlp.StatusCode(value=samlp.STATUS_SUCCESS)))
    headers = []
    if spec["headers"] >= 1:
        headers.append(paos.Request(must_understand="1", actor="http://schemas.xmlsoap.org/soap/actor/next",
                                    response_consumer_url="https://sp.c14.example/paos?x=" + gen_xml_text(r, 5),
                                    service="urn:oasis:names:tc:SAML:2.0:profiles:SSO:ecp"))
    if spec["headers"] >= 2:
        headers.append(ecp.RelayState(must_understand="1", actor="http://schemas.xmlsoap.org/soap/actor/next", text=gen_xml_text(r, 10)))
    return m, headers


def _try(fn):
    """Run ONE call into pysaml2.  Whatever it raises is the observable "refused" (a packer or
    unpacker that raises does not deliver); nothing of the harness's own code runs inside."""
    try:
        return True, fn()
    except Exception:  # noqa: BLE001 - deliberately wide, around a single library call
        return False, None


def run_impl(case):
    from saml2 import BINDING_HTTP_ARTIFACT, BINDING_HTTP_POST, BINDING_HTTP_REDIRECT, BINDING_SOAP, pack
    from saml2.entity import create_artifact
    from saml2.httpbase import HTTPBase

    op = case["op"]
    message = _message_arg(case) if op in ("post", "redirect") else None
    if op == "b64enc":
        return {"enc": hx(base64.b64encode(bytes.fromhex(case["data"])))}
    if op == "b64dec":
        try:
            return {"dec": hx(base64.b64decode(case["text"]))}
        except ValueError:          # binascii.Error is a ValueError; so is the non-ASCII refusal
            return {"dec": None}
    if op == "escape":
        return {"esc": hx(u8(pack._html_escape(case["text"])))}
    if op == "quote":
        return {"q": hx(u8(up.quote_plus(case["text"], safe="")))}
    if op == "unquote":
        return {"u": hx(u8(up.unquote_plus(case["text"], errors="surrogateescape")))}
    if op == "urlencode":
        return {"q": hx(u8(up.urlencode(dict(case["params"]))))}
    if op == "parse_qs":
        qsl = up.parse_qsl(case["text"], errors="surrogateescape")
        qs = up.parse_qs(case["text"], errors="surrogateescape")
        return {"qsl": [[hx(u8(k)), hx(u8(v))] for k, v in qsl],
                "qs": [[hx(u8(k)), [hx(u8(v)) for v in vs]] for k, vs in qs.items()]}
    if op == "query":
        return {"query": hx(u8(up.urlsplit(case["text"]).query)), "truthy": bool(up.urlparse(case["text"]).query)}

    if op == "post":
        typ = case["typ"]
        ent = _entity()
        if case["via"] == "apply_binding":
            ok, info = _try(lambda: ent.apply_binding(BINDING_HTTP_POST, message, case["loc"], case["rs"],
                                                       response=(typ == "SAMLResponse")))
        else:
            ok, info = _try(lambda: pack.http_form_post_message(message, case["loc"], case["rs"], typ))
        if not ok:       # legitimately: UnicodeDecodeError for a non-SAML parameter name with a non-ASCII message
            return {"html": None}
        page = info["data"]
        p = _FormParser()
        p.feed(page)
        p.close()
        fields = [[hx(u8(k)), hx(u8(v))] for k, v in p.fields]
        payload = p.fields[0][1] if p.fields else ""
        if typ in ("SAMLRequest", "SAMLResponse"):
            unr = _unravel(payload, BINDING_HTTP_POST)
        else:
            unr = hx(u8(payload))
        out = {"html": hx(u8(page)), "fields": fields, "action": hx(u8(p.actions[0])) if p.actions else None,
               "unraveled": unr}
        if case["via"] == "apply_binding":     # what the entity tells its caller besides the page
            out["info_url"] = hx(u8(str(info.get("url")))) if info.get("url") is not None else None
            out["method"] = info.get("method")
        return out
    if op == "unravel":
        from saml2 import BINDING_URI
        b = {"post": BINDING_HTTP_POST, "redirect": BINDING_HTTP_REDIRECT, "artifact": BINDING_HTTP_ARTIFACT,
             "uri": BINDING_URI, "none": None, "unknown": case.get("urn")}[case["binding"]]
        return {"out": _unravel(case["txt"], b)}        # legitimately raised: UnravelError, UnknownBinding

    if op == "uri":
        from saml2 import BINDING_URI
        from saml2.entity import Entity
        typ = case["typ"]
        if case["via"] == "apply_binding":
            ent = _entity()
            ok, info = _try(lambda: ent.apply_binding(BINDING_URI, case["msg"], case["loc"], case["rs"], response=(typ == "SAMLResponse")))
        else:
            ok, info = _try(lambda: HTTPBase.use_http_uri(case["msg"], typ, case["loc"], case["rs"]))   # legitimately: NotImplementedError
        if not ok:
            return {"r": None}
        if "url" in info:
            return {"r": "request", "url": hx(u8(info["url"])), "params": _params(info["url"])}
        data = info["data"]
        ok, back = _try(lambda: Entity.unravel(data, BINDING_URI))
        return {"r": "response", "data": data, "unraveled": back if ok and isinstance(back, str) else None}

    if op == "redirect":
        typ = case["typ"]
        ent = _entity()
        if case["via"] == "apply_binding":
            ok, info = _try(lambda: ent.apply_binding(BINDING_HTTP_REDIRECT, message, case["loc"], case["rs"],
                                                       response=(typ == "SAMLResponse"), sign=False))
        else:
            ok, info = _try(lambda: pack.http_redirect_message(message, case["loc"], case["rs"], typ))
        if not ok:       # legitimately: a bare Exception for an unknown message type
            return {"url": None}
        url = dict(info["headers"])["Location"]
        params = _params(url)
        v = _last(params, typ)
        if v is None:
            unr = None
        elif typ == "SAMLart":
            unr = hx(u8(v))
        else:
            unr = _unravel(v, BINDING_HTTP_REDIRECT)
        rsv = _last(params, "RelayState")
        out = {"url": hx(u8(url)), "params": params, "unraveled": unr, "relay": hx(u8(rsv)) if rsv is not None else None}
        if case["via"] == "apply_binding":
            out["info_url"] = hx(u8(str(info.get("url")))) if info.get("url") is not None else None
            out["method"] = info.get("method")
        return out
    if op == "artifact_url":
        ent = _entity()
        if case["via"] == "use_http_artifact":
            ok, info = _try(lambda: HTTPBase.use_http_artifact(case["art"], case["loc"], case["rs"]))
        else:
            ok, info = _try(lambda: ent.apply_binding(BINDING_HTTP_ARTIFACT, case["art"], case["loc"], case["rs"],
                                                       response=(case["via"] == "apply_binding_response")))
        if not ok:
            return {"url": None, "params": None}
        return {"url": hx(u8(info["url"])), "params": _params(info["url"])}

    if op == "soap":
        if case.get("as_object"):
            m, headers = _soap_object(case["as_object"])
            ok, data = _try(lambda: pack.make_soap_enveloped_saml_thingy(m, headers or None))
            if not ok:
                return {"wrapped": None, "env": None, "out": {"r": "refused"}}
            env = _envelope(data)
            return {"wrapped": None, "env": env, "out": _unwrap(data, case["expected"])}
        ent = _entity()
        if case["via"] == "apply_binding":
            ok, wrapped = _try(lambda: ent.apply_binding(BINDING_SOAP, case["thingy"], "https://idp.c14.example/soap", sign=False)["data"])
        else:
            ok, wrapped = _try(lambda: pack.make_soap_enveloped_saml_thingy(case["thingy"]))
        if not ok:       # the packer raised: nothing is delivered
            return {"wrapped": None, "env": None, "out": None if case["tree"] is None else {"r": "refused"}}
        if case["tree"] is None:
            return {"wrapped": wrapped, "env": None, "out": None}
        if case["via"] == "unravel":
            from saml2.entity import Entity
            ok, out = _try(lambda: Entity.unravel(wrapped, BINDING_SOAP, case["msgtype"]))     # legitimately: UnravelError
            out = {"r": "refused"} if not ok else {"r": "empty"} if out == "" else {"r": "elem", "e": _canon_bytes(out)}
        else:
            out = _unwrap(wrapped, case["expected"])
        return {"wrapped": wrapped, "env": _envelope(wrapped), "out": out}

    if op == "soap_unwrap":
        return {"out": _unwrap(case["envelope"], case["expected"])}

    if op == "soap_open":
        from saml2 import BINDING_PAOS
        spec = case["parts"]
        m, headers = _soap_parts(spec)
        wrap = spec["wrap"]
        if wrap == "pack":
            ok, data = _try(lambda: pack.make_soap_enveloped_saml_thingy(m, headers or None))
        elif wrap == "pack_str":
            text = m.to_string().decode("utf-8")
            ok, data = _try(lambda: pack.make_soap_enveloped_saml_thingy(text, headers or None))
        else:
            ent = _entity()
            b = BINDING_PAOS if wrap == "apply_binding_paos" else BINDING_SOAP
            ok, data = _try(lambda: ent.apply_binding(b, m, "https://idp.c14.example/soap", sign=False, soap_headers=headers or None)["data"])
        if not ok:
            return {"env": None, "opened": {"r": "refused"}}
        return {"env": _envelope(data), "opened": _open(data, spec["mods"])}
    if op == "soap_open_foreign":
        return {"opened": _open(case["envelope"], case["mods"])}

    if op == "artifact":
        handle = bytes.fromhex(case["handle"])
        if case.get("handle_as_str"):
            handle = handle.decode("utf-8")
        eid = u8(case["entity_id"]) if case.get("eid_as_bytes") else case["entity_id"]
        ok, art = _try(lambda: create_artifact(eid, handle, case["idx"]))    # legitimately: ValueError (index range)
        if not ok or not isinstance(art, str):
            return {"art": None, "dest": None}
        sp = _sp_with(case["ents"])
        return {"art": art, "dest": _dest_json(lambda: sp.artifact2destination(art, "idpsso"))}
    if op == "art_dest":
        sp = _sp_with(case["ents"])
        return {"dest": _dest_json(lambda: sp.artifact2destination(case["art"], "idpsso"))}
    if op == "art_history":
        import saml2.entity as entity_mod

        receiver = S.make_sp(S.sp_config(idp_entities=_md_entities(case["md"])))
        saved = entity_mod.rndbytes
        entity_mod.rndbytes = lambda *a, **k: RND
        obs, seen = [], []
        try:
            for st in case["steps"]:
                if st["k"] == "issue":
                    issuer = _issuer(st["entity_id"])
                    ok, art = _try(lambda: issuer.use_artifact(st["msg"], st["idx"]))     # legitimately: ValueError (index range)
                    if not ok or not isinstance(art, str):
                        obs.append({"art": None, "dest": None, "carried": None, "stored": False})
                        continue
                    ok, info = _try(lambda: issuer.apply_binding(BINDING_HTTP_ARTIFACT, art, st["dest"], st["rs"], response=True))
                    carried = _last(_params(info["url"]), "SAMLart") if ok else None
                    seen.append(carried if carried is not None else art)
                    obs.append({"art": art, "carried": carried, "stored": issuer.artifact.get(art) == st["msg"],
                                "dest": _dest_json(lambda: receiver.artifact2destination(seen[-1], "idpsso"))})
                elif st["k"] == "reload":
                    conf = {"inline": [S.metadata_xml(_md_entities(st["md"]))]}
                    ok, r = _try(lambda: receiver.reload_metadata(conf))
                    obs.append({"reloaded": bool(ok and r)})
                else:
                    if st["i"] < len(seen):
                        art = seen[st["i"]]
                        obs.append({"dest": _dest_json(lambda: receiver.artifact2destination(art, "idpsso"))})
                    else:
                        obs.append({"dest": None})
        finally:
            entity_mod.rndbytes = saved
        return {"obs": obs}
    if op == "art_fields":
        sp = _entity()
        saved = sp.sourceid
        out = []
        try:
            for lo in range(256):
                seen = []
                sp.sourceid = {b"s" * 20: {"idpsso_descriptor": [{"artifact_resolution_service": [{"index": _Probe(seen), "location": "x"}]}]}}
                art = base64.b64encode(b"\x00\x04" + bytes([case["hi"], lo]) + b"s" * 20 + b"h" * 20).decode("ascii")
                try:
                    sp.artifact2destination(art, "idpsso")
                except (KeyError, ValueError):
                    pass
                out.append(seen[0] if len(seen) == 1 else "?")
        finally:
            sp.sourceid = saved
        return {"idx": out}
    raise ValueError(op)


def _envelope(data):
    """The wrapped message as an independent XML parser sees it."""
    try:
        root = ET.fromstring(data.encode("utf-8") if isinstance(data, str) else data)
    except ET.ParseError:
        return None
    parts = []
    for p in root:
        if p.tag == "{%s}Body" % SOAPENV:
            parts.append({"kind": "body", "children": [cstr(canon_el(c)) for c in p]})
        elif p.tag == "{%s}Header" % SOAPENV:
            parts.append({"kind": "header", "children": [cstr(canon_el(c)) for c in p]})
        else:
            parts.append({"kind": "other"})
    return {"tag_ok": root.tag == "{%s}Envelope" % SOAPENV, "parts": parts}


def _open(data, mods):
    """What the header-aware receiver makes of an envelope: every returned instance serialised by
    its own class and read back by an independent parser."""
    from saml2 import soap
    from saml2.entity import Entity

    # legitimately raised: XmlParseError, ValueError (root tag), IndexError (empty Body), AttributeError (no namespace),
    # bare Exception (no items / unknown class)
    if mods == "entity":
        ok, r = _try(lambda: Entity.parse_soap_message(data))
    else:
        modules = _module_list(mods)
        ok, r = _try(lambda: soap.class_instances_from_soap_enveloped_saml_thingies(data, modules))
    if not ok:
        return {"r": "refused"}

    def ser(inst):
        ok, txt = _try(lambda: inst.to_string())
        return _canon_bytes(txt) if ok else "<unserialisable>"
    return {"r": "ok", "header": [ser(h) for h in r["header"]], "body": ser(r["body"]) if r["body"] is not None else None}


def _canon_bytes(out):
    """Canonical tree of what an unwrapper returned (text that is not XML stays visible as such)."""
    try:
        return cstr(canon_el(ET.fromstring(out)))
    except ET.ParseError:
        return "<unparseable>"


def _unwrap(wrapped, expected):
    from saml2 import soap

    # legitimately raised: WrongMessageType, ParseError, ValueError (root tag), bare Exception (children / no items)
    ok, out = _try(lambda: soap.parse_soap_enveloped_saml_thingy(wrapped, expected))
    if not ok:
        return {"r": "refused"}
    if out == "":
        return {"r": "empty"}
    return {"r": "elem", "e": _canon_bytes(out)}


def compare(case, impl, model):
    if case["op"] == "soap" and case.get("as_object"):
        return impl.get("env") == model.get("env") and impl.get("out") == model.get("out")
    return impl == model


def nontrivial(case, impl, lean):
    p = lean.get("path", "")
    return not (p.endswith("/refused") or p.endswith("raises") or p.endswith("unknown-typ") or p.endswith("undecodable"))


def finding_key(case, impl, lean):
    """Root-cause class of a spec failure (narrow: one key per root cause)."""
    if case["op"] in ("redirect", "artifact_url") and impl.get("url") is not None:
        loc = case["loc"]
        base = loc.partition("#")[0]
        own = base.partition("?")[2]
        # classes repaired by 1ca38117 / d815dc9a: named so that a regression surfaces under its old name
        # (none of them is a known finding any more: each gives VIOLATION)
        if "?" in base and own != "" and own.endswith("?"):
            return "C14/add-query-trailing-question-mark"
        if "#" in loc:
            return "C14/redirect-destination-fragment"
        if "?" in base and not "".join(ch for ch in own if ch not in "\t\r\n"):
            return "C14/redirect-destination-empty-query"
    if case["op"] == "uri" and impl.get("r") == "request" and ("?" in case["loc"] or "#" in case["loc"]):
        # repaired by f3123de0 (use_http_uri glued "?" without add_query): named, not a known finding
        return "C14/uri-destination-existing-query"
    if case["op"] == "soap" and not case.get("as_object") and case.get("tree") is not None:
        # repaired by d02e146f: named so that a regression surfaces under its old name (not a known finding)
        if PREFIX_TEXT in _soap_spliced(case["thingy"]):
            return "C14/soap-prefix-text-removed"
    return None


def neighbours(case, rng):
    """Directed search around a correspondence disagreement: the input classes on which a different
    but plausible implementation of the same step goes wrong."""
    op = case["op"]
    if op == "artifact":
        for idx in [12337, 8241, 24930] + rng.sample(hexlooking_indexes(), 40) + [255, 256, 65535]:
            c = dict(case)
            c["idx"] = idx
            yield c
    if op in ("post", "redirect"):
        body = _soap_spliced(case["msg"]) or "<a/>"
        for lead in LEAD + ["", '<?xml version="1.0"?>']:
            c = dict(case)
            c.pop("msg_obj", None)
            c["msg"] = lead + body
            if "inflate" in c:
                c["inflate"] = [inflate_row(u8(c["msg"]))]
            if "deflated" in c:
                c["deflated"] = hx(zlib.compress(u8(c["msg"]))[2:-4])
            yield c
        for n_ in (79, 80, 81, 255, 256, 1024):
            c = dict(case)
            c["rs"] = gen_long(rng, n_)
            yield c
    if op == "unravel" and case["binding"] == "post":
        for lead in LEAD:
            raw = u8(lead + "<a>x</a>")
            for data in (raw, raw_deflate(raw)):
                yield {"op": "unravel", "binding": "post", "txt": base64.b64encode(data).decode(),
                       "inflate": [inflate_row(data)], "expect": hx(raw)}


def shrink(case):
    if case["op"] == "art_history":
        steps = case["steps"]
        if len(steps) > 1:
            yield dict(case, steps=steps[:-1])
        for k, st in enumerate(steps):       # dropping an issue step would renumber the later resolutions
            if st["k"] != "issue" or not any(x["k"] == "resolve" for x in steps[k + 1:]):
                yield dict(case, steps=steps[:k] + steps[k + 1:])
        return
    for k in ("rs", "loc", "msg", "thingy", "text"):
        v = case.get(k)
        if isinstance(v, str) and v:
            # long values: try the lengths around the usual limits first, then halves, then single characters
            for cand in [v[:k] for k in LENGTHS if k < len(v)][:4] + [v[: len(v) // 2], v[len(v) // 2:], v[1:], v[:-1]]:
                if cand != v:
                    if k == "msg" and case.get("msg_obj"):
                        continue             # the text is the instance's own serialisation
                    c = dict(case)
                    c[k] = cand
                    if k == "msg":
                        if "inflate" in c:
                            c["inflate"] = [inflate_row(u8(cand))]
                        if "deflated" in c:
                            c["deflated"] = hx(zlib.compress(u8(cand))[2:-4])
                    if k == "thingy" and c.get("tree") is not None:
                        continue
                    yield c


def distribution(recs):
    d = {}
    for r in recs:
        k = r["case"]["op"]
        d[k] = d.get(k, 0) + 1
    return d
