"""C15 — redirect-binding signatures bind message, relay state and algorithm: correspondence harness.

Real code exercised
  signer   : saml2.pack.http_redirect_message (directly, backend = RSACrypto(real key)) and
             Entity.apply_binding(BINDING_HTTP_REDIRECT, ...) of real Saml2Client / Server instances;
             the octet string handed to RSASigner.sign is captured by wrapping that method
  verifier : saml2.sigver.verify_redirect_signature (cert / sigkey / own-key paths)
  receiver : Server.parse_authn_request(enc, BINDING_HTTP_REDIRECT, relay_state, sigalg, signature)
             of an IdP with want_authn_requests_signed, sender certificates from scenario metadata

Abstraction of real RSA (the model's signatures are ideal terms): signature octets are mapped to the
term {"k": key name, "d": digest, "m": signed octets} by trial verification with `cryptography`
against every committed public key and every SHA digest (never through pysaml2); octets that nobody
signed are {"junk": crc}.  What Python's base64.b64decode makes of the received Signature text is
supplied to the model as the table `sig_dec` (external function).

Verify/server cases start from URLs produced by the REAL signer at generation time (RSA keys of
1024/2048/3072/4096 bit), then one parameter is mutated (value edits, bit flips, URL-level
re-encodings, dropped / duplicated / added parameters, other signatures, changes of the signature
OCTETS: prepend / append / insert / delete / duplicate / doubled / other lengths) and the key
material of the verifier call is varied: certificate of the signer / of another RSA entity / holding
an EC, Ed25519 or DSA key / not a certificate / empty; sigkey RSA or not, public or private object;
verifier backend holding the signer's key, another key, or no key.
"""
import base64
import binascii
import re
import zlib
from urllib.parse import parse_qsl, quote, urlencode

from cryptography import x509
from cryptography.exceptions import InvalidSignature
from cryptography.hazmat.primitives import hashes, serialization
from cryptography.hazmat.primitives.asymmetric import padding

import scenario as S
from translate import redirect_sig

PROP = "C15"
LEAN_PROPS = "PysamlModel.Props.C15"
MODEL_TARGETS = ["PysamlModel.Gen.RedirectSigTables", "PysamlModel.Model.RedirectSig", "PysamlModel.Spec.C15"]
AUDIT = "PysamlModel/Audit/C15.lean"
DRIVER = "Drivers/C15.lean"
GEN = [redirect_sig.generate]
CORRESPONDENCE = ("Drivers/C15.lean vs http_redirect_message / Entity.apply_binding (signed octets byte for byte, "
                  "emitted parameters, refusals), verify_redirect_signature, Server.parse_authn_request")
RULE = ("signed URLs from the real signer (2 directions x 5 allowed algorithms x relay states with characters that "
        "URL-encode differently x 4 keys) -> single-parameter mutations x verification key choices; plus disallowed/"
        "unknown algorithms, SAMLart/unknown types, apply_binding defaults; non-trivial = every case (all reach the "
        "model); distinct = distinct case JSON")
TRUSTED = [
    "ideal signatures: real RSA-PKCS1v15 octets are identified with the term (key, digest, message) by trial "
    "verification with `cryptography` over the committed keys; unforgeability / no cross-key or cross-digest "
    "collisions are assumed, real RSA is exercised by this run only",
    "external functions supplied as tables or used as given: urllib.parse.quote_plus (compared byte for byte with "
    "the model's quotePlus on every signed string), base64.b64decode of the Signature text (table sig_dec), "
    "deflate_and_base64_encode (value taken as is; C14), urllib.parse.parse_qsl (query -> dictionary)",
    "regenerated tables: harness/translate/redirect_sig.py reads SIG_ALLOWED_ALG (entity, pack, xmldsig), "
    "SIGNER_ALGS (digest names), REQ_ORDER/RESP_ORDER (pack, sigver) from the imported modules",
    "receiver side: everything but the redirect signature check (decoding, XML signature_check, schema, "
    "destination, IssueInstant) is the abstract input `wellformed` (true for untouched real AuthnRequests)",
]
ASSUMPTIONS = [
    "parameter values are the URL-DECODED values the receiving framework hands over (a re-encoding of the URL that "
    "decodes to the same values is not a change); a change to the Signature parameter means a change of the octets "
    "it base64-decodes to (Python's lenient b64decode accepts several texts for the same octets)",
    "received dictionaries have string values and at most one value per key (duplicates are resolved first- or "
    "last-wins by the harness)",
    "the key a verifier call asks to verify under is: the key of the certificate when a NON-EMPTY certificate string "
    "is given (none if it holds no RSA key or is no certificate: then nothing may verify); without certificate "
    "(None or the empty string, both falsy in the code) the sigkey argument, and with neither the verifier's own key "
    "- calls that supply no certificate are the caller's business, not the property's; the library's own receiver "
    "never passes an empty certificate (a blank X509Certificate makes MetaData.certs raise -> refused)",
    "when both SAMLRequest and SAMLResponse are present the property does not say which is covered (the code covers "
    "SAMLRequest); completeness is not demanded there",
]
EXHAUSTIVE = False
PARALLEL = False

RSA = "http://www.w3.org/2001/04/xmldsig-more#rsa-"
ALLOWED = ["http://www.w3.org/2000/09/xmldsig#rsa-sha1", RSA + "sha224", RSA + "sha256", RSA + "sha384", RSA + "sha512"]
DISALLOWED = [RSA + "md5", RSA + "ripemd160", "http://www.w3.org/2000/09/xmldsig#dsa-sha1",
              "http://www.w3.org/2001/04/xmldsig-more#ecdsa-sha256", "http://www.w3.org/2000/09/xmldsig#hmac-sha1"]
UNKNOWN = ["foo", "", ALLOWED[0] + " ", " " + ALLOWED[2], ALLOWED[2].upper(), ALLOWED[0].replace("rsa-sha1", "RSA-SHA1"),
           ALLOWED[2] + "#", ALLOWED[2][:-1], "rsa-sha256", ALLOWED[2].replace("http://", "https://"), ALLOWED[4] + "\n"]
DIGESTS = {"sha1": hashes.SHA1, "sha224": hashes.SHA224, "sha256": hashes.SHA256, "sha384": hashes.SHA384,
           "sha512": hashes.SHA512, "md5": hashes.MD5}
DIGEST_OF = dict(zip(ALLOWED, ["sha1", "sha224", "sha256", "sha384", "sha512"]))
KEYS = ["sp", "sp2", "idp_sign", "idp_sign2", "idp2", "member2", "attacker",
        "c15_rsa1024", "c15_rsa3072", "c15_rsa4096"]  # RSA key pairs (2048 bit unless named otherwise)
NONRSA = ["c15_ec256", "c15_ed25519", "c15_dsa2048"]  # certificates / keys of another kind
MALFORMED_CERTS = {"junk-base64": "AAAA", "not-base64": "this is not a certificate !", "truncated": None,
                   "pem-armoured": None}

RELAY = ["", None, "rs", "a b", "a+b", "a%20b", "a%2Bb", "a&b=c", "&SigAlg=" + ALLOWED[0], "é", "日本語", "x" * 200, "~_.-*",
         "\n\t ", "%", "=", "&", "?#/:@", "'\"<>", "\x00\x7f", "🔑", "https://sp.example/return?a=1&b=2", "+", " ", "a=b",
         "A%3d", "%zz", "ü&ä"]

_priv = {}
_pub = {}
_by_n = {}


def _load_keys():
    if _priv:
        return
    for name in KEYS:
        with open(S.key_path(name), "rb") as f:
            _priv[name] = serialization.load_pem_private_key(f.read(), None)
        with open(S.cert_path(name), "rb") as f:
            _pub[name] = x509.load_pem_x509_certificate(f.read()).public_key()
        _by_n[_pub[name].public_numbers().n] = name
    for name in NONRSA:
        with open(S.key_path(name), "rb") as f:
            _priv[name] = serialization.load_pem_private_key(f.read(), None)
        with open(S.cert_path(name), "rb") as f:
            _pub[name] = x509.load_pem_x509_certificate(f.read()).public_key()


def key_name(key):
    """harness name of a `cryptography` RSA key object (private or public)"""
    _load_keys()
    pk = key.public_key() if hasattr(key, "public_key") else key
    return _by_n.get(pk.public_numbers().n)


def malformed_cert(variant):
    """a non-empty string that is not the base64 body of a certificate"""
    if variant == "truncated":
        return S.cert_b64("sp")[:200]
    if variant == "pem-armoured":  # pem_format() wraps it a second time
        return "-----BEGIN CERTIFICATE-----\n" + S.cert_b64("sp")[:64]
    return MALFORMED_CERTS[variant]


# ------------------------------------------------------------------ ideal-signature abstraction

_sig_terms = {}  # signature octets -> term


def identify(sig, candidates, hint=None):
    """Which (key, digest, message) is `sig` a PKCS#1 v1.5 signature of?  Trial verification with
    `cryptography` only.  `candidates`: message octet strings to try."""
    _load_keys()
    if sig in _sig_terms:
        return _sig_terms[sig]
    order = list(KEYS)
    if hint in order:
        order.remove(hint)
        order.insert(0, hint)
    for m in candidates:
        for name in order:
            for dname, dcls in DIGESTS.items():
                try:
                    _pub[name].verify(sig, m, padding.PKCS1v15(), dcls())
                except InvalidSignature:
                    continue
                term = {"k": name, "d": dname, "m": m.decode("latin-1")}
                _sig_terms[sig] = term
                return term
    return {"junk": zlib.crc32(sig)}


def ref_sign(name, dname, octets):
    """reference signer of the harness (adversarial signatures): `cryptography` directly"""
    _load_keys()
    sig = _priv[name].sign(octets, padding.PKCS1v15(), DIGESTS[dname]())
    _sig_terms[sig] = {"k": name, "d": dname, "m": octets.decode("latin-1")}
    return sig


def ref_octets(typ, value, rs, alg, order=None):
    parts = [(typ, value)] + ([("RelayState", rs)] if rs is not None else []) + [("SigAlg", alg)]
    if order:
        parts = [parts[i] for i in order if i < len(parts)]
    return "&".join(urlencode({k: v}) for k, v in parts).encode("ascii")


def sig_dec(text):
    """the external function base64.b64decode on the Signature text, as a table entry for the model"""
    if text is None:
        return None
    try:
        raw = base64.b64decode(text)
    except (binascii.Error, ValueError):
        return {"error": True}
    return _sig_terms.get(raw) or {"junk": zlib.crc32(raw)}


# ------------------------------------------------------------------ capture of what is signed

_captured = []
_wrapped = False


def setup():
    global _wrapped
    S.install()
    _load_keys()
    if not _wrapped:
        import saml2.sigver as sv

        orig = sv.RSASigner.sign

        def sign(self, msg, key=None):
            _captured.append((key or self.key, getattr(self.digest, "name", "?"), msg))
            return orig(self, msg, key)

        sv.RSASigner.sign = sign
        _wrapped = True


_entities = {}


def _entity(role, key, cfg_alg, should_sign):
    k = (role, key, cfg_alg, should_sign)
    if k not in _entities:
        svc = {}
        if cfg_alg is not None:
            svc["signing_algorithm"] = cfg_alg
        if role == "sp":
            if should_sign is not None:
                svc["authn_requests_signed"] = should_sign
            _entities[k] = S.make_sp(S.sp_config(sp=svc, key_file=S.key_path(key), cert_file=S.cert_path(key)))
        else:
            if should_sign is not None:
                svc["sign_response"] = should_sign
            _entities[k] = S.make_idp(S.idp_config(idp=svc, key_file=S.key_path(key), cert_file=S.cert_path(key)))
    return _entities[k]


_backends = {}


def _backend(name):
    """RSACrypto holding the named private key; None = a backend without key (entity without key_file)"""
    if name not in _backends:
        from saml2.sigver import RSACrypto, import_rsa_key_from_file

        _backends[name] = RSACrypto(import_rsa_key_from_file(S.key_path(name)) if name else None)
    return _backends[name]


def _do_sign(case):
    """-> (exception or None, info dict or None, captured list)"""
    from saml2 import BINDING_HTTP_REDIRECT
    from saml2.pack import http_redirect_message

    del _captured[:]
    try:
        if case["via"] == "entity":
            ent = _entity(case["role"], case["key"], case["cfg_alg_conf"], case["should_sign_conf"])
            info = ent.apply_binding(BINDING_HTTP_REDIRECT, case["message"], case["location"],
                                     relay_state=case["relay_state"], response=case["response"],
                                     sign=case["sign"], sigalg=case["sigalg"])
        else:
            info = http_redirect_message(case["message"], case["location"], relay_state=case["relay_state"],
                                         typ=case["typ"], sigalg=case["sigalg"], sign=case["sign"],
                                         backend=_backend(case["key"]))
    except Exception as e:  # whatever the signer raises is its refusal
        return e, None, list(_captured)
    return None, info, list(_captured)


def _query_of(info, location):
    url = dict(info["headers"])["Location"]
    if not url.startswith(location) or url[len(location):len(location) + 1] not in ("?", "&"):
        raise AssertionError("unexpected redirect URL shape: %r" % url[:120])
    return url[len(location) + 1:]


def _observe_sign(case, exc, info, captured):
    if exc is not None:
        return {"r": "refused"}
    q = _query_of(info, case["location"])
    pairs = parse_qsl(q, keep_blank_values=True, strict_parsing=False, encoding="utf-8", errors="replace")
    signed = None
    cands = []
    hint = None
    if captured:
        key, dname, msg = captured[-1]
        signed = {"octets": msg.decode("latin-1"), "digest": dname, "key": key_name(key)}
        cands.append(msg)
        hint = signed["key"]
    out = []
    for k, v in pairs:
        if k == "Signature":
            try:
                raw = base64.b64decode(v, validate=True)
            except (binascii.Error, ValueError):
                out.append([k, v])
                continue
            d = dict(pairs)
            typ = "SAMLRequest" if "SAMLRequest" in d else "SAMLResponse"
            if typ in d and "SigAlg" in d:  # second candidate: octets re-derived from the emitted parameters
                cands.append(ref_octets(typ, d[typ], d.get("RelayState"), d["SigAlg"]))
            out.append([k, identify(raw, cands, hint)])
        else:
            out.append([k, v])
    return {"r": "ok", "params": out, "signed": signed}


# ------------------------------------------------------------------ generators


def deflate_b64(message):
    from saml2.s_utils import deflate_and_base64_encode  # external function (C14), value taken as is

    v = deflate_and_base64_encode(message)
    return v.decode("ascii") if isinstance(v, bytes) else v


def rand_message(rng, i):
    c = rng.randrange(6)
    if c == 0:
        return "<samlp:AuthnRequest ID=\"id-%d\" Version=\"2.0\"><x>%s</x></samlp:AuthnRequest>" % (i, "é&lt;" * rng.randrange(4))
    if c == 1:
        return "".join(rng.choice("abc <>&=+%/\n\"'é日") for _ in range(rng.randrange(1, 60)))
    if c == 2:
        return "m%d" % i
    if c == 3:
        return "<Response>" + "A" * rng.randrange(0, 3000) + "</Response>"
    if c == 4:
        return "".join(chr(rng.randrange(32, 127)) for _ in range(rng.randrange(1, 200)))
    return "?" * rng.randrange(1, 5) + ">>>~~~"  # deflates to base64 with '+' and '/'


def pick_alg(rng, p_allowed=0.7):
    r = rng.random()
    if r < p_allowed:
        return rng.choice(ALLOWED)
    if r < p_allowed + 0.15:
        return rng.choice(DISALLOWED)
    return rng.choice(UNKNOWN + [None])


LOCATIONS = ["https://idp.verif.example/sso/redirect", "https://idp.verif.example/sso?tenant=a%20b&x=1"]


def gen_sign_case(rng, i):
    msg = rand_message(rng, i)
    rs = rng.choice(RELAY)
    loc = rng.choice(LOCATIONS)
    if rng.random() < 0.45:
        role, key = rng.choice([("sp", "sp"), ("idp", "idp_sign"), ("sp", "sp2"), ("idp", "attacker")])
        cfg = rng.choice([None, None, ALLOWED[2], ALLOWED[4], DISALLOWED[0], "foo"])
        ss = rng.choice([None, True, False])
        sign = rng.choice([True, True, None, None, False])
        sigalg = rng.choice([None, ""]) if rng.random() < 0.5 else pick_alg(rng)
        response = rng.random() < 0.5
        import saml2.xmldsig as ds

        eff_cfg = cfg if cfg else ds.DefaultSignature().get_sign_alg()  # configuration default (external)
        return {"op": "sign", "via": "entity", "role": role, "key": key, "cfg_alg_conf": cfg, "cfg_alg": eff_cfg,
                "should_sign_conf": ss, "should_sign": bool(ss), "response": response, "message": msg,
                "value": deflate_b64(msg), "relay_state": rs, "sign": sign, "sigalg": sigalg, "location": loc}
    typ = rng.choice(["SAMLRequest"] * 5 + ["SAMLResponse"] * 5 + ["SAMLart", "Bogus"])
    sign = rng.choice([True] * 8 + [False, None])
    return {"op": "sign", "via": "pack", "typ": typ,
            "key": rng.choice(["sp", "idp_sign", "sp2", "attacker", "c15_rsa1024", "c15_rsa3072", "c15_rsa4096"]),
            "message": msg, "value": deflate_b64(msg) if typ in ("SAMLRequest", "SAMLResponse") else msg,
            "relay_state": rs, "sign": sign, "sigalg": pick_alg(rng), "location": loc}


def signed_url(rng, i, typ=None, key=None, message=None, rs="__pick__", alg=None):
    """a URL from the REAL signer -> (inputs, raw query, decoded pairs)"""
    typ = typ or rng.choice(["SAMLRequest", "SAMLResponse"])
    key = key or rng.choice(["sp", "idp_sign", "sp2", "idp2", "c15_rsa1024", "c15_rsa3072", "c15_rsa4096"])
    message = message if message is not None else rand_message(rng, i)
    rs = rng.choice(RELAY) if rs == "__pick__" else rs
    alg = alg or rng.choice(ALLOWED)
    loc = LOCATIONS[0]
    case = {"via": "pack", "key": key, "typ": typ, "message": message, "relay_state": rs, "sign": True, "sigalg": alg,
            "location": loc}
    exc, info, captured = _do_sign(case)
    if exc is not None:
        return None
    q = _query_of(info, loc)
    pairs = parse_qsl(q, keep_blank_values=True)
    d = dict(pairs)
    if "Signature" in d:
        try:
            raw = base64.b64decode(d["Signature"], validate=True)
            cands = [c[2] for c in captured]
            if typ in d and "SigAlg" in d:
                cands.append(ref_octets(typ, d[typ], d.get("RelayState"), d["SigAlg"]))
            identify(raw, cands, key)
        except (binascii.Error, ValueError):
            pass
    return {"typ": typ, "key": key, "rs": rs, "alg": alg, "message": message}, q, pairs


def flip_char(rng, s):
    """one bit of one character flipped (result is a different, printable ASCII character where possible)"""
    if not s:
        return "x"
    for _ in range(20):
        i = rng.randrange(len(s))
        c = ord(s[i])
        if c < 128:
            n = c ^ (1 << rng.randrange(7))
            if 32 <= n < 127 and n != c:
                return s[:i] + chr(n) + s[i + 1:]
    return s[:-1] + ("y" if s[-1] != "y" else "z")


def edit_value(rng, s):
    c = rng.randrange(9)
    if c == 0:
        return flip_char(rng, s)
    if c == 1:
        return s + rng.choice(["x", " ", "=", "\n", "A", "%"])
    if c == 2:
        return rng.choice(["x", " ", "+"]) + s
    if c == 3:
        return s[:-1]
    if c == 4:
        return s.swapcase() if s.swapcase() != s else s + "x"
    if c == 5:
        i = rng.randrange(len(s) + 1)
        return s[:i] + rng.choice(["&", "=", "+", " ", "%20", "é"]) + s[i:]
    if c == 6:
        return ""
    if c == 7:
        return s.replace("+", " ") if "+" in s else s.replace("/", "_") if "/" in s else s + "+"
    return s[::-1] if s[::-1] != s else s + "x"


SIG_TEXT_SAME_OCTETS = ["\n", " ", "!", "="]


def mutate(rng, src, q, pairs):
    """-> (msg dict, note).  One mutation of a signed parameter set."""
    typ = src["typ"]
    d = dict(pairs)
    kind = rng.choice([
        "none", "none", "edit:message", "edit:message", "edit:relaystate", "edit:relaystate", "edit:sigalg",
        "edit:signature", "swap:sigalg-allowed", "swap:sigalg-unknown", "swap:sigalg-disallowed", "drop:relaystate",
        "drop:sigalg", "drop:signature", "drop:message", "add:relaystate", "add:other-direction", "rename:direction",
        "dup:first", "dup:last", "reenc:same-values", "reenc:plus-becomes-space", "reenc:double", "sig:attacker-key",
        "sig:other-digest", "sig:other-order", "sig:without-relaystate", "sig:spliced", "sig:junk", "sig:bad-base64",
        "sig:same-octets-other-text", "sig:noncanonical-tail", "add:extra", "message:other-signed",
        "resign:md5", "resign:unknown-alg",
        "sigoct:prepend-zero", "sigoct:prepend-junk", "sigoct:prepend-signature", "sigoct:doubled",
        "sigoct:append", "sigoct:insert", "sigoct:delete", "sigoct:duplicate-octet", "sigoct:strip-first",
        "sigoct:first-octet", "sigoct:zeros", "sigoct:modulus-length-variants",
    ])
    if kind == "none":
        return d, kind
    if kind == "edit:message":
        d[typ] = edit_value(rng, d[typ])
    elif kind == "edit:relaystate":
        if "RelayState" not in d:
            return None
        d["RelayState"] = edit_value(rng, d["RelayState"])
    elif kind == "edit:sigalg":
        d["SigAlg"] = edit_value(rng, d["SigAlg"])
    elif kind == "edit:signature":
        d["Signature"] = edit_value(rng, d["Signature"])
    elif kind == "swap:sigalg-allowed":
        d["SigAlg"] = rng.choice([a for a in ALLOWED if a != d["SigAlg"]])
    elif kind == "swap:sigalg-unknown":
        d["SigAlg"] = rng.choice(UNKNOWN)
    elif kind == "swap:sigalg-disallowed":
        d["SigAlg"] = rng.choice(DISALLOWED)
    elif kind == "drop:relaystate":
        if "RelayState" not in d:
            return None
        del d["RelayState"]
    elif kind == "drop:sigalg":
        del d["SigAlg"]
    elif kind == "drop:signature":
        del d["Signature"]
    elif kind == "drop:message":
        del d[typ]
    elif kind == "add:relaystate":
        if "RelayState" in d:
            return None
        d["RelayState"] = rng.choice(["", "x", "a b"])
    elif kind == "add:other-direction":
        other = "SAMLResponse" if typ == "SAMLRequest" else "SAMLRequest"
        d[other] = rng.choice([d[typ], "eJwDAAAAAAE=", "x"])
    elif kind == "rename:direction":
        other = "SAMLResponse" if typ == "SAMLRequest" else "SAMLRequest"
        d[other] = d.pop(typ)
    elif kind in ("dup:first", "dup:last"):
        k = rng.choice([typ, "RelayState", "SigAlg", "Signature"])
        if k not in d:
            return None
        extra = (k, edit_value(rng, d[k]))
        plist = list(pairs)
        i = rng.randrange(len(plist) + 1)
        plist.insert(i, extra)
        d = {}
        for a, b in (plist if kind == "dup:last" else reversed(plist)):
            d[a] = b
    elif kind == "reenc:same-values":
        c = rng.randrange(3)
        if c == 0:
            q2 = re.sub(r"%[0-9A-F]{2}", lambda m: m.group(0).lower(), q)
        elif c == 1:
            q2 = q.replace("+", "%20")
        else:
            q2 = re.sub(r"(?<==)([A-Za-z0-9])", lambda m: "%%%02X" % ord(m.group(1)), q)
        d = dict(parse_qsl(q2, keep_blank_values=True))
    elif kind == "reenc:plus-becomes-space":
        if "%2B" not in q:
            return None
        q2 = q.replace("%2B", "+", 1)
        d = dict(parse_qsl(q2, keep_blank_values=True))
    elif kind == "reenc:double":
        i = q.find("%")
        q2 = q[:i] + "%25" + q[i + 1:]
        d = dict(parse_qsl(q2, keep_blank_values=True))
    elif kind == "resign:md5":  # the signer itself re-signs with an algorithm outside the list
        d["SigAlg"] = RSA + "md5"
        sig = ref_sign(src["key"], "md5", ref_octets(typ, d[typ], d.get("RelayState"), d["SigAlg"]))
        d["Signature"] = base64.b64encode(sig).decode("ascii")
    elif kind == "resign:unknown-alg":  # ... or announces an unknown algorithm and signs with a common digest
        d["SigAlg"] = rng.choice(UNKNOWN + DISALLOWED[1:])
        sig = ref_sign(src["key"], rng.choice(["sha1", "sha256"]), ref_octets(typ, d[typ], d.get("RelayState"), d["SigAlg"]))
        d["Signature"] = base64.b64encode(sig).decode("ascii")
    elif kind.startswith("sigoct:"):  # the signature OCTETS change (canonical base64 text of the result)
        try:
            sig = base64.b64decode(d["Signature"], validate=True)
        except (binascii.Error, ValueError):
            return None
        n = len(sig)
        junk = lambda k: bytes(rng.randrange(256) for _ in range(k))
        if kind == "sigoct:prepend-zero":
            new = b"\x00" * rng.choice([1, 1, 2, 8, n]) + sig
        elif kind == "sigoct:prepend-junk":
            new = junk(rng.choice([1, 2, 16, n - 1, n, n + 1])) + sig
        elif kind == "sigoct:prepend-signature":
            other = ref_sign(rng.choice(KEYS), rng.choice(["sha1", "sha256"]), b"SAMLRequest=other&SigAlg=x")
            new = other + sig
        elif kind == "sigoct:doubled":
            new = sig * rng.choice([2, 2, 3])
        elif kind == "sigoct:append":
            new = sig + rng.choice([b"\x00", b"\x00" * n, junk(1), junk(n), sig[:1]])
        elif kind == "sigoct:insert":
            i = rng.randrange(n + 1)
            new = sig[:i] + junk(rng.choice([1, 1, 3])) + sig[i:]
        elif kind == "sigoct:delete":
            i = rng.randrange(n)
            new = sig[:i] + sig[i + 1:]
        elif kind == "sigoct:duplicate-octet":
            i = rng.randrange(n)
            new = sig[:i] + sig[i:i + 1] + sig[i:]
        elif kind == "sigoct:strip-first":
            new = sig[1:] if rng.random() < 0.5 else sig.lstrip(b"\x00")[1:]
        elif kind == "sigoct:first-octet":
            new = bytes([sig[0] ^ rng.choice([1, 0x80, 0xFF])]) + sig[1:]
        elif kind == "sigoct:zeros":
            new = b"\x00" * rng.choice([n, n - 1, n + 1, 1])
        else:  # lengths modulus-1 / modulus+1 / x2 around the genuine octets
            new = rng.choice([sig[:-1], sig[1:], sig + sig[-1:], sig[:1] + sig, b"\x00" + sig[:-1], sig[1:] + b"\x00",
                              sig + b"\x00" * n, b"\x00" * n + sig])
        if new == sig:
            return None
        d["Signature"] = base64.b64encode(new).decode("ascii")
    elif kind.startswith("sig:"):
        rs = d.get("RelayState")
        good = ref_octets(typ, d[typ], rs, d["SigAlg"])
        dn = DIGEST_OF[d["SigAlg"]]
        if kind == "sig:attacker-key":
            sig = ref_sign(rng.choice([k for k in KEYS if k != src["key"]]), dn, good)
        elif kind == "sig:other-digest":
            sig = ref_sign(src["key"], rng.choice([x for x in DIGESTS if x != dn and x != "md5"]), good)
        elif kind == "sig:other-order":
            sig = ref_sign(src["key"], dn, ref_octets(typ, d[typ], rs, d["SigAlg"], order=rng.choice([[2, 1, 0], [1, 0, 2], [0, 2, 1]]) if rs is not None else [1, 0]))
        elif kind == "sig:without-relaystate":
            if rs is None:
                return None
            sig = ref_sign(src["key"], dn, ref_octets(typ, d[typ], None, d["SigAlg"]))
        elif kind == "sig:spliced":
            sig = ref_sign(src["key"], dn, ref_octets(typ, d[typ] + "A", rs, d["SigAlg"]))
        elif kind == "sig:junk":
            sig = bytes(rng.randrange(256) for _ in range(rng.choice([0, 1, 255, 256, 257])))
        elif kind == "sig:bad-base64":
            d["Signature"] = rng.choice([d["Signature"][:-1], d["Signature"] + "A", "Q", "!!!!=", d["Signature"][:-3]])
            return d, kind
        elif kind == "sig:same-octets-other-text":
            t = d["Signature"]
            i = rng.randrange(len(t) + 1)
            d["Signature"] = t[:i] + rng.choice(SIG_TEXT_SAME_OCTETS) + t[i:] if rng.random() < 0.8 else t + "=="
            return d, kind
        elif kind == "sig:noncanonical-tail":
            t = d["Signature"]
            if not t.endswith("==") or len(t) < 3:
                return None
            alpha = "ABCDEFGHIJKLMNOPQRSTUVWXYZabcdefghijklmnopqrstuvwxyz0123456789+/"
            c = alpha.index(t[-3])
            d["Signature"] = t[:-3] + alpha[c ^ rng.choice([1, 2, 4, 8])] + "=="  # unused low bits of the last sextet
            return d, kind
        d["Signature"] = base64.b64encode(sig).decode("ascii")
    elif kind == "add:extra":
        d[rng.choice(["foo", "SAMLEncoding", "relaystate", "sigalg", "KeyInfo"])] = rng.choice(["", "x", d["SigAlg"]])
    elif kind == "message:other-signed":
        d[typ] = deflate_b64(src["message"] + "!")
    return d, kind


def verifier_choice(rng, src):
    """-> the key-material arguments of one verifier call: own (backend key, None = key-less backend),
    cert (+kind), sigkey (+kind, private or public object)"""
    signer = src["key"]
    others = [k for k in KEYS if k != signer]
    v = {"own": rng.choice(["idp_sign", "sp", "idp2"]), "cert": None, "cert_kind": None, "sigkey": None,
         "sigkey_kind": None, "sigkey_private": False}
    c = rng.randrange(40)
    if c < 16:  # the signer's certificate
        v.update(cert=signer, cert_kind="rsa")
        if c == 0:
            v["own"] = None  # key-less verifier
        elif c == 1:
            v["own"] = signer
    elif c < 20:  # another entity's RSA certificate (any size)
        v.update(cert=rng.choice(others), cert_kind="rsa")
        if c == 16:
            v["own"] = signer  # the verifier is the signer itself: its own key must not be used
    elif c < 26:  # another entity's certificate holding a key of another kind
        v.update(cert=rng.choice(NONRSA), cert_kind="other")
        v["own"] = rng.choice([signer, signer, signer, v["own"], None])
        if c == 25:
            v.update(sigkey=signer, sigkey_kind="rsa")  # a certificate is given: sigkey must not count
    elif c < 29:  # a string that is no certificate
        v.update(cert="malformed:" + rng.choice(sorted(MALFORMED_CERTS)), cert_kind="malformed")
        v["own"] = rng.choice([signer, v["own"], None])
    elif c < 31:  # empty certificate string = no certificate: sigkey / own key decide (caller's business)
        v.update(cert="", cert_kind="empty")
        v["own"] = rng.choice([signer, v["own"], None])
        if c == 30:
            v.update(sigkey=rng.choice([signer] + others[:2]), sigkey_kind="rsa")
    elif c < 34:
        v.update(sigkey=signer, sigkey_kind="rsa", sigkey_private=rng.random() < 0.5)
        v["own"] = rng.choice([v["own"], None])
    elif c == 34:
        v.update(sigkey=rng.choice(others), sigkey_kind="rsa", sigkey_private=rng.random() < 0.5)
    elif c == 35:  # a sigkey of another kind; the verifier holds the signer's key
        v.update(sigkey=rng.choice(NONRSA), sigkey_kind="other", sigkey_private=rng.random() < 0.5, own=signer)
    elif c == 36:
        v["own"] = signer  # own-key fallback, verifier is the signer
    elif c == 37:
        v["own"] = rng.choice(others)  # own-key fallback, someone else
    elif c == 38:
        v["own"] = None  # no key material at all
    else:
        v.update(cert=signer, cert_kind="rsa", sigkey=rng.choice(others), sigkey_kind="rsa")  # cert wins
    return v


def gen_verify_case(rng, i, url=None):
    src, q, pairs = url
    m = mutate(rng, src, q, pairs)
    if m is None:
        return None
    d, note = m
    c = {"op": "verify", "msg": [[k, v] for k, v in d.items()], "sig_dec": sig_dec(d.get("Signature")), "note": note,
         "signer": src["key"]}
    c.update(verifier_choice(rng, src))
    return c


MD_KEYSETS = [["sp"], ["sp2", "sp"], ["sp", "sp2"], ["sp2"], ["attacker", "idp2", "sp"], [],
              ["c15_ec256"], ["c15_ed25519", "sp"], ["sp", "c15_dsa2048"], ["c15_ec256", "c15_ed25519"],
              ["c15_rsa4096", "sp"], ["c15_rsa1024"]]


def authn_request_xml(i):
    sp = _entity("sp", "sp", None, None)
    with S.clock(S.NOW0):
        _rid, req = sp.create_authn_request(S.IDP_SSO_REDIRECT, sign=False, message_id="id-c15-%d" % i)
    return str(req)


def gen_server_case(rng, i, xml):
    must = rng.random() < 0.85
    # "idp_sign" is the RECEIVER's own key: it must never count for the sender
    key = rng.choice(["sp"] * 6 + ["sp2", "sp2", "attacker", "idp_sign", "idp_sign", "c15_rsa4096", "c15_rsa1024"])
    url = signed_url(rng, i, typ="SAMLRequest", key=key, message=xml)
    if url is None:
        return None
    src, q, pairs = url
    md = rng.choice(MD_KEYSETS)
    for _ in range(10):
        m = mutate(rng, src, q, pairs)
        if m is None:
            continue
        d, note = m
        if "SAMLRequest" not in d:
            continue  # nothing to hand to parse_authn_request
        same = d["SAMLRequest"] == dict(pairs)["SAMLRequest"]
        if not must and not same:
            continue  # without a signature requirement the outcome is C07's business
        return {"op": "server", "must": must, "origdoc": d["SAMLRequest"], "relay_state": d.get("RelayState"),
                "sigalg": d.get("SigAlg"), "signature": d.get("Signature"), "md_keys": md,
                "certs": [{"k": n, "kind": "other" if n in NONRSA else "rsa"} for n in md],
                "wellformed": same, "own": "idp_sign", "sig_dec": sig_dec(d.get("Signature")), "note": note,
                "signer": key}
    return None


def gen_cases(rng, tier):
    setup()
    n_sign, n_url, per_url, n_srv = (1500, 600, 8, 1500) if tier == "quick" else (16000, 8000, 9, 16000)
    # signer side: the whole small product of (direction, allowed algorithm) first, then random
    i = 0
    for typ in ("SAMLRequest", "SAMLResponse"):
        for alg in ALLOWED + DISALLOWED[:2] + UNKNOWN[:3] + [None]:
            for rs in ("a b&c=d+é", ""):
                i += 1
                msg = "<m n=\"%d\"/>" % i
                yield {"op": "sign", "via": "pack", "key": "sp", "typ": typ, "message": msg, "value": deflate_b64(msg),
                       "relay_state": rs, "sign": True, "sigalg": alg, "location": LOCATIONS[0]}
    # every relay state of the pool under every allowed algorithm, both directions
    for typ in ("SAMLRequest", "SAMLResponse"):
        for alg in ALLOWED:
            for rs in RELAY:
                i += 1
                msg = "<m n=\"%d\"/>" % i
                yield {"op": "sign", "via": "pack", "key": "idp_sign", "typ": typ, "message": msg,
                       "value": deflate_b64(msg), "relay_state": rs, "sign": True, "sigalg": alg,
                       "location": LOCATIONS[1]}
    for _ in range(n_sign):
        i += 1
        yield gen_sign_case(rng, i)
    # verifier side
    for _ in range(n_url):
        i += 1
        url = signed_url(rng, i)
        if url is None:  # the real signer refused an allowed algorithm: the sign cases report it
            continue
        # untouched, right certificate: must verify
        src, q, pairs = url
        d = dict(pairs)
        yield {"op": "verify", "msg": [[k, v] for k, v in d.items()], "own": "idp_sign", "cert": src["key"],
               "cert_kind": "rsa", "sigkey": None, "sigkey_kind": None, "sigkey_private": False,
               "sig_dec": sig_dec(d.get("Signature")), "note": "none", "signer": src["key"]}
        # ... and must not verify at the signer itself under a certificate of another kind
        yield {"op": "verify", "msg": [[k, v] for k, v in d.items()], "own": src["key"], "cert": rng.choice(NONRSA),
               "cert_kind": "other", "sigkey": None, "sigkey_kind": None, "sigkey_private": False,
               "sig_dec": sig_dec(d.get("Signature")), "note": "none", "signer": src["key"]}
        for _ in range(per_url):
            c = gen_verify_case(rng, i, url)
            if c is not None:
                yield c
    # receiver side
    xmls = [authn_request_xml(j) for j in range(4)]
    for _ in range(n_srv):
        i += 1
        c = gen_server_case(rng, i, rng.choice(xmls))
        if c is not None:
            yield c


# ------------------------------------------------------------------ implementation side

_idps = {}


def _idp(must, md_keys):
    k = (must, tuple(md_keys))
    if k not in _idps:
        sps = []
        if md_keys:
            sps = [S.default_sp_entity(spsso={
                "keys": [("signing", n) for n in md_keys],
                "acs": [(S.BINDING_POST, S.SP_ACS_POST, 0), (S.BINDING_REDIRECT, S.SP_ACS_REDIRECT, 1)],
                "slo": [(S.BINDING_REDIRECT, S.SP_SLO_REDIRECT)]})]
        else:  # the sender is unknown to the receiver's metadata
            sps = [{"entity_id": S.SP2_ID, "spsso": {"keys": [("signing", "sp2")],
                                                      "acs": [(S.BINDING_POST, "https://sp2.verif.example/acs", 0)]}}]
        _idps[k] = S.make_idp(S.idp_config(sp_entities=sps, idp={"want_authn_requests_signed": must}))
    return _idps[k]


def run_impl(case):
    setup()
    op = case["op"]
    if op == "sign":
        exc, info, captured = _do_sign(case)
        return _observe_sign(case, exc, info, captured)
    if op == "verify":
        from saml2.sigver import verify_redirect_signature

        msg = {k: v for k, v in case["msg"]}
        kind = case.get("cert_kind") or ("rsa" if case["cert"] else None)
        if kind is None:
            cert = None
        elif kind == "empty":
            cert = ""
        elif kind == "malformed":
            cert = malformed_cert(case["cert"].split(":", 1)[1])
        else:
            cert = S.cert_b64(case["cert"])
        sigkey = None
        if case["sigkey"]:
            sigkey = _priv[case["sigkey"]] if case.get("sigkey_private") else _pub[case["sigkey"]]
        try:
            r = verify_redirect_signature(msg, _backend(case["own"]), cert, sigkey)
        except Exception:  # KeyError / Unsupported / binascii.Error ...: not verified, by exception
            return {"r": "error"}
        if r is None:
            return {"r": "none"}
        return {"r": "verified" if r else "not_verified"}
    if op == "server":
        from saml2 import BINDING_HTTP_REDIRECT

        idp = _idp(case["must"], case["md_keys"])
        with S.clock(S.NOW0):
            try:
                req = idp.parse_authn_request(case["origdoc"], BINDING_HTTP_REDIRECT, relay_state=case["relay_state"],
                                              sigalg=case["sigalg"], signature=case["signature"])
            except Exception:  # IncorrectlySigned and every other refusal of the receiver
                return {"r": "refused"}
        return {"r": "accepted" if (req is not None and getattr(req, "message", None) is not None) else "refused"}
    raise ValueError(op)


def compare(case, impl, model):
    return impl == model


def nontrivial(case, impl, lean):
    return True


def finding_key(case, impl, lean):
    return None


def shrink(case):
    if case["op"] == "verify":
        for i, (k, _v) in enumerate(case["msg"]):
            if k not in ("SAMLRequest", "SAMLResponse", "SigAlg", "Signature"):
                c = dict(case)
                c["msg"] = case["msg"][:i] + case["msg"][i + 1:]
                yield c
    if case["op"] == "sign" and case.get("relay_state"):
        c = dict(case)
        c["relay_state"] = "a b"
        yield c
    if case["op"] == "sign" and len(case.get("message", "")) > 8:
        c = dict(case)
        c["message"] = "<m/>"
        c["value"] = deflate_b64("<m/>") if case.get("typ", "SAMLRequest") in ("SAMLRequest", "SAMLResponse") else "<m/>"
        yield c


def distribution(recs):
    d = {}
    for r in recs:
        c = r["case"]
        k = c["op"] + ":" + (c.get("note") or c.get("via") or "") + " -> " + str(r["impl"].get("r"))
        d[k] = d.get(k, 0) + 1
    return dict(sorted(d.items()))
